"""Command line: python -m sa <property-id> [--tier quick|thorough] [--replay path] [--root DIR]"""
import argparse
import importlib
import json
import os
import sys
import traceback

from . import __version__
from .loader import AnalysisError
from .report import Report, finish

ALL_IDS = ["C%02d" % i for i in range(1, 21)]

EXPLANATIONS = {}


def run_property(pid, tier="quick", seed=0, root=None, quiet=False, ctx=None):
    """Run all rules of one property.  Returns (exit_code, report, new_violations, known)."""
    from .engine import Ctx
    try:
        mod = importlib.import_module(".rules.%s" % pid.lower(), __package__)
    except ImportError as e:
        print("ANALYSIS-ERROR property=%s rule=cli reason=no rules implemented (%s)" % (pid, e))
        return 2, None, [], []
    R = Report(pid, tier, seed)
    try:
        if ctx is None:
            ctx = Ctx(root, tier)
        ctx.tier = tier
        R.extra["analysed"] = {"root": ctx.root, "digest": ctx.pkg.digest, "modules": len(ctx.pkg.mods),
                               "functions": len(ctx.pkg.funcs), "call_sites": ctx.cg.stats()[0],
                               "call_sites_unresolved": ctx.cg.stats()[1]}
        mod.check(ctx, R)
        if tier == "thorough" and hasattr(mod, "check_thorough"):
            mod.check_thorough(ctx, R)
        from .freshrule import fresh_rule
        R.attempt(fresh_rule, ctx, R)
        if R.count_failures:
            # a lost anchor / uninterpretable construct: only a NEW violation (not a recorded known finding) outranks it
            from .report import load_known_findings
            kk = set(e["key"] for e in load_known_findings().get("known", []) if e.get("property") == pid)
            if not [v for v in R.violations() if v.key not in kk]:
                raise AnalysisError(R.count_failures[0][0], R.count_failures[0][1])
    except AnalysisError as e:
        print("ANALYSIS-ERROR property=%s rule=%s reason=%s" % (pid, e.rule, e.reason))
        return 2, R, [], []
    except Exception as e:   # noqa  - internal failure: never a verdict
        tb = traceback.format_exc().strip().splitlines()
        print("ANALYSIS-ERROR property=%s rule=internal reason=%s: %s | %s" % (pid, type(e).__name__, e, " <- ".join(l.strip() for l in tb[-6:-1])))
        return 2, R, [], []
    level = getattr(mod, "LEVEL", "other")
    expl = (getattr(mod, "__doc__", "") or "") + " FRESH (all properties): no function in the property's scope changes in place an accumulator that is shared between calls " \
        "(a mutable or clock-valued parameter default, a module-level list / bytearray)."
    code, new, known = finish(R, level, " ".join(expl.split()), quiet=quiet)
    return code, R, new, known


def main(argv=None):
    ap = argparse.ArgumentParser(prog="check")
    ap.add_argument("property", nargs="?")
    ap.add_argument("--tier", default=os.environ.get("VERIF_TIER", "quick"), choices=["quick", "thorough"])
    ap.add_argument("--replay")
    ap.add_argument("--root")
    ap.add_argument("--version", action="store_true")
    ap.add_argument("--all", action="store_true")
    a = ap.parse_args(argv)
    if a.version:
        print("sa", __version__)
        return 0
    try:
        seed = int(os.environ.get("VERIF_SEED", "0"))
    except ValueError:
        seed = 0
    if a.all:
        worst = 0
        from .engine import Ctx
        try:
            ctx = Ctx(a.root, a.tier)
        except AnalysisError as e:
            print("ANALYSIS-ERROR property=* rule=%s reason=%s" % (e.rule, e.reason))
            return 2
        for pid in ALL_IDS:
            code, _, _, _ = run_property(pid, a.tier, seed, a.root, ctx=ctx)
            worst = max(worst, code)
        return worst
    if a.root and os.path.realpath(a.root) != os.path.realpath("/repo") and not os.environ.get("SA_EVIDENCE_DIR"):
        # a run against a scratch tree must never overwrite the evidence of /repo
        import tempfile
        from . import report
        report.EVIDENCE_DIR = tempfile.mkdtemp(prefix="sa-evidence-")
    if not a.property:
        ap.error("property id required")
    pid = a.property.upper()
    if a.replay:
        with open(a.replay) as f:
            want = json.load(f)
        code, R, new, known = run_property(pid, a.tier, seed, a.root, quiet=True)
        if R is None:
            return 2
        hit = [v for v in R.violations() if v.key == want.get("key")]
        if hit:
            v = hit[0]
            print("VIOLATION property=%s replay=%s  # reproduced: %s %s: %s" % (pid, a.replay, v.loc, v.rule, v.what))
            return 1
        print("replay: violation %s no longer present" % want.get("key"))
        return 0
    if a.tier == "thorough":
        from .selftest import run_selftest
        code, R, new, known = run_property(pid, a.tier, seed, a.root)
        if code == 2:
            return 2
        st = run_selftest(pid, seed)
        # merge self-test statistics into the evidence file
        from .report import EVIDENCE_DIR
        p = os.path.join(EVIDENCE_DIR, "%s.json" % pid)
        with open(p) as f:
            ev = json.load(f)
        ev["coverage"]["selftest"] = st
        # the canonicaliser's side conditions: each rewrite next to a near miss on which it must not fire (sa/canon_selfcheck.py)
        try:
            from . import canon_selfcheck
            import io
            import contextlib
            buf = io.StringIO()
            with contextlib.redirect_stdout(buf):
                rc = canon_selfcheck.main()
            ev["coverage"]["canonicaliser_side_conditions"] = {"cases": len(canon_selfcheck.CASES), "failed": [l for l in buf.getvalue().splitlines() if l.startswith(("FAIL", "ERROR"))]}
            # the tables the self-check filled describe its snippets, not /repo: nothing after this point reads them
            if rc != 0:
                print("ANALYSIS-ERROR property=%s rule=CANON reason=the canonicaliser applied a rewrite where its side condition fails (python -m sa.canon_selfcheck)" % pid)
                with open(p, "w") as f:
                    json.dump(ev, f, indent=1)
                return 2
        except Exception as e:   # noqa
            ev["coverage"]["canonicaliser_side_conditions"] = {"error": str(e)}
        try:
            from .sweep import sample_for_property
            ms = sample_for_property(pid, seed)
            ev["coverage"]["mutation_sample"] = ms
            print("%s mutation sample: %d of %d sampled first-order mutants of %s reported (%d not reported, %d analysis-error)" % (pid, ms["reported"], ms["sampled"], ",".join(ms["files"]), ms["not_reported"], ms["analysis_error"]))
        except Exception as e:   # noqa - an aid, never a verdict
            ev["coverage"]["mutation_sample"] = {"error": str(e)}
        ev["wall_s"] = round(ev["wall_s"] + st.get("wall_s", 0), 3)
        with open(p, "w") as f:
            json.dump(ev, f, indent=1)
        print("%s self-test: %d seeds fired / %d applied, %d controls silent / %d, blind: %s, noisy: %s"
              % (pid, st["seeds_fired"], st["seeds_applied"], st["controls_silent"], st["controls_applied"], st["blind"], st["noisy"]))
        return code
    code, _, _, _ = run_property(pid, a.tier, seed, a.root)
    return code


if __name__ == "__main__":
    sys.exit(main())
