"""Specification of the packet store's operations, checked against the abstract interpretation of their bodies
(sa/absstore.py).  For every abstract initial shape of the distinguished pair the set of abstract final states must be the
one the reference model produces.  Used by C19 (FIFO store) and C06/C01 (no packet dropped when parked)."""
import ast

from .absstore import Interp, AbsError, initial_state, P, NONE, State
from .loader import AnalysisError

A0, A1, CMD, DATA = P("arg0"), P("arg1"), P("cmd"), P("data")
CLSE = ("C", b"CLSE")
EQ_CLSE = ("eq", CMD, CLSE)


def _shape_cases(with_queue_empty=(None,)):
    """Initial shapes: (name, kwargs)."""
    out = [("no-inner-dict", dict(outer=False))]
    for rest in (True, False):
        out.append(("no-queue%s" % ("" if rest else "-inner-empty"), dict(outer=True, inner=False, rest=rest)))
    for rest in (True, False):
        for emp in with_queue_empty:
            out.append(("queue%s%s" % ("" if rest else "-alone", "" if emp is None else ("-empty" if emp else "-nonempty")), dict(outer=True, inner=True, rest=rest, empty=emp)))
    return out


def _nonnull(st, *params):
    for p in params:
        st.flags[("is-none", p)] = False
    return st


def _fmt_flags(st):
    out = []
    for a, v in st.flags.items():
        out.append(("" if v else "not ") + _atom(a))
    return " & ".join(out) or "always"


def _atom(a):
    k = a[0]
    def t(x):
        if isinstance(x, tuple) and x and x[0] == "P":
            return x[1]
        if isinstance(x, tuple) and x and x[0] == "C":
            return repr(x[1])
        if isinstance(x, tuple) and x and x[0] == "K":
            return "key%d#%d" % (x[1], x[2])
        if isinstance(x, tuple) and x and x[0] == "PROJ":
            return "%s[%d]" % (t(x[1]), x[2])
        if isinstance(x, tuple) and x and x[0] == "DEQ":
            return "dequeued"
        return str(x)
    if k == "eq":
        return "%s == %s" % (t(a[1]), t(a[2]))
    if k == "outer-has":
        return "%s in store" % t(a[1])
    if k == "inner-has":
        return "%s in store[%s]" % (t(a[2]), t(a[1]))
    if k == "queue-empty":
        return "queue[%s][%s] empty" % (t(a[1]), t(a[2]))
    if k == "inner-rest":
        return "store[%s] has other keys" % t(a[1])
    if k == "outer-rest":
        return "store has other keys"
    if k == "is-none":
        return "%s is None" % t(a[1])
    return "%s(%s)" % (k, ", ".join(t(x) for x in a[1:]))


def _interp(ctx, cls, opaque=()):
    return Interp(ctx, cls, opaque_methods=opaque)


def _run(ctx, R, rule, cls, mname, st, args, opaque=()):
    try:
        return _interp(ctx, cls, opaque).run(mname, st, args)
    except AbsError as e:
        raise AnalysisError(rule, "%s.%s is outside the interpreted subset: %s" % (cls.name, mname, e))
    except RecursionError:
        raise AnalysisError(rule, "%s.%s: interpretation does not terminate" % (cls.name, mname))


def _queue_of(st, k1, k0):
    i = st.outer.get(k1)
    if i is None or not i["present"]:
        return None
    q = i["entries"].get(k0)
    if q is None or not q["present"]:
        return None
    return q


# -------------------------------------------------------------------------------------------------------------------------
def put_spec(ctx, R, cls, rule, clse_drop="allowed"):
    """put(arg0, arg1, cmd, data): the item (cmd, data) is appended to the queue of (arg1, arg0) exactly once; a missing queue
    (and inner dict) is created fresh and nothing else changes.  clse_drop: 'allowed' (C19 leaves a CLSE for a pair without
    queue unspecified) or 'finding' (C06: dropping it loses a packet; reported under a key naming the shape)."""
    f = cls.methods.get("put")
    if f is None:
        raise AnalysisError(rule, "_AdbPacketStore.put not found")
    if f.params[1:] != ["arg0", "arg1", "cmd", "data"]:
        raise AnalysisError(rule, "put() parameters are %s" % f.params)
    args = {"arg0": A0, "arg1": A1, "cmd": CMD, "data": DATA}
    item = ("T", CMD, DATA)
    n = 0
    runs = []
    for cname, kw in _shape_cases():
        for is_clse in (True, False):
            st = initial_state(A0, A1, **kw)
            st.flags[EQ_CLSE] = is_clse          # decided up front: both kinds of packet are checked whether or not the code asks
            for o in _run(ctx, R, rule, cls, "put", st, args):
                runs.append((cname, o))
    for cname, o in runs:
        if True:
            n += 1
            fs = o.st
            sub = "%s|%s|%s" % (f.qualname, cname, _fmt_flags(fs))
            if o.kind != "return":
                R.fail(rule, sub + "|raises", "put() raises for a store of shape `%s` when %s" % (cname, _fmt_flags(fs)), f.loc())
                continue
            clse = fs.flags.get(EQ_CLSE)
            if not fs.effects:
                if cname.startswith("queue"):
                    R.fail(rule, sub + "|dropped", "put() returns without enqueuing although the pair has a queue (%s): a packet of a live stream is lost" % _fmt_flags(fs), f.loc())
                elif clse is True:
                    key = "%s|drops-CLSE|%s" % (f.qualname, "no-inner-dict" if cname == "no-inner-dict" else "no-queue")
                    if clse_drop == "allowed":
                        R.ok(rule, key + ("" if cname != "no-queue-inner-empty" else "|inner-empty"), "a CLSE for a pair without queue is not stored (left unspecified by the property)", f.loc())
                    else:
                        R.fail(rule, key, "put() drops a CLSE for a pair that has %s: a live stream's CLSE read off the wire by another stream's reader is lost" % (
                            "no entry at all" if cname == "no-inner-dict" else "an entry for its local id but no queue"), f.loc())
                else:
                    R.fail(rule, sub + "|dropped", "put() returns without enqueuing (%s): the packet is lost" % _fmt_flags(fs), f.loc())
                continue
            q = _queue_of(fs, A1, A0)
            ok = q is not None and [op for op in q["ops"]] == [("enq", item)] and o.val == NONE
            bad = [e for e in fs.effects if e[0] in ("del-inner", "del-queue", "reset", "deq")]
            others = [e for e in fs.effects if e[0] == "enq" and (e[1], e[2]) != (A1, A0)]
            if cname.startswith("queue"):
                ok = ok and q["ident"] == "orig" and fs.outer[A1]["ident"] == "orig" and [e[0] for e in fs.effects] == ["enq"]
            elif cname == "no-inner-dict":
                ok = ok and fs.outer[A1]["ident"] != "orig" and set(k for k, qq in fs.outer[A1]["entries"].items() if qq["present"]) == {A0} and q["ident"] != "orig"
            else:
                ok = ok and fs.outer[A1]["ident"] == "orig" and q["ident"] != "orig"
            R.check(ok and not bad and not others, rule, "%s|%s|enqueue%s" % (f.qualname, cname, "" if clse is None else ("|CLSE" if clse else "|not-CLSE")),
                    "(cmd, data) is appended once to the queue of its own (arg1, arg0) pair%s" % ("" if cname.startswith("queue") else ", created fresh"),
                    "for a store of shape `%s` (%s) put() performs %s instead of appending (cmd, data) once to the queue of its own pair" % (cname, _fmt_flags(fs), fs.effects), f.loc())
    R.rule_counts["%s-cases" % rule] = R.rule_counts.get("%s-cases" % rule, 0) + n


# -------------------------------------------------------------------------------------------------------------------------
def clear_spec(ctx, R, cls, rule):
    f = cls.methods.get("clear")
    if f is None:
        raise AnalysisError(rule, "_AdbPacketStore.clear not found")
    args = {"arg0": A0, "arg1": A1}
    for cname, kw in _shape_cases():
        st = initial_state(A0, A1, **kw)
        for o in _run(ctx, R, rule, cls, "clear", st, args):
            fs = o.st
            sub = "%s|%s" % (f.qualname, cname)
            if o.kind != "return":
                R.fail(rule, sub + "|raises", "clear() raises for a store of shape `%s`" % cname, f.loc())
                continue
            if not cname.startswith("queue"):
                R.check(not fs.effects, rule, sub, "nothing to forget: the store is unchanged", "clear() modifies the store although the pair has no queue: %s" % fs.effects, f.loc())
                continue
            want = [("del-queue", A1, A0)] + ([("del-inner", A1)] if "alone" in cname else [])
            R.check(fs.effects == want, rule, sub, "the pair's queue is forgotten%s" % (" and the now empty inner dict with it" if "alone" in cname else ""),
                    "for a store of shape `%s` clear() performs %s, expected %s" % (cname, fs.effects, want), f.loc())


def clear_all_spec(ctx, R, cls, rule):
    f = cls.methods.get("clear_all")
    if f is None:
        raise AnalysisError(rule, "_AdbPacketStore.clear_all not found")
    st = initial_state(A0, A1, outer=True, inner=True, rest=True)
    for o in _run(ctx, R, rule, cls, "clear_all", st, {}):
        R.check(o.kind == "return" and o.st.effects == [("reset",)], rule, f.qualname, "everything is forgotten", "clear_all() performs %s, expected a fresh empty dict" % o.st.effects, f.loc())


# -------------------------------------------------------------------------------------------------------------------------
def get_spec(ctx, R, cls, rule):
    """get(arg0, arg1) for an exact pair whose queue is not empty: exactly one item is dequeued from that pair's queue and
    returned as (cmd, arg0, arg1, data); a CLSE forgets the pair as clear() does; anything else leaves the shape alone."""
    f = cls.methods.get("get")
    if f is None:
        raise AnalysisError(rule, "_AdbPacketStore.get not found")
    args = {"arg0": A0, "arg1": A1}
    deq0 = ("DEQ", A1, A0, 0)
    for rest, clse in ((True, True), (True, False), (False, True), (False, False)):
        st = _nonnull(initial_state(A0, A1, outer=True, inner=True, rest=rest, empty=False), A0, A1)
        st.flags[("eq", ("PROJ", deq0, 0), CLSE)] = clse      # the packet retrieved is / is not a CLSE, whether or not the code asks
        for o in _run(ctx, R, rule, cls, "get", st, args):
            fs = o.st
            cname = "queue%s" % ("" if rest else "-alone")
            if o.kind != "return":
                R.fail(rule, "%s|%s|raises" % (f.qualname, cname), "get() raises for a pair with a pending packet", f.loc())
                continue
            deq = ("DEQ", A1, A0, 0)
            want_val = ("T", ("PROJ", deq, 0), A0, A1, ("PROJ", deq, 1))
            is_clse = fs.flags.get(("eq", ("PROJ", deq, 0), CLSE))
            sub = "%s|%s|%s" % (f.qualname, cname, "CLSE" if is_clse else "other" if is_clse is False else "any")
            R.check(o.val == want_val, rule, sub + "|result", "returns (cmd, arg0, arg1, data) of the item dequeued from the pair's own queue",
                    "get() returns %s" % (o.val,), f.loc())
            if is_clse:
                want = [("deq", A1, A0), ("del-queue", A1, A0)] + ([] if rest else [("del-inner", A1)])
            else:
                want = [("deq", A1, A0)]
            R.check(fs.effects == want, rule, sub + "|effects", "one item dequeued%s" % ("; a CLSE forgets the stream" if is_clse else ""),
                    "get() performs %s, expected %s" % (fs.effects, want), f.loc())
    # wildcard arguments are resolved through find(); everything then happens to the pair found
    F = ("FINDRES", (A0, A1))
    k0, k1 = ("PROJ", F, 0), ("PROJ", F, 1)
    dq = ("DEQ", k1, k0, 0)
    for which in (A0, A1):
        for rest in (True, False):
            for clse in (True, False):
                st = initial_state(k0, k1, outer=True, inner=True, rest=rest, empty=False)
                st.flags[("is-none", which)] = True
                st.flags[("is-none", A1 if which is A0 else A0)] = False
                st.flags[("findres-truthy", (A0, A1))] = True
                st.flags[("eq", ("PROJ", dq, 0), CLSE)] = clse
                try:
                    outs = _interp(ctx, cls, opaque=("find", "find_allow_zeros")).run("get", st, args)
                except AbsError as e:
                    raise AnalysisError(rule, "get() with a wildcard: %s" % e)
                for o in outs:
                    sub = "%s|wildcard-%s|%s|%s" % (f.qualname, which[1], "alone" if not rest else "shared", "CLSE" if clse else "other")
                    if o.kind != "return":
                        R.fail(rule, sub + "|raises", "get() with %s = None raises although find() found a pair" % which[1], f.loc())
                        continue
                    want = [("deq", k1, k0)] + ([("del-queue", k1, k0)] + ([] if rest else [("del-inner", k1)]) if clse else [])
                    R.check(o.st.effects == want, rule, sub + "|effects", "a wildcard is resolved by find(arg0, arg1); the packet is taken from (and a CLSE forgets) the pair found",
                            "with %s = None get() performs %s, expected %s on the pair found" % (which[1], o.st.effects, want), f.loc())
                    want_val = ("T", ("PROJ", dq, 0), k0, k1, ("PROJ", dq, 1))
                    R.check(o.val == want_val, rule, sub + "|result", "returns (cmd, remote, local, data) of the pair found", "with %s = None get() returns %s" % (which[1], o.val), f.loc())


# -------------------------------------------------------------------------------------------------------------------------
def _pair_ok(fs, val, a0_given, a1_given):
    """val = (x0, x1) returned by find(): x1 must be the local id given / an outer key, x0 the remote id given / an inner key of
    that entry, and the queue at that key must have been found non-empty."""
    if not (val[0] == "T" and len(val) == 3):
        return False, "returns %s" % (val,)
    x0, x1 = val[1], val[2]
    if a1_given:
        if x1 != A1:
            return False, "local id returned is not the one asked for"
    elif not (x1[0] == "K" and x1[1] == 1):
        return False, "local id returned is not a key of the store"
    # the key whose queue was tested
    tested = [a for a, v in fs.flags.items() if a[0] == "queue-empty" and v is False and a[1] == x1]
    ok_q = False
    for a in tested:
        k0 = a[2]
        if k0 == x0:
            ok_q = True
        elif fs.flags.get(("eq", k0, x0)) is True or fs.flags.get(("eq", x0, k0)) is True:
            ok_q = True
    if not ok_q:
        return False, "the pair returned was not found to have a non-empty queue"
    if a0_given:
        if x0 == A0:
            return True, ""
        if x0[0] == "K" and (fs.flags.get(("eq", x0, A0)) is True or fs.flags.get(("eq", A0, x0)) is True):
            return True, ""
        return False, "remote id returned is not the one asked for"
    if not (x0[0] == "K" and x0[1] == 0):
        return False, "remote id returned is not a key of that entry"
    return True, ""


def _allowed_exit(conds, a0_given, a1_given):
    """One exit path of a search loop: its conditions may only be the spec's: the queue is not empty (and the key matches)."""
    atoms = [(a, v) for a, v in conds if a[0] not in ("outer-has", "inner-rest", "outer-rest")]
    ne = [a for a, v in atoms if a[0] == "queue-empty" and v is False]
    if len(ne) != 1:
        return False
    rest = [(a, v) for a, v in atoms if not (a[0] == "queue-empty" and v is False)]
    for a, v in rest:
        if a[0] == "eq" and v is True and a0_given and A0 in a[1:] and any(x[0] == "K" and x[1] == 0 for x in a[1:]):
            continue
        if a[0] == "inner-has" and v is True and a0_given and a[2] == A0:
            continue
        return False
    return True


def find_spec(ctx, R, cls, rule):
    f = cls.methods.get("find")
    if f is None:
        raise AnalysisError(rule, "_AdbPacketStore.find not found")
    args = {"arg0": A0, "arg1": A1}
    n = 0
    # exact pair
    exact_cases = [("empty-store", dict(outer=False), False)] + [(c, k, None) for c, k in _shape_cases(with_queue_empty=(True, False))]
    for cname, kw, outer_rest in exact_cases:
        st = _nonnull(initial_state(A0, A1, **kw), A0, A1)
        if outer_rest is not None:
            st.outer_rest = outer_rest
        for o in _run(ctx, R, rule, cls, "find", st, args):
            n += 1
            sub = "%s|exact|%s" % (f.qualname, cname)
            if o.kind != "return":
                R.fail(rule, sub + "|raises", "find() raises for an exact pair and a store of shape `%s`" % cname, f.loc())
                continue
            want = ("T", A0, A1) if cname.endswith("-nonempty") else NONE
            R.check(o.val == want and not o.st.effects, rule, sub, "exact look-up: the pair iff its queue has a pending packet",
                    "for a store of shape `%s` find(arg0, arg1) returns %s (effects %s), expected %s" % (cname, o.val, o.st.effects, want), f.loc())
    # wildcards
    for a0_given, a1_given, tag in ((False, False, "any-any"), (True, False, "remote-any"), (False, True, "any-local")):
        shapes = [("store", dict())]
        if a1_given:
            shapes = [("local-known", dict(outer=True, rest=None)), ("local-unknown", dict(outer=False))]
        for sname, kw in shapes:
            st = initial_state(A0, A1, **kw)
            st.flags[("is-none", A0)] = not a0_given
            st.flags[("is-none", A1)] = not a1_given
            outs = _run(ctx, R, rule, cls, "find", st, args)
            hits = 0
            for o in outs:
                n += 1
                sub = "%s|%s|%s" % (f.qualname, tag, sname)
                if o.kind != "return":
                    # an empty store may be asked; KeyError etc. are violations
                    R.fail(rule, sub + "|raises", "find() raises in a wildcard look-up (%s)" % _fmt_flags(o.st), f.loc())
                    continue
                if o.st.effects:
                    R.fail(rule, sub + "|effects", "find() modifies the store: %s" % o.st.effects, f.loc())
                if o.val == NONE:
                    # completeness: every search that was finished without a hit used only the spec's conditions
                    for kind, rep, conds in o.st.forall:
                        if kind == "exists":
                            R.fail(rule, sub + "|incomplete", "a wildcard look-up stops early without a result", f.loc())
                        else:
                            okc = bool(conds) and all(_allowed_exit(c, a0_given, a1_given) for c in conds)
                            R.check(okc, rule, sub + "|complete", "every entry with a pending packet is a candidate (the search skips only empty queues / other remote ids)",
                                    "the wildcard search can skip an entry that has a pending packet: its conditions are %s" % [[("%s%s" % ("" if v else "not ", _atom(a))) for a, v in c] for c in conds], f.loc())
                    if not o.st.forall and sname not in ("local-unknown",):
                        # returned None without searching: only for an empty store
                        emp = o.st.flags.get(("outer-rest",)) is False or any(a[0] == "outer-has" and v is False for a, v in o.st.flags.items()) or \
                            any(a[0] == "inner-has" and v is False for a, v in o.st.flags.items()) or \
                            (not a0_given and any(a[0] == "inner-rest" and v is False for a, v in o.st.flags.items()))      # the row asked about is empty
                        R.check(emp, rule, sub + "|none-without-search", "None without a search only for an empty store / unknown key", "find() returns None without searching (%s)" % _fmt_flags(o.st), f.loc())
                    continue
                hits += 1
                okp, why = _pair_ok(o.st, o.val, a0_given, a1_given)
                R.check(okp, rule, sub + "|hit", "a pair returned has a pending packet and matches the pattern",
                        "wildcard look-up (%s): %s" % (tag, why), f.loc())
            if sname != "local-unknown":
                R.check(hits >= 1, rule, "%s|%s|%s|finds" % (f.qualname, tag, sname), "the look-up can find a pair", "the wildcard look-up (%s) never returns a pair" % tag, f.loc())
    R.rule_counts["%s-cases" % rule] = n


def contains_spec(ctx, R, cls, rule):
    f = cls.methods.get("__contains__")
    if f is None:
        return
    st = State()
    try:
        outs = _interp(ctx, cls, opaque=("find",)).run("__contains__", st, {f.params[1]: P("value")})
    except AbsError as e:
        raise AnalysisError(rule, "__contains__: %s" % e)
    for o in outs:
        want_args = (("PROJ", P("value"), 0), ("PROJ", P("value"), 1))
        t = o.st.flags.get(("findres-truthy", want_args))
        ok = o.kind == "return" and t is not None and o.val == ("B", t)
        R.check(ok, rule, f.qualname, "(arg0, arg1) in store == find(arg0, arg1) found a pair", "__contains__ returns %s under %s" % (o.val, _fmt_flags(o.st)), f.loc())


def zeros_spec(ctx, R, cls, rule):
    """find_allow_zeros: the exact pair first, then (arg0, 0), (0, arg1), (0, 0); the first pair found is returned."""
    f = cls.methods.get("find_allow_zeros")
    if f is None:
        raise AnalysisError(rule, "_AdbPacketStore.find_allow_zeros not found")
    Z = ("C", 0)
    order = [(A0, A1), (A0, Z), (Z, A1), (Z, Z)]
    st = State()
    try:
        outs = _interp(ctx, cls, opaque=("find",)).run("find_allow_zeros", st, {"arg0": A0, "arg1": A1})
    except AbsError as e:
        raise AnalysisError(rule, "find_allow_zeros: %s" % e)
    seen = set()
    for o in outs:
        if o.kind != "return":
            R.fail(rule, f.qualname + "|raises", "find_allow_zeros() raises", f.loc())
            continue
        decided = [(a[1], v) for a, v in o.st.flags.items() if a[0] == "findres-truthy"]
        tried = [a for a, _v in decided]
        ok = tried == order[:len(tried)] and all(v is False for _a, v in decided[:-1])
        if decided and decided[-1][1] is True:
            ok = ok and o.val == ("FINDRES", decided[-1][0])
            seen.add(len(decided))
        elif len(tried) == 3 and o.val == ("FINDRES", order[3]):
            # `a or b or c or d`: the last look-up's result is returned as it is (a pair, or None)
            seen.update({0, 4})
        else:
            # nothing found: None, or the (None) result of the last look-up
            ok = ok and len(tried) == 4 and (o.val == NONE or o.val == ("FINDRES", order[-1]))
            seen.add(0)
        R.check(ok, rule, "%s|%s" % (f.qualname, "found-at-%d" % len(decided) if decided and decided[-1][1] else "none"),
                "look-ups in the order exact, (arg0, 0), (0, arg1), (0, 0); first pair found wins",
                "find_allow_zeros tries %s and returns %s" % (tried, o.val), f.loc())
    R.check(seen == {0, 1, 2, 3, 4}, rule, f.qualname + "|all-fallbacks", "all four look-ups can decide the result", "find_allow_zeros does not perform all four look-ups (%s)" % sorted(seen), f.loc())


def len_spec(ctx, R, cls, rule):
    """len(store): every (local id, remote id) entry contributes 1 iff its queue has a pending packet."""
    f = cls.methods.get("__len__")
    if f is None:
        raise AnalysisError(rule, "_AdbPacketStore.__len__ not found")
    try:
        outs = _interp(ctx, cls).run("__len__", State(), {})
    except AbsError as e:
        raise AnalysisError(rule, "__len__: %s" % e)
    leaves = []

    def walk(v, base, conds, reps):
        if v == base:
            leaves.append((conds, reps, 0))
            return
        if v[0] == "SUM" and v[1] == base:
            x = v[2]
            inc = 1 if x in (("B", True), ("C", 1), ("C", True)) else 0 if x in (("B", False), ("C", 0), ("C", False)) else None
            leaves.append((conds, reps, inc))
            return
        if v[0] == "SUM" and v[2] in (("B", True), ("C", 1), ("B", False), ("C", 0)):
            # SUM(SUM(base..)) should not happen per element
            leaves.append((conds, reps, None))
            return
        if v[0] == "AGG":
            _, rep, b0, alts = v
            for delta, nv in alts:
                walk(nv, b0, conds + list(delta), reps + [rep])
            if b0 != base and not (b0 == ("C", 0) and base is None):
                leaves.append((conds, reps, None))
            return
        leaves.append((conds, reps, None))
    ok = len(outs) == 1 and outs[0].kind == "return" and not outs[0].st.effects
    if ok:
        v = outs[0].val
        base = ("C", 0)
        if v[0] == "AGG":
            walk(v, v[2], [], [])
            ok = v[2] == ("C", 0)
        else:
            ok = False
    if ok:
        for conds, reps, inc in leaves:
            srcs = [r[0][0] for r in reps]
            ne = [vv for a, vv in conds if a[0] == "queue-empty"]
            extra = [a for a, vv in conds if a[0] not in ("queue-empty", "inner-rest", "outer-rest", "outer-has", "inner-has")]
            if srcs != ["D", "I"] or len(ne) != 1 or extra or inc is None or inc != (0 if ne[0] else 1):
                ok = False
        ok = ok and {inc for _c, _r, inc in leaves} == {0, 1}
    R.check(ok, rule, f.qualname, "len() counts the pairs whose queue is non-empty, over the whole store", "len() does not count exactly the non-empty queues of all pairs (%s)" % (leaves[:4],), f.loc())
