"""Shared analysis context: one parse of /repo per process, lazily computed per-function dataflow."""
import ast
import os

from .loader import Pkg, AnalysisError, walk_own, walk_expr
from .fold import Folder, Unfoldable
from .callgraph import CallGraph
from .cfg import cfg_of, clear_cache
from .dataflow import DataFlow, compute_modsets, key, varkey, unawait, strip_await


def repo_root():
    return os.environ.get("SA_REPO_ROOT", "/repo")


class Ctx(object):
    def __init__(self, root=None, tier="quick"):
        clear_cache()
        self.root = root or repo_root()
        self.tier = tier
        self.pkg = Pkg(self.root)
        self.fold = Folder(self.pkg)
        self.cg = CallGraph(self.pkg)
        self.modsets = compute_modsets(self.pkg, self.cg)
        self._df = {}
        self._closed_world()

    def _closed_world(self):
        """No reflection on analysed classes (otherwise name-based who-may-call/write reasoning is unsound)."""
        bad = []
        for f in self.pkg.funcs.values():
            for n in walk_own(f.node):
                if isinstance(n, ast.Call) and isinstance(n.func, ast.Name) and n.func.id in ("getattr", "setattr", "delattr", "eval", "exec", "globals", "vars", "__import__"):
                    bad.append("%s uses %s()" % (f.qualname, n.func.id))
                if isinstance(n, ast.Attribute) and n.attr == "__dict__":
                    bad.append("%s touches __dict__" % f.qualname)
        self.reflection = bad

    def df(self, func):
        d = self._df.get(func)
        if d is None:
            d = DataFlow(func, self.cg, self.modsets)
            self._df[func] = d
        return d

    def cfg(self, func):
        return cfg_of(func)

    def need_no_reflection(self, rule):
        if self.reflection:
            raise AnalysisError(rule, "closed-world precondition fails: " + "; ".join(self.reflection))


def terms(ctx):
    from .terms import Terms
    t = getattr(ctx, "_terms", None)
    if t is None:
        t = Terms(ctx)
        ctx._terms = t
    return t
