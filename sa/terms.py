"""E5 - term normaliser (value numbering by normal form; nothing is executed).

term(expr at node) follows unique reaching definitions, inlines small package functions and constructors, resolves
`self.attr` through `__init__` when the attribute has a single writer, folds constants, and rewrites into a
canonical form so that algebraically equal header/packet expressions compare equal.

Term grammar (nested tuples):
  ('c', value)                      constant
  ('p', name)                       symbolic input (parameter of the analysed function / opaque variable)
  ('attr', t, name)                 attribute of an opaque object
  ('new', clsqual, ((param, t)..))  object constructed by a package class
  ('call', name, (t..), ((kw,t)..)) opaque call (library function or unresolved)
  ('op', sym, a, b) / ('un', sym, a)
  ('sub', base, idx) / ('slice', base, lo, hi, step)
  ('tuple', t..) / ('list', t..)
  ('phi', frozenset{t..})           merge of several reaching definitions
  ('ite', condkey, a, b)            conditional expression
  ('MOD32', t) ('NOT32', t) ('BYTESUM', t) ('ORDSUM', t) ('LEN', t) ('CONCAT', t..) ('WIRE', t) ('SYNCWIRE', t)
  ('loop', var)                     value carried around a loop (not expanded)
"""
import ast
import os

from .dataflow import key, varkey, unawait, strip_await
from .fold import Unfoldable, _FrozenDict
from .loader import walk_own

M32 = 0xFFFFFFFF

_OPS = {ast.Add: "+", ast.Sub: "-", ast.Mult: "*", ast.FloorDiv: "//", ast.Mod: "%", ast.Pow: "**", ast.LShift: "<<",
        ast.RShift: ">>", ast.BitOr: "|", ast.BitAnd: "&", ast.BitXor: "^", ast.Div: "/", ast.MatMult: "@"}
_COMM = {"*", "|", "&", "^"}      # "+" is not sorted: it may be a (non-commutative) concatenation


def C(v):
    return ("c", v)


def is_c(t, v=None):
    return t[0] == "c" and (v is None or (t[1] == v and type(t[1]) is type(v)))


class Terms(object):
    def __init__(self, ctx, max_depth=4):
        self.ctx = ctx
        self.max_depth = max_depth
        self._wire = None
        self._syncwire = None
        self._guard = set()

    # -- tables -------------------------------------------------------------------
    def _tables(self):
        if self._wire is None:
            try:
                self._wire = self.ctx.fold.const("constants", "ID_TO_WIRE")
            except Unfoldable:
                self._wire = False
            try:
                self._syncwire = self.ctx.fold.const("constants", "FILESYNC_ID_TO_WIRE")
            except Unfoldable:
                self._syncwire = False

    # -- entry point ---------------------------------------------------------------
    def term(self, func, node, expr, env=None, depth=0):
        """Term of `expr` evaluated at CFG node `node` of `func`.  env: name -> term (bindings of inlined parameters)."""
        env = env or {}
        e = unawait(expr)
        ctx = self.ctx
        mod = func.mod
        # constant folding first
        if not isinstance(e, (ast.Name, ast.Call)) or isinstance(e, ast.Constant):
            ok, v = ctx.fold.try_eval(e, mod, {})
            if ok and not self._mentions_local(func, e, env):
                return C(v)
        if isinstance(e, ast.Constant):
            return C(e.value)
        if isinstance(e, ast.Name):
            return self._name(func, node, e.id, env, depth)
        if isinstance(e, ast.Attribute):
            # package constant through a module alias
            ok, v = ctx.fold.try_eval(e, mod, {})
            if ok and not self._mentions_local(func, e, env):
                return C(v)
            # attribute variable with a reaching definition inside this function (x.a = ...)
            k = varkey(e)
            if k and node is not None:
                df = ctx.df(func)
                ds = df.reaching(node, k)
                strong = [d for d in ds if d.kind in ("assign", "aug")]
                if ds and len(strong) == len(ds):
                    return self._from_defs(func, node, k, ds, env, depth)
                weak = sorted(set(d.node.id for d in ds if d.kind == "callmut"))
                if weak and os.environ.get("SA_NO_VERSIONS") != "1":
                    # the attribute may have been modified by a call since function entry: a read here is not the same
                    # value as a read before that call (snapshot vs. current value)
                    base = self.term(func, node, e.value, env, depth)
                    return ("ver", self.attr(base, e.attr, depth), tuple(weak))
            base = self.term(func, node, e.value, env, depth)
            if isinstance(e.value, ast.Name) and depth <= self.max_depth:
                # a property of an object whose class is known (a parameter / local that is only ever an instance of one package class)
                tys = ctx.cg.var_types.get(func, {}).get(e.value.id, ())
                if len(tys) == 1:
                    cls = ctx.pkg.classes.get(next(iter(tys)))
                    m = ctx.pkg.find_method(cls, e.attr) if cls is not None else None
                    if m is not None and m.is_property and len(m.params) == 1:
                        return self.inline_return(m, {m.params[0]: base}, depth + 1)
            return self.attr(base, e.attr, depth)
        if isinstance(e, ast.BinOp):
            a = self.term(func, node, e.left, env, depth)
            b = self.term(func, node, e.right, env, depth)
            return self.binop(_OPS.get(type(e.op), "?"), a, b)
        if isinstance(e, ast.UnaryOp):
            a = self.term(func, node, e.operand, env, depth)
            if isinstance(e.op, ast.Invert):
                return ("un", "~", a)
            if isinstance(e.op, ast.USub):
                return C(-a[1]) if a[0] == "c" and isinstance(a[1], (int, float)) else ("un", "-", a)
            if isinstance(e.op, ast.Not):
                return ("un", "not", a)
            return a
        if isinstance(e, ast.BoolOp):
            parts = [self.term(func, node, v, env, depth) for v in e.values]
            return ("bool", "and" if isinstance(e.op, ast.And) else "or") + tuple(parts)
        if isinstance(e, ast.IfExp):
            a = self.term(func, node, e.body, env, depth)
            b = self.term(func, node, e.orelse, env, depth)
            if a == b:
                return a
            return self.mk_ite(self.cond_key(func, node, e.test, env, depth), a, b)
        if isinstance(e, ast.Tuple):
            return ("tuple",) + tuple(self.term(func, node, x, env, depth) for x in e.elts)
        if isinstance(e, ast.List):
            return ("list",) + tuple(self.term(func, node, x, env, depth) for x in e.elts)
        if isinstance(e, ast.Subscript):
            base = self.term(func, node, e.value, env, depth)
            if isinstance(e.slice, ast.Slice):
                lo = self.term(func, node, e.slice.lower, env, depth) if e.slice.lower is not None else C(None)
                hi = self.term(func, node, e.slice.upper, env, depth) if e.slice.upper is not None else C(None)
                st = self.term(func, node, e.slice.step, env, depth) if e.slice.step is not None else C(None)
                return self.mkslice(base, lo, hi, st)
            idx = self.term(func, node, e.slice, env, depth)
            return self.subscript(base, idx)
        if isinstance(e, ast.Compare):
            parts = [self.term(func, node, e.left, env, depth)]
            for op, c in zip(e.ops, e.comparators):
                parts.append(("c", type(op).__name__))
                parts.append(self.term(func, node, c, env, depth))
            return ("cmp",) + tuple(parts)
        if isinstance(e, ast.Call):
            return self._call(func, node, e, env, depth)
        if isinstance(e, (ast.GeneratorExp, ast.ListComp)):
            # identity comprehension [x for x in G] == G
            if (len(e.generators) == 1 and not e.generators[0].ifs and isinstance(e.elt, ast.Name)
                    and isinstance(e.generators[0].target, ast.Name) and e.elt.id == e.generators[0].target.id):
                return self.term(func, node, e.generators[0].iter, env, depth)
            if len(e.generators) == 1 and isinstance(e.generators[0].target, ast.Name):
                it = self.term(func, node, e.generators[0].iter, env, depth)
                var = e.generators[0].target.id
                env2 = dict(env)
                env2[var] = ("p", "\0elt")
                elt = self.term(func, None, e.elt, env2, depth)
                conds = tuple(key(c) for c in e.generators[0].ifs)
                return ("map", elt, it, conds)
            return ("opaque", key(e))
        if isinstance(e, ast.JoinedStr):
            parts = []
            for v in e.values:
                if isinstance(v, ast.Constant) and isinstance(v.value, str):
                    parts.append(C(v.value))
                elif isinstance(v, ast.FormattedValue) and v.conversion == -1 and v.format_spec is None:
                    parts.append(("STR", self.term(func, node, v.value, env, depth)))
                else:
                    return ("opaque", key(e))
            return self.concat(parts) if parts else C("")
        return ("opaque", key(e))

    def under_path(self, func, node, t):
        """`t` with every conditional `ite(cond(X), a, b)` whose condition X was decided by a test on every path to `node` (same term: same
        expression over the same definitions) replaced by the arm taken."""
        if node is None or not isinstance(t, tuple) or "ite" not in repr(t):
            return t
        key = (func.qualname, node.id)
        cache = self.__dict__.setdefault("_path_cache", {}) if hasattr(self, "__dict__") else {}
        known = cache.get(key)
        if known is None:
            g = self.ctx.cfg(func)
            known = {}
            for tn in g.live_nodes():
                if tn.kind != "test" or tn is node:
                    continue
                labs = set(l for _d, l in g.succ[tn] if l in ("true", "false"))
                for lab in sorted(labs):
                    r = g.reach([g.entry], exc=True, include_start=True, edge_filter=lambda s_, d_, l_, tn=tn, lab=lab: not (s_ is tn and l_ == lab))
                    if node not in r:
                        te = unawait(tn.ast.test)
                        val = lab == "true"
                        while isinstance(te, ast.UnaryOp) and isinstance(te.op, ast.Not):
                            te, val = te.operand, not val
                        try:
                            known[self.cond_key(func, tn, te, {}, 0)] = val
                        except RecursionError:
                            pass
            cache[key] = known
        if not known:
            return t

        def simp(x, depth=0):
            if not isinstance(x, tuple) or depth > 60:
                return x
            if len(x) == 4 and x[0] == "ite" and x[1] in known:
                return simp(x[2] if known[x[1]] else x[3], depth + 1)
            return tuple(simp(y, depth + 1) if isinstance(y, tuple) else y for y in x)
        return simp(t)

    @staticmethod
    def mk_ite(cond, a, b):
        """`x if x else y` is `x or y`, `y if x else x` is `x and y` (x call-free or not: the term stands for the value)"""
        if cond[0] == "cond" and cond[1] == a and a != b:
            return ("bool", "or", a, b)
        if cond[0] == "cond" and cond[1] == b and a != b:
            return ("bool", "and", b, a)
        return ("ite", cond, a, b)

    def cond_key(self, func, node, test, env, depth):
        return ("cond", self.term(func, node, test, env, depth))

    def _mentions_local(self, func, e, env):
        for n in ast.walk(e):
            if isinstance(n, ast.Name) and (n.id in env or n.id in func.params or n.id in self.ctx.df(func).locals):
                return True
        return False

    # -- names --------------------------------------------------------------------------------
    def _name(self, func, node, name, env, depth):
        ctx = self.ctx
        df = ctx.df(func)
        if node is None:
            if name in env:
                return env[name]
            ok, v = ctx.fold.try_eval(ast.Name(id=name, ctx=ast.Load()), func.mod, {})
            return C(v) if ok else ("p", name)
        ds = df.reaching(node, name)
        if not ds:
            if name in env:
                return env[name]
            ok, v = ctx.fold.try_eval(ast.Name(id=name, ctx=ast.Load()), func.mod, {})
            return C(v) if ok else ("p", name)
        t = self._not_none_arm(func, node, name, self._from_defs(func, node, name, ds, env, depth))
        if isinstance(t, tuple) and t and t[0] == "ite" and not env:
            # a decision that a None-or-value flag has already revealed (`size = None if c else n` ; `if size is None:` -> c holds in that arm)
            known = self._revealed_conditions(func, node, depth)
            for _i in range(3):
                if isinstance(t, tuple) and t and t[0] == "ite" and t[1] in known:
                    t = t[2] if known[t[1]] else t[3]
                else:
                    break
        return t

    def _revealed_conditions(self, func, node, depth):
        """{cond term: truth value} implied by must-facts of the form `v is None` / `v is not None` at node, for variables v that are None in exactly
        one arm of a decision and something that is never None in the other."""
        cache = self.__dict__.setdefault("_revealed_cache", {})
        k = (func, node)
        if k in cache:
            return cache[k]
        cache[k] = {}               # (re-entrancy: nothing is revealed while we are computing)
        out = {}
        if depth <= self.max_depth:
            from .dataflow import key as _key
            from .rules.c06 import eval_dump
            nk = _key(ast.Constant(value=None))
            df = self.ctx.df(func)
            for fa in df.facts(node):
                if fa[0][0] == "is" and len(fa[0]) == 3 and nk in fa[0][1:]:
                    other = [x for x in fa[0][1:] if x != nk]
                    if len(other) != 1:
                        continue
                    try:
                        e = eval_dump(other[0])
                    except Exception:   # noqa
                        continue
                    if not isinstance(e, ast.Name):
                        continue
                    ds = df.reaching(node, e.id)
                    if not ds:
                        continue
                    t = self._from_defs(func, node, e.id, ds, {}, depth + 1)
                    if not (isinstance(t, tuple) and t and t[0] == "ite"):
                        continue
                    is_none = fa[1]
                    if t[2] == C(None) and t[3] != C(None):
                        if not is_none:
                            out[t[1]] = False                   # not None: the None arm was not taken
                        elif never_none(t[3]):
                            out[t[1]] = True
                    elif t[3] == C(None) and t[2] != C(None):
                        if not is_none:
                            out[t[1]] = True
                        elif never_none(t[2]):
                            out[t[1]] = False
        cache[k] = out
        return out

    def _not_none_arm(self, func, node, name, t):
        """`v = None if c else X` (either spelling) read where the must-facts say `v is not None` (or v is truthy): the value is X - the None arm
        cannot have been taken."""
        if not (isinstance(t, tuple) and t and t[0] == "ite" and (t[2] == C(None) or t[3] == C(None)) and t[2] != t[3]):
            return t
        from .dataflow import key as _key
        nk, vk = _key(ast.Constant(value=None)), _key(ast.Name(id=name, ctx=ast.Load()))
        for fa in self.ctx.df(func).facts(node):
            if (fa[0] == ("is",) + tuple(sorted([vk, nk])) and fa[1] is False) or (fa[0] == ("truthy", vk) and fa[1] is True):
                return t[3] if t[2] == C(None) else t[2]
        return t

    def _from_defs(self, func, node, name, ds, env, depth):
        alts = set()
        for d in sorted(ds, key=lambda d: (d.node.id, d.kind)):
            alts.add(self._def_term(func, d, name, env, depth, node))
        if len(alts) == 1:
            return next(iter(alts))
        if len(ds) == 2 and node is not None:
            gt = self._guarded(func, node, name, list(ds), env, depth)
            if gt is not None:
                return gt
        return ("phi", frozenset(alts))

    def _guarded(self, func, node, name, ds, env, depth):
        """Two definitions merging at `node` that are separated by one `if`: the value is a conditional term
        (`if c: x = a` after `x = b`, or `if c: x = a else: x = b`) instead of an unordered phi."""
        g = self.ctx.cfg(func)
        if depth > self.max_depth + 4:
            return None          # (a test that reads the variable being resolved, around a loop)
        for a, b in ((ds[0], ds[1]), (ds[1], ds[0])):
            if a.node is g.entry:
                continue
            for tn in g.nodes:
                if tn.kind != "test" or not isinstance(tn.ast, ast.If) or tn.loops != node.loops or not g.dominates([tn], node) or not g.dominates([tn], a.node):
                    continue
                for lab, other in (("true", "false"), ("false", "true")):
                    arm = g.reach_from_edge(tn, lab, exc=False)
                    rest = g.reach_from_edge(tn, other, exc=False)
                    if a.node not in arm or a.node in rest:
                        continue
                    starts = [d for d, l in g.succ[tn] if l == lab]
                    if node in g.reach(starts, avoid=[a.node], exc=False, include_start=True):
                        continue          # the arm can reach the use without passing a
                    if b.node is g.entry or (b.node is not tn and g.dominates([b.node], tn) and b.node not in g.reach([tn], exc=False)):
                        pass              # b is the value before the `if`
                    elif b.node in rest and b.node not in arm:
                        ostarts = [d for d, l in g.succ[tn] if l == other]
                        if node in g.reach(ostarts, avoid=[b.node], exc=False, include_start=True):
                            continue
                    else:
                        continue
                    ta = self._def_term(func, a, name, env, depth, node)
                    tb = self._def_term(func, b, name, env, depth, node)
                    if ta == tb:
                        return ta
                    cond = self.cond_key(func, tn, tn.ast.test, env, depth + 1)
                    return self.mk_ite(cond, ta, tb) if lab == "true" else self.mk_ite(cond, tb, ta)
        return None

    def _decided_arm(self, func, d, use_node):
        """`x = a if c else b` read at use_node: when the must-facts there decide c (and nothing c reads was redefined since
        the assignment) the value is the corresponding arm."""
        v = unawait(d.value)
        if not isinstance(v, ast.IfExp) or use_node is None or d.path:
            return None
        df = self.ctx.df(func)
        from .dataflow import vars_in
        for k in vars_in(v.test):
            if df.reaching(use_node, k) != df.reaching_out(d.node, k) and df.reaching(use_node, k) != df.reaching(d.node, k):
                return None
        if df.holds(use_node, v.test, True):
            return v.body
        if df.holds(use_node, v.test, False):
            return v.orelse
        return None

    def _def_term(self, func, d, name, env, depth, use_node=None):
        ctx = self.ctx
        if d.kind == "param":
            if name in env:
                return env[name]
            return ("p", name)
        if d.kind == "global":
            ok, v = ctx.fold.try_eval(ast.Name(id=name, ctx=ast.Load()), func.mod, {})
            if ok:
                return C(v)
            vals = func.mod.assigns.get(name) or []
            if len(vals) == 1 and depth <= self.max_depth and isinstance(vals[0], (ast.Call, ast.Attribute)) and not any(isinstance(x, (ast.Await, ast.Yield, ast.Lambda)) for x in ast.walk(vals[0])):
                # a module-level object built once (`_PKCS1V15 = padding.PKCS1v15()`): what a read of the name denotes is what was built
                t = self.term(func, None, vals[0], {}, depth + 1)
                if t[0] != "opaque":
                    return t
            return ("g", func.mod.name, name)
        if d.kind == "entry":
            # attribute of a parameter at function entry
            root, rest = name.split(".", 1)
            base = env.get(root, ("p", root))
            t = base
            for a in rest.split("."):
                t = self.attr(t, a, depth)
            return t
        g = (id(func), d.node.id, name, d.kind, d.path)
        if g in self._guard:
            return ("loop", name)
        self._guard.add(g)
        try:
            if d.kind == "assign":
                arm = self._decided_arm(func, d, use_node)
                t = self.term(func, d.node, arm if arm is not None else d.value, env, depth)
                for i in d.path:
                    t = self.project(t, i)
                return t
            if d.kind == "aug":
                df = ctx.df(func)
                prev_defs = df.reaching(d.node, name)
                prev = self._from_defs(func, d.node, name, prev_defs, env, depth) if prev_defs else ("p", name)
                val = self.term(func, d.node, d.value, env, depth)
                return self.binop(_OPS.get(type(d.extra), "?"), prev, val)
            if d.kind == "for":
                it = self.term(func, d.node, d.value, env, depth)
                t = ("item", it)
                for i in d.path:
                    t = self.project(t, i)
                return t
            if d.kind == "with":
                return ("ctxval", self.term(func, d.node, d.value, env, depth))
            return ("opaque-def", d.kind, name)
        finally:
            self._guard.discard(g)

    # -- algebra -----------------------------------------------------------------------------------
    def project(self, t, i):
        if t[0] in ("tuple", "list") and isinstance(i, int) and i + 1 < len(t):
            return t[1 + i]
        if t[0] == "c" and isinstance(t[1], tuple) and isinstance(i, int) and i < len(t[1]):
            return C(t[1][i])
        if t[0] == "phi":
            return self.phi(self.project(a, i) for a in t[1])
        if t[0] == "ite":
            a, b = self.project(t[2], i), self.project(t[3], i)
            return a if a == b else ("ite", t[1], a, b)
        if t[0] == "slice" and isinstance(i, int) and i >= 0:
            r = self.subscript(t, C(i))
            if r[0] != "sub":
                return r
        return ("proj", t, i)

    def phi(self, alts):
        s = set()
        for a in alts:
            if a[0] == "phi":
                s |= set(a[1])
            else:
                s.add(a)
        if len(s) == 1:
            return next(iter(s))
        return ("phi", frozenset(s))

    @staticmethod
    def mkslice(base, lo, hi, st):
        """x[a:][:h] == x[a:h] for a >= 0 and h negative or absent (both select the intersection of the two ranges)."""
        none = ("c", None)
        if all(x[0] == "c" and (x[1] is None or (isinstance(x[1], int) and not isinstance(x[1], bool))) for x in (lo, hi, st)):
            # a literal sequence cut at literal bounds
            if base[0] in ("list", "tuple"):
                return (base[0],) + tuple(base[1:][slice(lo[1], hi[1], st[1])])
            if base[0] == "c" and isinstance(base[1], (bytes, str, tuple, list)):
                return ("c", base[1][slice(lo[1], hi[1], st[1])])
            if base[0] == "call" and base[1] == "struct.unpack" and len(base[2]) == 2 and base[2][0][0] == "c" and isinstance(base[2][0][1], (bytes, str)):
                # the number of fields of a literal format is known: the slice is those fields
                import struct as _struct
                try:
                    nf = len(_struct.unpack(base[2][0][1], bytes(_struct.calcsize(base[2][0][1]))))
                except Exception:   # noqa
                    nf = None
                if nf is not None:
                    return ("tuple",) + tuple(("proj", base, i) for i in range(nf)[slice(lo[1], hi[1], st[1])])
        if (base[0] == "slice" and base[3] == none and base[4] == none and st == none and lo == none
                and base[2][0] == "c" and isinstance(base[2][1], int) and base[2][1] >= 0
                and (hi == none or (hi[0] == "c" and isinstance(hi[1], int) and not isinstance(hi[1], bool) and hi[1] < 0))):
            return ("slice", base[1], base[2], hi, none)
        return ("slice", base, lo, hi, st)

    def subscript(self, base, idx):
        self._tables()
        # x[a:][-k] is x[-k] (for a >= 0, whenever the former exists: the last elements of a suffix are the last elements)
        if (base[0] == "slice" and base[3] == ("c", None) and base[4] == ("c", None) and base[2][0] == "c" and isinstance(base[2][1], int) and base[2][1] >= 0
                and idx[0] == "c" and isinstance(idx[1], int) and not isinstance(idx[1], bool) and idx[1] < 0):
            base = base[1]
        # x[a:][i] is x[a+i], x[a:b][i] is x[a+i] when a+i < b (a, b, i >= 0: whenever the former exists, it is that element)
        if (base[0] == "slice" and base[4] == ("c", None) and base[2][0] == "c" and (base[2][1] is None or (isinstance(base[2][1], int) and not isinstance(base[2][1], bool) and base[2][1] >= 0))
                and idx[0] == "c" and isinstance(idx[1], int) and not isinstance(idx[1], bool) and idx[1] >= 0
                and base[3][0] == "c" and (base[3][1] is None or (isinstance(base[3][1], int) and not isinstance(base[3][1], bool) and (base[2][1] or 0) + idx[1] < base[3][1]))):
            return self.subscript(base[1], C((base[2][1] or 0) + idx[1]))
        if base[0] == "c" and isinstance(base[1], dict):
            if self._wire and base[1] == self._wire:
                if idx[0] == "c":
                    return C(base[1][idx[1]]) if idx[1] in base[1] else ("sub", base, idx)
                return ("WIRE", idx)
            if self._syncwire and base[1] == self._syncwire:
                if idx[0] == "c":
                    return C(base[1][idx[1]]) if idx[1] in base[1] else ("sub", base, idx)
                return ("SYNCWIRE", idx)
        if base[0] == "c" and idx[0] == "c":
            try:
                return C(base[1][idx[1]])
            except Exception:   # noqa
                pass
        if base[0] in ("tuple", "list") and idx[0] == "c" and isinstance(idx[1], int) and -len(base) + 1 <= idx[1] < len(base) - 1:
            return base[1:][idx[1]]
        if idx[0] == "c" and isinstance(idx[1], int) and not isinstance(idx[1], bool) and idx[1] >= 0:
            return ("proj", base, idx[1])        # x[0] and tuple-unpacking position 0 are the same value
        return ("sub", base, idx)

    def binop(self, op, a, b):
        if a[0] == "c" and b[0] == "c" and op != "?":
            try:
                v = {"+": lambda x, y: x + y, "-": lambda x, y: x - y, "*": lambda x, y: x * y, "//": lambda x, y: x // y,
                     "%": lambda x, y: x % y, "**": lambda x, y: x ** y if not (isinstance(y, int) and y > 4096) else None, "<<": lambda x, y: x << y if y < 4096 else None,
                     ">>": lambda x, y: x >> y, "|": lambda x, y: x | y, "&": lambda x, y: x & y, "^": lambda x, y: x ^ y,
                     "/": lambda x, y: x / y}[op](a[1], b[1])
                if v is not None and not (op == "%" and isinstance(a[1], (bytes, str))):
                    return C(v)
            except Exception:   # noqa
                pass
        # 32-bit idioms
        if op == "&":
            for x, y in ((a, b), (b, a)):
                if is_c(y, M32):
                    if x[0] == "un" and x[1] == "~":
                        return ("NOT32", x[2])
                    return self.mod32(x)
        if op == "%" and b[0] == "c" and b[1] == 1 << 32:
            return self.mod32(a)
        if op == "^":
            for x, y in ((a, b), (b, a)):
                if is_c(y, M32):
                    return ("NOT32", x)
        if op == "-" and is_c(a, M32):
            return ("NOT32", b)
        # printf-style bytes/str formatting: %s (and, for text, %d / %i of an int(...) value) without flags or widths
        if op == "%" and a[0] == "c" and isinstance(a[1], (bytes, str)):
            args = list(b[1:]) if b[0] == "tuple" else [b]
            is_b = isinstance(a[1], bytes)
            text = a[1].decode("latin-1") if is_b else a[1]
            parts, buf, i, k, okf = [], "", 0, 0, True
            while i < len(text):
                ch = text[i]
                if ch != "%":
                    buf += ch
                    i += 1
                    continue
                spec = text[i + 1] if i + 1 < len(text) else ""
                if spec == "%":
                    buf += "%"
                    i += 2
                    continue
                if k >= len(args) or spec not in ("s", "d", "i") or (is_b and spec != "s"):
                    okf = False
                    break
                arg = args[k]
                if spec in ("d", "i") and not ((arg[0] == "call" and arg[1] == "builtins.int") or (arg[0] == "c" and isinstance(arg[1], int) and not isinstance(arg[1], bool))):
                    okf = False       # %d of a non-int value truncates / raises: not the same text as str()
                    break
                if buf:
                    parts.append(C(buf.encode("latin-1") if is_b else buf))
                    buf = ""
                parts.append(arg if is_b else ("STR", arg))
                k += 1
                i += 2
            if okf and k == len(args):
                if buf:
                    parts.append(C(buf.encode("latin-1") if is_b else buf))
                return self.concat(parts)
            return ("op", "%fmt", a, b)
        if op == "+":
            # concatenation / addition chains are flattened; constants adjacent are merged when both bytes/str
            parts = []
            for x in (a, b):
                if x[0] == "CONCAT":
                    parts.extend(x[1:])
                else:
                    parts.append(x)
            if any(p[0] == "c" and isinstance(p[1], (bytes, str)) for p in parts) or a[0] == "CONCAT" or b[0] == "CONCAT":
                return self.concat(parts)
        if op in ("*", "+", "-") and ((a[0] == "ite" and b[0] == "c") or (b[0] == "ite" and a[0] == "c")):
            # (x if c else y) * k  ==  x * k if c else y * k
            if a[0] == "ite":
                return ("ite", a[1], self.binop(op, a[2], b), self.binop(op, a[3], b))
            return ("ite", b[1], self.binop(op, a, b[2]), self.binop(op, a, b[3]))
        if op in _COMM:
            a, b = sorted([a, b], key=crepr)
        return ("op", op, a, b)

    def mod32(self, x):
        if x[0] == "MOD32":
            return x
        if x[0] == "c" and isinstance(x[1], int):
            return C(x[1] & M32)
        if x[0] == "phi":
            return self.phi(self.mod32(a) for a in x[1])
        if x[0] == "ite":
            a, b = self.mod32(x[2]), self.mod32(x[3])
            return a if a == b else ("ite", x[1], a, b)
        return ("MOD32", x)

    def concat(self, parts):
        out = []
        for p in parts:
            if p[0] == "CONCAT":
                out.extend(p[1:])
            else:
                out.append(p)
        merged = []
        for p in out:
            if merged and p[0] == "c" and merged[-1][0] == "c" and type(p[1]) is type(merged[-1][1]) and isinstance(p[1], (bytes, str)):
                merged[-1] = C(merged[-1][1] + p[1])
            elif p[0] == "c" and isinstance(p[1], (bytes, str)) and len(p[1]) == 0:
                continue
            else:
                merged.append(p)
        if len(merged) == 1:
            return merged[0]
        return ("CONCAT",) + tuple(merged)

    # -- attributes of objects -------------------------------------------------------------------------
    def attr(self, base, name, depth=0):
        ctx = self.ctx
        if base[0] == "phi":
            return self.phi(self.attr(a, name, depth) for a in base[1])
        if base[0] == "new":
            cls = ctx.pkg.classes.get(base[1])
            if cls is not None:
                t = self._attr_via_init(cls, name, dict(base[2]), depth)
                if t is not None:
                    return t
        if base[0] == "p" and isinstance(base[1], str) and base[1].startswith("self:"):
            cls = ctx.pkg.classes.get(base[1][5:])
            if cls is not None:
                t = self._attr_via_init(cls, name, None, depth)
                if t is not None:
                    return t
        return ("attr", base, name)

    def initial_attr(self, obj, name):
        """Value of obj.name right after construction (whatever other methods do to it later)."""
        cls = self.ctx.pkg.classes.get(obj[1]) if obj[0] == "new" else None
        t = self._attr_via_init(cls, name, dict(obj[2]), 0, initial=True) if cls is not None else None
        return t if t is not None else ("attr", obj, name)

    def _attr_via_init(self, cls, name, bindings, depth, initial=False):
        """Value of obj.name for an object of class cls: property -> inlined body; data attribute -> the single
        assignment in __init__ (only if no other method writes it, unless the value at construction is asked for)."""
        ctx = self.ctx
        if depth > self.max_depth:
            return None
        m = ctx.pkg.find_method(cls, name)
        if m is not None and m.is_property:
            selfname = m.params[0]
            selft = ("new", cls.qualname, tuple(sorted(bindings.items()))) if bindings is not None else ("p", "self:" + cls.qualname)
            return self.inline_return(m, {selfname: selft}, depth + 1)
        writers = []
        for c in ctx.pkg.mro(cls):
            for mm in c.methods.values():
                if not mm.params:
                    continue
                sn = mm.params[0]
                g = ctx.cfg(mm)
                for n in g.nodes:
                    for d in ctx.df(mm).node_defs.get(n, []):
                        if d.var == sn + "." + name and d.kind in ("assign", "aug", "mutate", "del", "for", "with", "callmut") and n is not g.entry:
                            writers.append((mm, d))
        if not writers:
            ca = cls.class_assigns.get(name)
            if ca is not None:
                ok, v = ctx.fold.try_eval(ca, cls.mod, {})
                if ok:
                    return C(v)
            return None
        if initial:
            writers = [w for w in writers if w[0].name == "__init__"]
        if len(writers) != 1 or writers[0][0].name != "__init__" or writers[0][1].kind != "assign":
            return None
        init, d = writers[0]
        env = {}
        if bindings is not None:
            env.update(bindings)
            for p in init.params[1:]:
                if p not in env and p in init.defaults:
                    ok, v = ctx.fold.try_eval(init.defaults[p], init.mod, {})
                    env[p] = C(v) if ok else ("p", "%s.%s" % (cls.name, p))
        else:
            for p in init.params[1:]:
                env[p] = ("p", "%s.%s" % (cls.name, p))
        env[init.params[0]] = ("new", cls.qualname, tuple(sorted(bindings.items()))) if bindings is not None else ("p", "self:" + cls.qualname)
        t = self.term(init, d.node, d.value, env, depth + 1)
        for i in d.path:
            t = self.project(t, i)
        return t

    # -- calls -------------------------------------------------------------------------------------------
    def inline_return(self, callee, env, depth):
        """Term returned by callee under parameter bindings env: the returns are combined into conditional terms along the
        tests that separate them (`if c: return a` ; `return b` gives ite(c, a, b)); a phi where no test separates them."""
        ctx = self.ctx
        g = ctx.cfg(callee)
        live = set(g.live_nodes())
        rets = [n for n in g.nodes if n in live and n.kind == "stmt" and isinstance(n.ast, ast.Return)]
        falls = g.exit in g.reach([g.entry], avoid=[n for n in g.nodes if n.kind == "stmt" and isinstance(n.ast, ast.Return)], exc=False, include_start=True)
        if not rets and not falls:
            return ("noreturn",)

        def rterm(n):
            return C(None) if n.ast.value is None else self.term(callee, n, n.ast.value, env, depth)

        def build(group, tests):
            if len(group) == 1:
                return rterm(group[0])
            for k, tn in enumerate(tests):
                tr = g.reach_from_edge(tn, "true", exc=False)
                fa = g.reach_from_edge(tn, "false", exc=False)
                a = [r for r in group if r in tr and r not in fa]
                b = [r for r in group if r in fa and r not in tr]
                if a and b and len(a) + len(b) == len(group):
                    ta, tb = build(a, tests[k + 1:]), build(b, tests[k + 1:])
                    if ta == tb:
                        return ta
                    return self.mk_ite(self.cond_key(callee, tn, tn.ast.test, env, depth), ta, tb)
            return self.phi([rterm(r) for r in group])

        tests = [n for n in g.nodes if n in live and n.kind == "test" and isinstance(n.ast, ast.If) and not n.loops]
        if falls:
            return self.phi([rterm(r) for r in rets] + [C(None)])
        return build(rets, tests)

    def _call(self, func, node, e, env, depth):
        ctx = self.ctx
        cs = ctx.cg.site(e)
        f = e.func
        args = [self.term(func, node, a, env, depth) for a in e.args if not isinstance(a, ast.Starred)]
        kws = tuple((k.arg, self.term(func, node, k.value, env, depth)) for k in e.keywords if k.arg is not None)
        name = None
        if isinstance(f, ast.Name):
            name = f.id
        # builtins with meaning
        ext = cs.ext if cs is not None else None
        if cs is None and isinstance(f, (ast.Name, ast.Attribute)):
            ext = ctx.cg.ext_name(func.mod, f, func)        # synthetic call (e.g. unwrapped run_in_executor)
        if ext is None and isinstance(f, ast.Name) and (cs is None or not cs.callees):
            import builtins as _b
            if f.id in env:
                ext = None
            elif hasattr(_b, f.id) and f.id not in func.mod.imports and f.id not in func.mod.assigns:
                ext = "builtins." + f.id
            else:
                r = ctx.pkg.resolve_import(func.mod, f.id)
                if r and r[0] == "pkgattr":
                    ext = "%s.%s" % (r[1].name, r[2])
                elif f.id in func.mod.assigns:
                    ext = "%s.%s" % (func.mod.name, f.id)
        if ext in EXT_SIGS and kws:
            # keyword arguments of well-known library functions in positional order
            sig = EXT_SIGS[ext]
            kw = dict(kws)
            args = list(args)
            while len(args) < len(sig) and sig[len(args)] in kw:
                args.append(kw.pop(sig[len(args)]))
            kws = tuple(sorted(kw.items()))
        if ext == "builtins.pow" and len(args) == 3 and not kws and args[1] == C(2):
            return self.binop("%", self.binop("*", args[0], args[0]) if args[0][0] != "c" else C(args[0][1] ** 2), args[2])
        if ext == "builtins.len" and len(args) == 1:
            a = args[0]
            if a[0] == "c":
                try:
                    return C(len(a[1]))
                except Exception:   # noqa
                    pass
            return ("LEN", a)
        if ext == "builtins.sum" and len(args) == 1:
            a = args[0]
            if a[0] == "map" and a[1] == ("call", "builtins.ord", (("p", "\0elt"),), ()) and not a[3]:
                return ("ORDSUM", a[2])
            while a[0] == "call" and a[1] in ("builtins.bytearray", "builtins.bytes", "builtins.memoryview") and len(a[2]) == 1 and not a[3]:
                a = a[2][0]       # summing a bytes-like copy is summing the bytes
            return ("BYTESUM", a)
        if ext in ("builtins.int", "builtins.bytes", "builtins.bytearray", "builtins.str", "builtins.bool") and len(args) == 1 and not kws:
            return ("call", ext, tuple(args), ())
        if ext in ("builtins.min", "builtins.max") and args:
            return ("call", ext, tuple(sorted(args, key=crepr)), kws)
        # constructor of a package class
        if cs is not None and cs.callees and len(cs.callees) == 1 and cs.callees[0].name == "__init__" and not isinstance(f, ast.Attribute) or \
                (cs is not None and len(cs.callees) == 1 and cs.callees[0].name == "__init__" and isinstance(f, ast.Attribute) and not cs.recv_types):
            init = cs.callees[0]
            b = {}
            for p, a in cs.bind(init).items():
                b[p] = self.term(func, node, a, env, depth)
            for p in init.params[1:]:
                if p not in b and p in init.defaults:
                    ok, v = ctx.fold.try_eval(init.defaults[p], init.mod, {})
                    b[p] = C(v) if ok else ("p", "default:" + p)
            return ("new", init.cls.qualname, tuple(sorted(b.items())))
        # loop.run_in_executor(None, fn, *args)  ==  fn(*args)   (the async files' way of calling blocking helpers)
        if isinstance(f, ast.Attribute) and f.attr == "run_in_executor" and len(e.args) >= 2 and isinstance(e.args[0], ast.Constant) and e.args[0].value is None and not e.keywords:
            syn = ast.Call(func=e.args[1], args=list(e.args[2:]), keywords=[])
            ast.copy_location(syn, e)
            return self._call(func, node, syn, env, depth)
        # method call on a term
        if isinstance(f, ast.Attribute):
            recv = self.term(func, node, f.value, env, depth)
            # str/bytes methods with algebraic meaning
            if f.attr == "format" and recv[0] == "c" and isinstance(recv[1], str) and not kws:
                pieces = recv[1].split("{}")
                if len(pieces) == len(args) + 1 and not any("{" in p or "}" in p for p in pieces):
                    parts = []
                    for i, p in enumerate(pieces):
                        if p:
                            parts.append(C(p))
                        if i < len(args):
                            parts.append(("STR", args[i]))
                    return self.concat(parts)
            if f.attr == "join" and recv[0] == "c" and isinstance(recv[1], (bytes, str)) and len(args) == 1:
                return ("JOIN", recv, args[0])
            if f.attr in ("encode", "decode"):
                return ("call", "." + f.attr, (recv,) + tuple(args), kws)
            # pass-through stream wrapper of the async module: its methods are the wrapped object's methods
            if cs is not None and cs.callees and all(c_.cls is not None and c_.cls.name == "_AsyncBytesIO" for c_ in cs.callees):
                return ("call", "." + f.attr, (recv,) + tuple(args), kws)
            # package method: inline
            if cs is not None and len(cs.callees) == 1 and depth < self.max_depth:
                callee = cs.callees[0]
                if self._inlinable(callee):
                    b = {}
                    for p, a in cs.bind(callee).items():
                        b[p] = self.term(func, node, a, env, depth)
                    if callee.is_method and callee.params and "staticmethod" not in callee.decorators:
                        b[callee.params[0]] = recv
                    self._defaults(callee, b)
                    return self.inline_return(callee, b, depth + 1)
            if kws and ("." + f.attr) in METHOD_SIGS and set(k for k, _v in kws) <= set(METHOD_SIGS["." + f.attr]):
                sig = METHOD_SIGS["." + f.attr]
                kw = dict(kws)
                args = list(args)
                while len(args) < len(sig) and sig[len(args)] in kw:
                    args.append(kw.pop(sig[len(args)]))
                kws = tuple(sorted(kw.items()))
            nm = ext or ("." + f.attr)
            if cs is not None and len(cs.callees) > 1:
                return ("call", "." + f.attr, (recv,) + tuple(args), kws)      # polymorphic receiver: identified by method name
            if cs is not None and cs.callees:
                nm = "|".join(sorted(c.qualname for c in cs.callees))
                return ("call", nm, (recv,) + tuple(args), kws)
            if ext:
                return ("call", ext, tuple(args), kws)
            return ("call", "." + f.attr, (recv,) + tuple(args), kws)
        # plain package function
        if cs is not None and len(cs.callees) == 1 and depth < self.max_depth and self._inlinable(cs.callees[0]):
            callee = cs.callees[0]
            b = {}
            for p, a in cs.bind(callee).items():
                b[p] = self.term(func, node, a, env, depth)
            self._defaults(callee, b)
            return self.inline_return(callee, b, depth + 1)
        if cs is not None and cs.callees:
            return ("call", "|".join(sorted(c.qualname for c in cs.callees)), tuple(args), kws)
        if name is not None and name in env:
            return ("call", ("dyn", env[name]), tuple(args), kws)
        return ("call", ext or name or key(f), tuple(args), kws)

    def _defaults(self, callee, b):
        for p in callee.params:
            if p not in b and p in callee.defaults:
                ok, v = self.ctx.fold.try_eval(callee.defaults[p], callee.mod, {})
                b[p] = C(v) if ok else ("p", "default:" + p)

    def _container_attrs(self, cls):
        """instance attributes that __init__ binds to a container (dict / list / set / queue ...): objects changed in place"""
        cache = self.__dict__.setdefault("_cont_cache", {})
        if cls not in cache:
            out = set()
            init = cls.methods.get("__init__")
            if init is not None and init.params:
                sn = init.params[0]
                for x in walk_own(init.node):
                    if isinstance(x, ast.Assign):
                        for t in x.targets:
                            if isinstance(t, ast.Attribute) and isinstance(t.value, ast.Name) and t.value.id == sn:
                                v = x.value
                                if isinstance(v, (ast.Dict, ast.List, ast.Set, ast.DictComp, ast.ListComp, ast.SetComp)):
                                    out.add(t.attr)
                                elif isinstance(v, ast.Call):
                                    fn = v.func.attr if isinstance(v.func, ast.Attribute) else v.func.id if isinstance(v.func, ast.Name) else ""
                                    if fn in ("dict", "list", "set", "Queue", "deque", "defaultdict", "OrderedDict", "LifoQueue", "PriorityQueue"):
                                        out.add(t.attr)
            else:
                out = None
            cache[cls] = out
        return cache[cls]        # None: no constructor to look at - every attribute may be a container

    def _inlinable(self, callee):
        """Small, loop-free, non-generator, effect-light functions (their return value as a term is meaningful)."""
        if callee.is_generator:
            return False
        from .roles import reaches_io
        if callee in reaches_io(self.ctx) or self.ctx.modsets.get(callee):
            return False      # functions with I/O or side effects stay opaque calls
        if callee.is_method and callee.cls is not None and callee.name != "__init__":
            # a method of a stateful container (some other method mutates the object): its result depends on that state,
            # not only on its arguments - it stays an opaque call whatever its size
            selfn = callee.params[0] if callee.params else None
            reads = set(x.attr for x in walk_own(callee.node) if isinstance(x, ast.Attribute) and isinstance(x.value, ast.Name) and x.value.id == selfn)
            cont = self._container_attrs(callee.cls)
            if cont is not None:
                reads &= cont        # scalars (a cursor, a limit) are read at their current value: versioned attribute terms
            for m in callee.cls.methods.values():
                if m.name == "__init__" or not m.params:
                    continue
                for (q, attr) in (self.ctx.modsets.get(m) or ()):
                    if q == m.params[0] and attr.split(".")[0] in reads:
                        return False
            # ... nor may it be built from such methods (find_allow_zeros = four find() look-ups)
            busy = getattr(self, "_inl_busy", None)
            if busy is None:
                busy = self._inl_busy = set()
            if callee not in busy:
                busy.add(callee)
                try:
                    for x in walk_own(callee.node):
                        if isinstance(x, ast.Call) and isinstance(x.func, ast.Attribute) and isinstance(x.func.value, ast.Name) and x.func.value.id == selfn:
                            m2 = callee.cls.methods.get(x.func.attr)
                            if m2 is not None and m2 is not callee and not self._inlinable(m2):
                                return False
                finally:
                    busy.discard(callee)
        for cs in self.ctx.cg.sites.get(callee, []):
            if cs.ext and cs.ext.split(".")[0] in ("os", "socket", "time", "select", "asyncio", "io", "shutil", "subprocess"):
                return False  # reads the environment: not a function of its arguments
            if cs.ext in ("builtins.open", "builtins.input", "builtins.print"):
                return False
        n = nret = 0
        for x in walk_own(callee.node):
            if isinstance(x, (ast.For, ast.While, ast.AsyncFor, ast.Try, ast.With, ast.AsyncWith, ast.Yield, ast.YieldFrom)):
                return False
            if isinstance(x, ast.stmt):
                n += 1
            if isinstance(x, ast.Return):
                nret += 1
        return n <= 24 and nret <= 6


def show(t, depth=0):
    """Compact human-readable rendering of a term."""
    if not isinstance(t, tuple) or not t:
        return repr(t)
    k = t[0]
    if k == "c":
        v = t[1]
        if isinstance(v, dict):
            return "{..%d}" % len(v)
        if isinstance(v, int) and not isinstance(v, bool) and v > 65535:
            return hex(v)
        return repr(v)
    if k == "p":
        return str(t[1])
    if k == "attr":
        return "%s.%s" % (show(t[1]), t[2])
    if k == "ver":
        return "%s@after-call" % show(t[1])
    if k == "phi":
        return "PHI{" + " | ".join(sorted(show(a) for a in t[1])) + "}"
    if k == "op":
        return "(%s %s %s)" % (show(t[2]), t[1], show(t[3]))
    if k == "call":
        nm = t[1] if isinstance(t[1], str) else "dyn"
        return "%s(%s)" % (nm, ", ".join([show(a) for a in t[2]] + ["%s=%s" % (kk, show(v)) for kk, v in t[3]]))
    if k == "new":
        return "%s(%s)" % (t[1].split(".")[-1], ", ".join("%s=%s" % (kk, show(v)) for kk, v in t[2]))
    if k in ("tuple", "list", "CONCAT"):
        return k + "(" + ", ".join(show(a) for a in t[1:]) + ")"
    return k + "(" + ", ".join(show(a) if isinstance(a, tuple) else repr(a) for a in t[1:]) + ")"


def linear(t):
    """Linear normal form of an integer-valued term: ({atom: coefficient}, constant).  LEN distributes over CONCAT, LEN of a
    constant is its length, LEN of struct.pack(<constant format>, ...) is the format's size."""
    import struct as _struct
    k = t[0]
    if k == "c" and isinstance(t[1], int) and not isinstance(t[1], bool):
        return {}, t[1]
    if k == "op" and t[1] in ("+", "-"):
        a, ca = linear(t[2])
        b, cb = linear(t[3])
        sign = 1 if t[1] == "+" else -1
        out = dict(a)
        for x, v in b.items():
            out[x] = out.get(x, 0) + sign * v
        return {x: v for x, v in out.items() if v}, ca + sign * cb
    if k == "LEN":
        x = t[1]
        if x[0] == "CONCAT":
            out, c = {}, 0
            for p in x[1:]:
                a, ca = linear(("LEN", p))
                for y, v in a.items():
                    out[y] = out.get(y, 0) + v
                c += ca
            return {y: v for y, v in out.items() if v}, c
        if x[0] == "op" and x[1] == "+":
            return linear(("LEN", ("CONCAT", x[2], x[3])))
        if x[0] == "c" and isinstance(x[1], (bytes, str, bytearray, tuple, list)):
            return {}, len(x[1])
        if x[0] == "call" and x[1] == "struct.pack" and x[2] and x[2][0][0] == "c":
            try:
                return {}, _struct.calcsize(x[2][0][1])
            except Exception:   # noqa
                pass
        if x[0] == "call" and x[1] in ("builtins.bytes", "builtins.bytearray") and len(x[2]) == 1 and not x[3]:
            return linear(("LEN", x[2][0]))
    return {t: 1}, 0


def lin_eq(a, b):
    return linear(a) == linear(b)


def lin_sub(a, b):
    """linear(a) - linear(b) as a linear form."""
    x, cx = linear(a)
    y, cy = linear(b)
    out = dict(x)
    for k, v in y.items():
        out[k] = out.get(k, 0) - v
    return {k: v for k, v in out.items() if v}, cx - cy


EXT_SIGS = {
    "asyncio.open_connection": ["host", "port"],
    "socket.create_connection": ["address", "timeout", "source_address"],
    "select.select": ["rlist", "wlist", "xlist", "timeout"],
    "rsa.sign": ["message", "priv_key", "hash_method"],
    "rsa.pkcs1.sign": ["message", "priv_key", "hash_method"],
    "cryptography.hazmat.primitives.serialization.load_pem_private_key": ["data", "password", "backend"],
    "struct.unpack": ["format", "buffer"],
    "base64.b64encode": ["s", "altchars"],
}


METHOD_SIGS = {
    ".sign": ["data", "padding", "algorithm"],          # cryptography RSAPrivateKey.sign
    ".to_bytes": ["length", "byteorder"],
    ".decode": ["encoding", "errors"],
    ".encode": ["encoding", "errors"],
}


def never_none(t):
    """terms that cannot denote None: literals other than None, fields of an unpacked struct, lengths, arithmetic, displays"""
    if not isinstance(t, tuple) or not t:
        return False
    if t[0] == "c":
        return t[1] is not None
    if t[0] in ("sub", "proj") and isinstance(t[1], tuple) and t[1] and t[1][0] == "call" and t[1][1] == "struct.unpack":
        return True
    if t[0] in ("LEN", "tuple", "list", "CONCAT", "new", "MOD32", "BYTESUM", "ORDSUM"):
        return True
    if t[0] == "op" and t[1] in ("+", "-", "*", "//", "%", "&", "|", "<<", ">>"):
        return True
    if t[0] == "call" and t[1] in ("builtins.len", "builtins.int", "builtins.bytes", "builtins.bytearray", "builtins.str", "builtins.bool", "builtins.min", "builtins.max"):
        return True
    return False


def crepr(t):
    """Canonical text of a term: like repr(), but the elements of (frozen)sets are sorted, so the text does not depend on the
    interpreter's hash seed.  Used wherever terms are ordered or compared as text."""
    if isinstance(t, (frozenset, set)):
        return "{" + ",".join(sorted(crepr(x) for x in t)) + "}"
    if isinstance(t, tuple):
        return "(" + ",".join(crepr(x) for x in t) + ")"
    if isinstance(t, list):
        return "[" + ",".join(crepr(x) for x in t) + "]"
    if isinstance(t, dict):
        return "{" + ",".join(sorted("%s:%s" % (crepr(k), crepr(v)) for k, v in t.items())) + "}"
    return repr(t)


def alts_of(t):
    """The alternative values of a term: leaves of its phi / ite structure."""
    if t[0] == "phi":
        out = set()
        for a in t[1]:
            out |= alts_of(a)
        return out
    if t[0] == "ite":
        return alts_of(t[2]) | alts_of(t[3])
    return {t}
