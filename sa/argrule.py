"""ARG rule: at every resolved intra-package call, a bare-name argument whose identifier equals a parameter name of
the callee must be bound to that very parameter (measured on the pinned tree: no exception)."""
import ast

from .dataflow import unawait
from .util import norm_stmt

GROUPS = {
    "timeouts": {"transport_timeout_s", "read_timeout_s", "timeout_s", "auth_timeout_s", "default_transport_timeout_s"},
    "ids": {"arg0", "arg1", "local_id", "remote_id", "allow_zeros"},
    "auth": {"rsa_keys", "auth_callback", "banner", "auth_timeout_s"},
    "stream": {"adb_info", "filesync_info", "expected_cmds", "expected_ids", "finish_ids", "msg", "cmd", "data", "allow_zeros", "size", "command_id"},
    "shell": {"service", "command", "decode"},
    "files": {"device_path", "local_path", "st_mode", "mtime", "progress_callback", "stream"},
    "usb": {"serial", "port_path", "setting_matcher", "device_matcher", "usb_info"},
    "net": {"host", "port", "banner", "transport", "default_transport_timeout_s"},
}


def arg_rule(ctx, R, group, rule="ARG", min_count=0):
    names = GROUPS[group]
    count = 0
    for f, sites in ctx.cg.sites.items():
        for cs in sites:
            if len(cs.callees) != 1:
                continue
            callee = cs.callees[0]
            params = callee.call_params if callee.name != "__init__" else callee.params[1:]
            pset = set(params) | set(callee.kwonly)
            binding = cs.bind(callee)
            inv = {}
            for p, a in binding.items():
                a = unawait(a)
                if isinstance(a, ast.Name):
                    inv.setdefault(a.id, []).append(p)
            for aname, plist in inv.items():
                if aname in names and aname in pset:
                    count += 1
                    ok = plist == [aname]
                    R.check(ok, rule, "%s|%s|%s" % (f.qualname, callee.name, aname),
                            "`%s` is passed as parameter `%s` of %s" % (aname, aname, callee.name),
                            "`%s` is passed to %s as parameter `%s` (swapped or shifted argument)" % (aname, callee.qualname, ",".join(plist)), f.loc(cs.node))
            # a typed name passed positionally into a slot of a *different* typed name
            for p, a in binding.items():
                a = unawait(a)
                if isinstance(a, ast.Name) and a.id in names and p in names and a.id != p and a.id not in pset:
                    pass
    count += _forwarding(ctx, R, names, rule)
    R.rule_counts["%s[%s]" % (rule, group)] = count
    if count < min_count:
        R.count_failures.append((rule, "only %d name-consistent bindings found for group %s (expected >= %d)" % (count, group, min_count)))
    return count


# (caller, callee, parameter) where the caller deliberately passes something else than its own parameter of that name - confirmed by reading
NOT_FORWARDED = {
    ("find_allow_zeros", "find", "arg0"): "the zero fall-backs of the look-up are its purpose",
    ("find_allow_zeros", "find", "arg1"): "the zero fall-backs of the look-up are its purpose",
    ("push", "_push", "device_path"): "per-file path computed by get_files_to_push (decided by C07 DIR)",
}


def _mentions_param(t, p, depth=0):
    if depth > 40 or not isinstance(t, tuple):
        return False
    if len(t) == 2 and t[0] == "p" and (t[1] == p or (isinstance(t[1], str) and t[1].split(":")[0] == p)):
        return True
    return any(_mentions_param(x, p, depth + 1) for x in t if isinstance(x, tuple))


def _forwarding(ctx, R, names, rule):
    """A parameter of the caller that the callee takes under the same name is forwarded: the argument bound to the callee's parameter is
    computed from the caller's (directly, through locals, or through a helper applied to it) - not dropped for a literal or the default.
    Measured on the pinned tree: 270 such bindings, the exceptions are the NOT_FORWARDED table."""
    from .engine import terms
    from .util import node_calls
    T = terms(ctx)
    count = 0
    for f in list(ctx.cg.sites):
        fparams = set(f.params) | set(getattr(f, "kwonly", ()))
        if not (fparams & names):
            continue
        g = ctx.cfg(f)
        for n in g.live_nodes():
            for c in node_calls(n):
                cs = ctx.cg.site(c)
                if cs is None or len(cs.callees) != 1:
                    continue
                callee = cs.callees[0]
                params = callee.call_params if callee.name != "__init__" else callee.params[1:]
                pset = set(params) | set(callee.kwonly)
                if any(isinstance(a, ast.Starred) for a in c.args) or any(k.arg is None for k in c.keywords):
                    continue
                binding = cs.bind(callee)
                for p in sorted(pset & fparams & names):
                    if (f.name, callee.name, p) in NOT_FORWARDED:
                        continue
                    count += 1
                    a = binding.get(p)
                    ok = a is not None and (any(isinstance(x, ast.Name) and x.id == p for x in ast.walk(a)) or _mentions_param(T.term(f, n, unawait(a)), p))
                    R.check(ok, rule, "%s|%s|%s|forwarded" % (f.qualname, callee.name, p), "`%s` of %s reaches %s" % (p, f.name, callee.name),
                            "%s does not pass its `%s` on to %s (%s): the caller's value is ignored" % (f.qualname, p, callee.qualname, "the default is used" if a is None else "`%s` is passed" % norm_stmt(a)[:40]), f.loc(c))
    return count
