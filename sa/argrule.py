"""ARG rule: at every resolved intra-package call, a bare-name argument whose identifier equals a parameter name of
the callee must be bound to that very parameter (measured on the pinned tree: no exception)."""
import ast

from .dataflow import unawait
from .util import norm_stmt

GROUPS = {
    "timeouts": {"transport_timeout_s", "read_timeout_s", "timeout_s", "auth_timeout_s", "default_transport_timeout_s"},
    "ids": {"arg0", "arg1", "local_id", "remote_id"},
    "auth": {"rsa_keys", "auth_callback", "banner"},
    "stream": {"adb_info", "filesync_info", "expected_cmds", "expected_ids", "finish_ids", "msg", "cmd", "data", "allow_zeros", "size", "command_id"},
    "shell": {"service", "command", "decode"},
    "files": {"device_path", "local_path", "st_mode", "mtime", "progress_callback", "stream"},
    "usb": {"serial", "port_path", "setting_matcher", "device_matcher", "usb_info"},
    "net": {"host", "port", "banner", "transport", "default_transport_timeout_s"},
}


def arg_rule(ctx, R, group, rule="ARG", min_count=0):
    names = GROUPS[group]
    count = 0
    for f, sites in ctx.cg.sites.items():
        for cs in sites:
            if len(cs.callees) != 1:
                continue
            callee = cs.callees[0]
            params = callee.call_params if callee.name != "__init__" else callee.params[1:]
            pset = set(params) | set(callee.kwonly)
            binding = cs.bind(callee)
            inv = {}
            for p, a in binding.items():
                a = unawait(a)
                if isinstance(a, ast.Name):
                    inv.setdefault(a.id, []).append(p)
            for aname, plist in inv.items():
                if aname in names and aname in pset:
                    count += 1
                    ok = plist == [aname]
                    R.check(ok, rule, "%s|%s|%s" % (f.qualname, callee.name, aname),
                            "`%s` is passed as parameter `%s` of %s" % (aname, aname, callee.name),
                            "`%s` is passed to %s as parameter `%s` (swapped or shifted argument)" % (aname, callee.qualname, ",".join(plist)), f.loc(cs.node))
            # a typed name passed positionally into a slot of a *different* typed name
            for p, a in binding.items():
                a = unawait(a)
                if isinstance(a, ast.Name) and a.id in names and p in names and a.id != p and a.id not in pset:
                    pass
    R.rule_counts["%s[%s]" % (rule, group)] = count
    if count < min_count:
        R.count_failures.append((rule, "only %d name-consistent bindings found for group %s (expected >= %d)" % (count, group, min_count)))
    return count
