from .cli import main
import sys
sys.exit(main())
