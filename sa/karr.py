"""E3.5 - affine-equality abstract interpretation (Karr 1976) over a function's CFG.

The abstract value at a program point is the set of affine equalities  a1*x1 + ... + an*xn = b  that hold between the integer
quantities of the function on every path to that point.  The quantities are: integer locals and attribute chains
(`idx`, `filesync_info.send_idx`), lengths of byte-string variables (`len:data`), totals of lists of byte strings
(`sum:chunks`), parameter entry values (`@length`) and ghost counters a rule adds.  Nothing is executed: statements are
interpreted as affine assignments (or as "unknown": the quantity is projected out), equality tests refine the value along
their edges, joins are affine hulls.  The lattice has finite height (the dimension can only grow n+1 times), so the fixpoint
needs no widening and is exact for affine programs (Mueller-Olm / Seidl 2004).

What a rule gets: `entails(node, lin)` - does  lin == 0  hold whenever control is at `node` (before it executes) - and the same
on an edge.  Linear forms are `(dict var -> Fraction/int, const)`.
"""
import ast
from fractions import Fraction

from .dataflow import unawait, varkey


# ---------------------------------------------------------------------------------------------------------------------
#  affine spaces as reduced systems of equalities
# ---------------------------------------------------------------------------------------------------------------------
class Aff(object):
    """rows: list of lists of Fraction, length n+1: coefficients, then the right-hand side (a.x = b).  Kept in reduced row
    echelon form, so two equal spaces have equal rows."""
    __slots__ = ("n", "rows", "bottom")

    def __init__(self, n, rows=None, bottom=False):
        self.n = n
        self.rows = rows or []
        self.bottom = bottom

    def copy(self):
        return Aff(self.n, [list(r) for r in self.rows], self.bottom)

    def __eq__(self, other):
        return self.bottom == other.bottom and (self.bottom or self.rows == other.rows)

    def __ne__(self, other):
        return not self.__eq__(other)

    def _reduce(self):
        rows = [r for r in self.rows if any(r)]
        n = self.n
        out = []
        col = 0
        while rows and col < n:
            piv = None
            for i, r in enumerate(rows):
                if r[col] != 0:
                    piv = i
                    break
            if piv is None:
                col += 1
                continue
            p = rows.pop(piv)
            k = p[col]
            p = [x / k for x in p]
            rows = [[a - r[col] * b for a, b in zip(r, p)] if r[col] != 0 else r for r in rows]
            out = [[a - r[col] * b for a, b in zip(r, p)] if r[col] != 0 else r for r in out]
            out.append(p)
            rows = [r for r in rows if any(r)]
            col += 1
        for r in rows:
            if any(r):          # 0 = b with b != 0
                self.bottom = True
        for r in out:
            if not any(r[:n]) and r[n] != 0:
                self.bottom = True
        out.sort(key=lambda r: next(i for i, x in enumerate(r) if x != 0))
        self.rows = [] if self.bottom else out
        return self

    def add_eq(self, vec):
        """vec: length n+1, meaning sum(vec[i]*x_i) == vec[n]."""
        if self.bottom:
            return self
        self.rows.append([Fraction(x) for x in vec])
        return self._reduce()

    def project(self, i):
        if self.bottom:
            return self
        piv = None
        for r in self.rows:
            if r[i] != 0:
                piv = r
                break
        if piv is None:
            return self
        k = piv[i]
        new = []
        for r in self.rows:
            if r is piv:
                continue
            if r[i] != 0:
                f = r[i] / k
                r = [a - f * b for a, b in zip(r, piv)]
            new.append(r)
        self.rows = new
        return self._reduce()

    def entails(self, vec):
        if self.bottom:
            return True
        v = [Fraction(x) for x in vec]
        for r in self.rows:
            c = next(i for i, x in enumerate(r) if x != 0)
            if c < self.n and v[c] != 0:
                f = v[c]
                v = [a - f * b for a, b in zip(v, r)]
        return not any(v)

    # -- join: affine hull -------------------------------------------------------------------------------------------------
    def _generators(self):
        """(point, [direction vectors]) of a non-bottom space."""
        n = self.n
        pivots = {}
        for r in self.rows:
            c = next(i for i, x in enumerate(r) if x != 0)
            pivots[c] = r
        free = [i for i in range(n) if i not in pivots]
        point = [Fraction(0)] * n
        for c, r in pivots.items():
            point[c] = r[n]
        dirs = []
        for fv in free:
            d = [Fraction(0)] * n
            d[fv] = Fraction(1)
            for c, r in pivots.items():
                d[c] = -r[fv]
            dirs.append(d)
        return point, dirs

    def join(self, other):
        if self.bottom:
            return other.copy()
        if other.bottom:
            return self.copy()
        n = self.n
        p1, d1 = self._generators()
        p2, d2 = other._generators()
        dirs = d1 + d2 + [[a - b for a, b in zip(p2, p1)]]
        # constraints a.x = a.p1 for all a orthogonal to every direction: null space of the direction matrix
        m = Aff(n, [d + [Fraction(0)] for d in dirs])
        m._reduce()
        _pt, ortho = m._generators()
        out = Aff(n)
        for a in ortho:
            out.rows.append(list(a) + [sum(x * y for x, y in zip(a, p1))])
        return out._reduce()


# ---------------------------------------------------------------------------------------------------------------------
#  the analysis
# ---------------------------------------------------------------------------------------------------------------------
PURE_CALLS = {"len", "bytes", "bytearray", "int", "min", "max", "str", "repr", "isinstance", "memoryview", "bool", "format"}
_LOG_ATTRS = {"debug", "info", "warning", "error", "exception", "critical", "log"}


def lin_add(a, b, k=1):
    d = dict(a[0])
    for v, c in b[0].items():
        d[v] = d.get(v, 0) + k * c
        if d[v] == 0:
            del d[v]
    return d, a[1] + k * b[1]


class Karr(object):
    """hooks: optional object with  `before(node, karr, state)` / `after(node, karr, state)`  called around the standard
    transfer of a node (to record facts or to update ghost variables), and `ghosts`: iterable of ghost variable names."""

    def __init__(self, ctx, func, hooks=None, extra_vars=()):
        self.ctx = ctx
        self.f = func
        self.g = ctx.cfg(func)
        self.hooks = hooks
        self.bytes_vars = set()
        self.list_vars = set()
        self._mut_cache = {}
        self._int_cache = {}
        self._classify()
        self.vars = []
        self._collect(extra_vars)
        self.idx = {v: i for i, v in enumerate(self.vars)}
        self.n = len(self.vars) + 1           # last column before the rhs: scratch variable for assignments
        self.state = {}                       # node -> Aff before the node
        self.edge = {}                        # (node, label, dest) -> Aff

    # -- which names are byte strings / lists of byte strings -----------------------------------------------------------------
    def _bytes_expr(self, e):
        e = unawait(e)
        if isinstance(e, ast.Constant):
            return isinstance(e.value, bytes)
        if isinstance(e, ast.Call):
            if isinstance(e.func, ast.Name) and e.func.id in ("bytearray", "bytes"):
                return True
            if isinstance(e.func, ast.Attribute) and e.func.attr in ("bulk_read", "join", "recv", "read", "bulkRead", "pack") :
                return True
        if isinstance(e, ast.BinOp) and isinstance(e.op, ast.Add):
            return self._bytes_expr(e.left) or self._bytes_expr(e.right)
        if isinstance(e, ast.Subscript) and isinstance(e.slice, ast.Slice):
            return self._bytes_expr(e.value)
        k = varkey(e)
        return k is not None and k in self.bytes_vars

    def _classify(self):
        fn = self.f.node
        for _round in range(4):
            before = (len(self.bytes_vars), len(self.list_vars))
            for n in ast.walk(fn):
                if isinstance(n, ast.Call) and isinstance(n.func, ast.Name) and n.func.id == "len" and len(n.args) == 1:
                    k = varkey(unawait(n.args[0]))
                    if k is not None and k not in self.list_vars:
                        self.bytes_vars.add(k)
                if isinstance(n, ast.Assign) and len(n.targets) == 1:
                    k = varkey(n.targets[0])
                    v = unawait(n.value)
                    if k is not None and self._bytes_expr(v):
                        self.bytes_vars.add(k)
                    if k is not None and isinstance(v, ast.List) and not v.elts:
                        self.list_vars.add(k)
                        self.bytes_vars.discard(k)
                if isinstance(n, ast.AugAssign) and isinstance(n.op, ast.Add):
                    k = varkey(n.target)
                    if k is not None and self._bytes_expr(n.value):
                        self.bytes_vars.add(k)
            if before == (len(self.bytes_vars), len(self.list_vars)):
                break

    def _collect(self, extra):
        seen = []

        def add(v):
            if v not in seen:
                seen.append(v)
        for p in self.f.params:
            add(p)
            add("@" + p)
        fn = self.f.node
        assigned = set()
        for n in ast.walk(fn):
            if isinstance(n, ast.Name) and isinstance(n.ctx, ast.Store):
                assigned.add(n.id)
        numeric_ctx = []          # expressions in arithmetic / comparison / slice-bound / assignment context
        for n in ast.walk(fn):
            if isinstance(n, ast.BinOp) and isinstance(n.op, (ast.Add, ast.Sub, ast.Mult)):
                numeric_ctx += [n.left, n.right]
            elif isinstance(n, ast.Compare):
                numeric_ctx += [n.left] + list(n.comparators)
            elif isinstance(n, ast.AugAssign):
                numeric_ctx += [n.target, n.value]
            elif isinstance(n, ast.Slice):
                numeric_ctx += [x for x in (n.lower, n.upper) if x is not None]
            elif isinstance(n, ast.Assign):
                numeric_ctx += list(n.targets) + [n.value]
            elif isinstance(n, ast.Call) and isinstance(n.func, ast.Name) and n.func.id in ("len", "bytes", "bytearray", "int") and n.args:
                numeric_ctx.append(n.args[0])
            elif isinstance(n, ast.Call):
                numeric_ctx += list(n.args)
            elif isinstance(n, (ast.If, ast.While)):
                numeric_ctx.append(n.test)
            elif isinstance(n, ast.Return) and n.value is not None:
                numeric_ctx.append(n.value)
        for e in numeric_ctx:
            e = unawait(e)
            if isinstance(e, ast.UnaryOp):
                e = unawait(e.operand)
            k = varkey(e)
            if k is None:
                continue
            root = k.split(".")[0]
            if k in self.bytes_vars:
                add("len:" + k)
            elif k in self.list_vars:
                add("sum:" + k)
            elif "." not in k:
                if k in assigned or k in self.f.params:
                    add(k)
            elif root in assigned or root in self.f.params:
                add(k)
        for v in extra:
            add(v)
        if self.hooks is not None:
            for v in getattr(self.hooks, "ghosts", ()):
                add(v)
        self.vars = seen

    # -- linear forms ---------------------------------------------------------------------------------------------------------
    def lin(self, e):
        """AST expression -> (dict var -> coeff, const) over the analysis variables, or None."""
        e = unawait(e)
        if isinstance(e, ast.Constant):
            if isinstance(e.value, bool):
                return None
            if isinstance(e.value, int):
                return {}, e.value
            return None
        if isinstance(e, ast.Call) and isinstance(e.func, ast.Name) and e.func.id == "len" and len(e.args) == 1 and not e.keywords:
            a = unawait(e.args[0])
            if isinstance(a, ast.Constant) and isinstance(a.value, (bytes, str)):
                return {}, len(a.value)
            k = varkey(a)
            if k is not None and ("len:" + k) in self.idx:
                return {"len:" + k: 1}, 0
            ln = self.length_of(a)
            return ln
        if isinstance(e, ast.Call) and isinstance(e.func, ast.Name) and e.func.id == "int" and len(e.args) == 1 and not e.keywords:
            return self.lin(e.args[0])
        if isinstance(e, (ast.Name, ast.Attribute)):
            k = varkey(e)
            if k is not None and k in self.idx:
                return {k: 1}, 0
            return None
        if isinstance(e, ast.UnaryOp) and isinstance(e.op, ast.USub):
            a = self.lin(e.operand)
            return None if a is None else ({v: -c for v, c in a[0].items()}, -a[1])
        if isinstance(e, ast.BinOp):
            if isinstance(e.op, (ast.Add, ast.Sub)):
                a, b = self.lin(e.left), self.lin(e.right)
                if a is None or b is None:
                    return None
                return lin_add(a, b, 1 if isinstance(e.op, ast.Add) else -1)
            if isinstance(e.op, ast.Mult):
                a, b = self.lin(e.left), self.lin(e.right)
                if a is None or b is None:
                    return None
                if not a[0]:
                    return {v: c * a[1] for v, c in b[0].items()}, a[1] * b[1]
                if not b[0]:
                    return {v: c * b[1] for v, c in a[0].items()}, a[1] * b[1]
        return None

    def length_of(self, e):
        """linear form of len(e) for a byte-string expression e, or None."""
        e = unawait(e)
        if isinstance(e, ast.Constant) and isinstance(e.value, bytes):
            return {}, len(e.value)
        k = varkey(e)
        if k is not None:
            if ("len:" + k) in self.idx:
                return {"len:" + k: 1}, 0
            return None
        if isinstance(e, ast.Call) and isinstance(e.func, ast.Name) and e.func.id in ("bytes", "bytearray") and not e.keywords:
            if not e.args:
                return {}, 0
            if len(e.args) == 1:
                a = unawait(e.args[0])
                ak = varkey(a)
                if ak is not None and ("len:" + ak) in self.idx:
                    return {"len:" + ak: 1}, 0
                if ak is not None and ("sum:" + ak) in self.idx:
                    return None
                if isinstance(a, ast.Call):
                    return self.length_of(a)
                return self.lin(a)             # bytearray(n): n zero bytes
        if isinstance(e, ast.Call) and isinstance(e.func, ast.Attribute) and e.func.attr == "join" and len(e.args) == 1 and not e.keywords \
                and isinstance(e.func.value, ast.Constant) and e.func.value.value == b"":
            ak = varkey(unawait(e.args[0]))
            if ak is not None and ("sum:" + ak) in self.idx:
                return {"sum:" + ak: 1}, 0
            return None
        if isinstance(e, ast.BinOp) and isinstance(e.op, ast.Add):
            a, b = self.length_of(e.left), self.length_of(e.right)
            if a is None or b is None:
                return None
            return lin_add(a, b)
        return None

    def vec(self, lf):
        v = [Fraction(0)] * (self.n + 1)
        for k, c in lf[0].items():
            v[self.idx[k]] = Fraction(c)
        v[self.n] = Fraction(-lf[1])
        return v

    # -- state operations on variables by name ----------------------------------------------------------------------------------
    def havoc(self, st, var):
        if var in self.idx:
            st.project(self.idx[var])

    def assign(self, st, var, lf):
        """var := lf (lf may mention var)."""
        if var not in self.idx:
            return
        if lf is None or any(v not in self.idx for v in lf[0]):
            self.havoc(st, var)
            return
        tmp = self.n - 1
        st.project(tmp)
        v = self.vec(lf)
        v = [-x for x in v[:self.n]] + [-v[self.n]]
        v[tmp] += 1                                  # tmp - lf == 0
        # careful with sign of the rhs: vec() stores -const on the right: sum(c v) = -const  ->  tmp = sum(c v) + const
        st.add_eq(v)
        i = self.idx[var]
        st.project(i)
        for r in st.rows:
            r[i], r[tmp] = r[tmp], r[i]
        st._reduce()

    def assume_eq(self, st, lf):
        if lf is not None and all(v in self.idx for v in lf[0]):
            st.add_eq(self.vec(lf))

    def entails_state(self, st, lf):
        if st is None:
            return True                      # unreachable
        if lf is None or any(v not in self.idx for v in lf[0]):
            return False
        return st.entails(self.vec(lf))

    # -- guards -----------------------------------------------------------------------------------------------------------------
    def guard(self, st, test, pol):
        t = unawait(test)
        if isinstance(t, ast.UnaryOp) and isinstance(t.op, ast.Not):
            return self.guard(st, t.operand, not pol)
        if isinstance(t, ast.BoolOp):
            conj = isinstance(t.op, ast.And)
            if conj == pol:                   # (A and B) true / (A or B) false: all operands have that polarity
                for v in t.values:
                    self.guard(st, v, pol)
            return
        if isinstance(t, ast.Compare) and len(t.ops) == 1:
            op = t.ops[0]
            if (isinstance(op, ast.Eq) and pol) or (isinstance(op, ast.NotEq) and not pol):
                a, b = self.lin(t.left), self.lin(t.comparators[0])
                if a is not None and b is not None:
                    self.assume_eq(st, lin_add(a, b, -1))
            return
        if not pol:
            k = varkey(t)
            if k is not None:
                if ("len:" + k) in self.idx:
                    self.assume_eq(st, ({"len:" + k: 1}, 0))
                elif ("sum:" + k) in self.idx:
                    pass
                elif k in self.idx and self._intlike(k):
                    self.assume_eq(st, ({k: 1}, 0))
            elif isinstance(t, ast.Call):
                lf = self.lin(t)
                if lf is not None:
                    self.assume_eq(st, lf)

    def _intlike(self, k):
        """a name whose falsiness means zero: assigned only numbers (it takes part in arithmetic in this function)."""
        if k not in self._int_cache:
            self._int_cache[k] = self._intlike0(k)
        return self._int_cache[k]

    def _intlike0(self, k):
        for n in ast.walk(self.f.node):
            if isinstance(n, ast.AugAssign) and varkey(n.target) == k and isinstance(n.op, (ast.Add, ast.Sub)):
                return True
            if isinstance(n, ast.Assign) and len(n.targets) == 1 and varkey(n.targets[0]) == k and self.lin(n.value) is not None:
                return True
        return False

    # -- transfer ---------------------------------------------------------------------------------------------------------------
    def _mutated_by_call(self, st, call):
        """a call may change attributes of the objects it is given and lengths of mutable buffers it is given"""
        fn = call.func
        if isinstance(fn, ast.Name) and fn.id in PURE_CALLS:
            return
        if isinstance(fn, ast.Attribute) and fn.attr in _LOG_ATTRS:
            return
        bases = set()
        if isinstance(fn, ast.Attribute):
            k = varkey(fn.value)
            if k is not None:
                bases.add(k)
                if fn.attr in ("append", "extend", "clear", "pop", "insert", "remove", "reverse", "sort", "write", "put", "put_nowait"):
                    for pre in ("len:", "sum:"):
                        self.havoc(st, pre + k)
        for a in list(call.args) + [kw.value for kw in call.keywords]:
            k = varkey(unawait(a))
            if k is not None:
                bases.add(k)
                if self._mutable(k):
                    for pre in ("len:", "sum:"):
                        self.havoc(st, pre + k)
        for v in self.vars:
            root = v.split(":", 1)[-1]
            for b in bases:
                if root.startswith(b + "."):
                    self.havoc(st, v)

    def _mutable(self, k):
        """may the object bound to k be changed in place by a callee?  bytes objects cannot; bytearrays / lists can."""
        if k not in self._mut_cache:
            r = k in self.f.params or "." in k
            for n in ast.walk(self.f.node):
                if isinstance(n, ast.Assign) and len(n.targets) == 1 and varkey(n.targets[0]) == k:
                    v = unawait(n.value)
                    if isinstance(v, ast.Call) and isinstance(v.func, ast.Name) and v.func.id == "bytearray":
                        r = True
                    if isinstance(v, ast.List):
                        r = True
            self._mut_cache[k] = r
        return self._mut_cache[k]

    def transfer(self, node, st):
        """state after the node's own effect (normal completion)."""
        a = node.ast
        if node.kind == "iter":
            for t in ast.walk(a.target):
                k = varkey(t)
                if k is not None:
                    self._kill(st, k)
            return st
        if node.kind == "with":
            if node.item is not None and node.item.optional_vars is not None:
                for t in ast.walk(node.item.optional_vars):
                    k = varkey(t)
                    if k is not None:
                        self._kill(st, k)
            return st
        if node.kind != "stmt":
            return st
        # calls anywhere in the statement first (evaluation precedes the binding)
        for sub in ast.walk(a):
            if isinstance(sub, ast.Call):
                self._mutated_by_call(st, sub)
        if isinstance(a, ast.Assign):
            if len(a.targets) == 1 and varkey(a.targets[0]) is not None:
                self._bind(st, varkey(a.targets[0]), a.value)
            else:
                for t in a.targets:
                    for x in ast.walk(t):
                        k = varkey(x)
                        if k is not None and isinstance(getattr(x, "ctx", None), ast.Store):
                            self._kill(st, k)
                    if isinstance(t, ast.Subscript):
                        k = varkey(t.value)
                        if k is not None:
                            self._slice_store(st, k, t, a.value)
        elif isinstance(a, ast.AugAssign):
            k = varkey(a.target)
            if k is not None:
                if ("len:" + k) in self.idx:
                    ln = self.length_of(a.value) if isinstance(a.op, ast.Add) else None
                    self.assign(st, "len:" + k, None if ln is None else lin_add(({"len:" + k: 1}, 0), ln))
                elif ("sum:" + k) in self.idx:
                    self.havoc(st, "sum:" + k)
                elif k in self.idx:
                    lf = self.lin(a.value)
                    if lf is not None and isinstance(a.op, (ast.Add, ast.Sub)):
                        self.assign(st, k, lin_add(({k: 1}, 0), lf, 1 if isinstance(a.op, ast.Add) else -1))
                    elif lf is not None and isinstance(a.op, ast.Mult) and not lf[0]:
                        self.assign(st, k, ({k: lf[1]}, 0))
                    else:
                        self.havoc(st, k)
                self._kill_fields(st, k)
        elif isinstance(a, ast.Expr) and isinstance(unawait(a.value), ast.Call):
            c = unawait(a.value)
            if isinstance(c.func, ast.Attribute) and len(c.args) == 1 and not c.keywords:
                k = varkey(c.func.value)
                if k is not None and c.func.attr == "extend" and ("len:" + k) in self.idx:
                    ln = self.length_of(c.args[0])
                    # (havocked above by the generic call rule: recompute from the state before is not possible; so the generic rule skips these)
                    self._pending = ("len:" + k, ln)
                elif k is not None and c.func.attr == "append" and ("sum:" + k) in self.idx:
                    ln = self.length_of(c.args[0])
                    self._pending = ("sum:" + k, ln)
        elif isinstance(a, ast.Delete):
            for t in a.targets:
                if isinstance(t, ast.Subscript) and isinstance(t.slice, ast.Slice) and t.slice.lower is None and t.slice.upper is None and t.slice.step is None:
                    k = varkey(t.value)
                    if k is not None and ("len:" + k) in self.idx:
                        self.assign(st, "len:" + k, ({}, 0))
                        continue
                for x in ast.walk(t):
                    k = varkey(x)
                    if k is not None:
                        self._kill(st, k)
        return st

    def _kill(self, st, k):
        for v in (k, "len:" + k, "sum:" + k):
            self.havoc(st, v)
        self._kill_fields(st, k)

    def _kill_fields(self, st, k):
        for v in self.vars:
            root = v.split(":", 1)[-1]
            if root.startswith(k + "."):
                self.havoc(st, v)

    def _slice_store(self, st, k, target, value):
        """X[a:b] = V changes len(X) unless b - a == len(V): rules handle the validated cases through hooks; here: unknown."""
        if ("len:" + k) in self.idx and isinstance(target.slice, ast.Slice):
            lo, hi = target.slice.lower, target.slice.upper
            ln = self.length_of(value)
            if lo is not None and hi is not None and ln is not None and target.slice.step is None:
                a, b = self.lin(lo), self.lin(hi)
                if a is not None and b is not None and self.entails_state(st, lin_add(lin_add(b, a, -1), ln, -1)):
                    return              # same-size replacement (given the slice lies inside X; otherwise X grows - callers that care check that)
            self.havoc(st, "len:" + k)

    def _bind(self, st, k, value):
        v = unawait(value)
        self._kill_fields(st, k)
        if ("len:" + k) in self.idx:
            self.assign(st, "len:" + k, self.length_of(v))
            return
        if ("sum:" + k) in self.idx:
            if isinstance(v, ast.List) and not v.elts:
                self.assign(st, "sum:" + k, ({}, 0))
            else:
                self.havoc(st, "sum:" + k)
            return
        if k in self.idx:
            self.assign(st, k, self.lin(v))

    # -- fixpoint ---------------------------------------------------------------------------------------------------------------
    def run(self):
        g = self.g
        top = Aff(self.n)
        for p in self.f.params:
            if p in self.idx and ("@" + p) in self.idx:
                v = [Fraction(0)] * (self.n + 1)
                v[self.idx[p]] = 1
                v[self.idx["@" + p]] = -1
                top.add_eq(v)
        for gh, val in getattr(self.hooks, "ghost_init", {}).items() if self.hooks is not None else ():
            v = [Fraction(0)] * (self.n + 1)
            v[self.idx[gh]] = 1
            v[self.n] = val
            top.add_eq(v)
        self.state = {g.entry: top}
        work = [g.entry]
        rounds = 0
        while work:
            rounds += 1
            if rounds > 20000:
                raise RuntimeError("affine analysis did not converge")
            n = work.pop(0)
            st_in = self.state[n]
            pre = st_in.copy()
            if self.hooks is not None and hasattr(self.hooks, "before"):
                self.hooks.before(n, self, pre)
            post = pre.copy()
            self._pending = None
            post = self.transfer(n, post)
            if self._pending is not None:
                var, ln = self._pending
                # recompute from the state before the call (the generic call rule forgot the old value)
                post2 = pre.copy()
                for sub in ast.walk(n.ast):
                    if isinstance(sub, ast.Call) and sub is not unawait(n.ast.value):
                        self._mutated_by_call(post2, sub)
                self.assign(post2, var, None if ln is None else lin_add(({var: 1}, 0), ln))
                post = post2
            if self.hooks is not None and hasattr(self.hooks, "after"):
                self.hooks.after(n, self, pre, post)
            for d, l in g.succ[n]:
                if l == "exc":
                    out = pre.copy()
                else:
                    out = post.copy()
                    if n.kind == "test" and l in ("true", "false"):
                        self.guard(out, n.ast.test, l == "true")
                self.edge[(n, l, d)] = out
                cur = self.state.get(d)
                new = out if cur is None else cur.join(out)
                if cur is None or new != cur:
                    self.state[d] = new
                    if d not in work:
                        work.append(d)
        return self

    # -- queries ----------------------------------------------------------------------------------------------------------------
    def entails(self, node, lf):
        return self.entails_state(self.state.get(node), lf)

    def entails_edge(self, node, label, lf):
        sts = [s for (n, l, _d), s in self.edge.items() if n is node and l == label]
        return all(self.entails_state(s, lf) for s in sts)

    def describe(self, node):
        st = self.state.get(node)
        if st is None:
            return "unreachable"
        if st.bottom:
            return "bottom"
        out = []
        for r in st.rows:
            terms = ["%s*%s" % (c, self.vars[i] if i < len(self.vars) else "tmp") if c != 1 else (self.vars[i] if i < len(self.vars) else "tmp") for i, c in enumerate(r[:self.n]) if c != 0]
            out.append(" + ".join(terms) + " = %s" % r[self.n])
        return "; ".join(out)
