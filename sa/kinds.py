"""KIND analysis: local vs remote stream ids (DESIGN appendix B).  The tests use equal ids; this analysis does not."""
import ast

from .engine import terms
from .terms import show

L, Rk, ANY, MIXED, UNK = "L", "R", "ANY", "MIXED", "?"

# frozen slot table: (class or function suffix, parameter) -> kind
PARAM_KINDS = {
    ("_AdbTransactionInfo.__init__", "local_id"): L, ("_AdbTransactionInfo.__init__", "remote_id"): Rk,
    ("_AdbTransactionInfo.args_match", "arg0"): Rk, ("_AdbTransactionInfo.args_match", "arg1"): L,
}
for _m in ("put", "get", "clear", "find", "find_allow_zeros"):
    PARAM_KINDS[("_AdbPacketStore." + _m, "arg0")] = Rk
    PARAM_KINDS[("_AdbPacketStore." + _m, "arg1")] = L

# functions whose result is a device->host packet tuple (cmd, arg0: R, arg1: L, data)
PACKET_PRODUCERS = ("_read_packet_from_device", "_read_expected_packet_from_device", ".read", "_AdbPacketStore.get")
PAIR_PRODUCERS = ("_AdbPacketStore.find", "_AdbPacketStore.find_allow_zeros")


def param_kind(func, pname):
    for (suffix, p), k in PARAM_KINDS.items():
        if p == pname and func.qualname.endswith(suffix):
            return k
    return None


def kind_env(func):
    """Bindings of typed parameters to kind-carrying terms."""
    env = {}
    for p in func.params:
        k = param_kind(func, p)
        if k is not None:
            env[p] = ("K", k, p)
    return env


def _producer(name, producers):
    if not isinstance(name, str):
        return False
    for alt in name.split("|"):
        for p in producers:
            if p.startswith("."):
                if alt.endswith("_AdbIOManager" + p) or alt.endswith("_AdbIOManagerAsync" + p):
                    return True
            elif alt.endswith(p):
                return True
    return False


def join(kinds):
    ks = set(kinds) - {ANY}
    if not ks:
        return ANY
    if len(ks) == 1:
        return next(iter(ks))
    if UNK in ks and len(ks) == 2:
        return UNK
    return MIXED


def kind(t):
    k = t[0]
    if k == "K":
        return t[1]
    if k == "c":
        return ANY if (t[1] is None or isinstance(t[1], int)) else UNK
    if k == "attr":
        if t[2] in ("local_id", "_local_id"):
            return L
        if t[2] == "remote_id":
            return Rk
        return UNK
    if k == "phi":
        return join(kind(a) for a in t[1])
    if k == "ite":
        return join([kind(t[2]), kind(t[3])])
    if k == "op" and t[1] in ("+", "-", "%", "&"):
        return join([kind(t[2]), kind(t[3])])
    if k in ("MOD32",):
        return kind(t[1])
    if k in ("proj", "sub"):
        base, idx = t[1], t[2]
        if k == "sub":
            idx = idx[1] if idx[0] == "c" else None
        if base[0] == "phi":
            return join(kind((k, a, t[2])) for a in base[1])
        if base[0] == "call":
            if _producer(base[1], PACKET_PRODUCERS):
                return {1: Rk, 2: L}.get(idx, UNK)
            if _producer(base[1], PAIR_PRODUCERS):
                return {0: Rk, 1: L}.get(idx, UNK)
        if base[0] == "ite":
            return join([kind((k, base[2], t[2])), kind((k, base[3], t[2]))])
        # loop variables over the store's dict of dicts
        if base[0] == "item" and k == "proj" and idx == 0:
            lvl = dict_level(base[1])
            if lvl == 1:
                return L
            if lvl == 2:
                return Rk
        if base[0] == "tuple" and isinstance(idx, int) and idx + 1 < len(base):
            return kind(base[1 + idx])
        return UNK
    if k == "loop":
        return UNK
    return UNK


def dict_level(t):
    """1 if t iterates the outer store dict (keys are local ids), 2 if an inner dict (keys are remote ids), else 0.
    Accepts X.items() / X / X.keys() where X is self._dict (outer) or a value of it (inner)."""
    if t[0] == "call" and t[1] in (".items", ".keys") and t[2]:
        return _dict_obj_level(t[2][0])
    return _dict_obj_level(t)


def _dict_obj_level(t):
    if t[0] == "attr" and t[2] == "_dict":
        return 1
    if t[0] == "sub" and _dict_obj_level(t[1]) == 1:
        return 2
    if t[0] == "proj" and t[2] == 1 and t[1][0] == "item" and dict_level(t[1][1]) == 1:
        return 2
    if t[0] == "item" and t[1][0] == "call" and t[1][1] == ".values" and t[1][2] and _dict_obj_level(t[1][2][0]) == 1:
        return 2
    return 0


def expr_kind(ctx, func, node, expr):
    T = terms(ctx)
    t = T.term(func, node, expr, kind_env(func))
    return kind(t), t
