"""Small AST helpers shared by the rules."""
import ast

from .loader import walk_own, walk_expr
from .dataflow import key, varkey, unawait, strip_await


def src(node, limit=110):
    try:
        s = ast.unparse(strip_await(node))
    except Exception:   # noqa
        s = type(node).__name__
    s = " ".join(s.split())
    return s if len(s) <= limit else s[:limit - 3] + "..."


def norm_stmt(node):
    """Normalised statement text used in obligation keys (no positions, awaits erased, first line only)."""
    return src(node, 90)


def calls_in(node):
    """Call nodes inside an AST node (statement or expression), without entering nested defs/lambdas."""
    out = []
    for n in walk_expr(node) if isinstance(node, ast.expr) else _walk_stmt(node):
        if isinstance(n, ast.Call):
            out.append(n)
    return out


def _walk_stmt(st):
    stack = [st]
    while stack:
        n = stack.pop()
        yield n
        for c in ast.iter_child_nodes(n):
            if isinstance(c, (ast.FunctionDef, ast.AsyncFunctionDef, ast.ClassDef, ast.Lambda)):
                continue
            stack.append(c)


def node_calls(cfgnode):
    """Calls evaluated at a CFG node itself."""
    out = []
    for e in cfgnode.exprs():
        if isinstance(e, ast.stmt):
            # simple statement: walk it fully (it has no nested statements)
            out.extend(calls_in(e))
        else:
            out.extend(calls_in(e))
    return out


def call_attr(call):
    f = call.func
    if isinstance(f, ast.Attribute):
        return f.attr
    if isinstance(f, ast.Name):
        return f.id
    return None


def arg_of(call, index, name=None):
    """Positional argument `index` or keyword `name` of a call, else None."""
    if index is not None and index < len(call.args) and not any(isinstance(a, ast.Starred) for a in call.args[:index + 1]):
        return call.args[index]
    if name is not None:
        for k in call.keywords:
            if k.arg == name:
                return k.value
    return None


def const_name(expr, mod, pkg):
    """If expr denotes a module-level constant of the package return (modname, NAME) else None.
    Recognises `constants.X`, `X` imported from a package module, and module-local `X`."""
    expr = unawait(expr)
    if isinstance(expr, ast.Attribute) and isinstance(expr.value, ast.Name):
        r = pkg.resolve_import(mod, expr.value.id)
        if r and r[0] == "pkgmod" and expr.attr in r[1].assigns:
            return (r[1].name, expr.attr)
    if isinstance(expr, ast.Name):
        if expr.id in mod.assigns:
            return (mod.name, expr.id)
        r = pkg.resolve_import(mod, expr.id)
        if r and r[0] == "pkgattr" and r[2] in r[1].assigns:
            return (r[1].name, r[2])
    return None


def is_none(e):
    return isinstance(e, ast.Constant) and e.value is None


def stmts_of(func):
    """All statements of a function body (own, not nested defs)."""
    return [n for n in walk_own(func.node) if isinstance(n, ast.stmt)]


def own_calls(func):
    return [n for n in walk_own(func.node) if isinstance(n, ast.Call)]


def attr_writes(func):
    """[(varkey 'x.a', stmt, kind)] for attribute stores in func (assign/aug/subscript-store)."""
    out = []
    for n in walk_own(func.node):
        targets = []
        kind = None
        if isinstance(n, ast.Assign):
            targets, kind = list(n.targets), "assign"
        elif isinstance(n, ast.AugAssign):
            targets, kind = [n.target], "aug"
        elif isinstance(n, ast.AnnAssign):
            targets, kind = [n.target], "assign"
        elif isinstance(n, ast.Delete):
            targets, kind = list(n.targets), "del"
        elif isinstance(n, (ast.For, ast.AsyncFor)):
            targets, kind = [n.target], "for"
        elif isinstance(n, (ast.With, ast.AsyncWith)):
            targets, kind = [i.optional_vars for i in n.items if i.optional_vars is not None], "with"
        while targets:
            t = targets.pop()
            if isinstance(t, (ast.Tuple, ast.List)):
                targets.extend(t.elts)
            elif isinstance(t, ast.Starred):
                targets.append(t.value)
            elif isinstance(t, ast.Attribute):
                k = varkey(t)
                if k:
                    out.append((k, n, kind))
            elif isinstance(t, ast.Subscript):
                b = t
                while isinstance(b, ast.Subscript):
                    b = b.value
                k = varkey(b)
                if k and "." in k:
                    out.append((k, n, "item-" + kind))
    return out


def fold_cmd_list(T, func, node, expr):
    """Fold an expression that should be a list/tuple of command constants to a tuple of bytes, else None."""
    t = T.term(func, node, expr)
    return cmds_of_term(t)


def cmds_of_term(t):
    if t[0] == "c" and isinstance(t[1], (tuple, list)) and all(isinstance(x, bytes) for x in t[1]):
        return tuple(t[1])
    if t[0] in ("list", "tuple"):
        out = []
        for x in t[1:]:
            if x[0] == "c" and isinstance(x[1], bytes):
                out.append(x[1])
            else:
                return None
        return tuple(out)
    if t[0] == "CONCAT" or (t[0] == "op" and t[1] == "+"):
        parts = t[1:] if t[0] == "CONCAT" else t[2:]
        out = []
        for p in parts:
            c = cmds_of_term(p)
            if c is None:
                return None
            out.extend(c)
        return tuple(out)
    return None


def subst_copies(ctx, f, node, expr, predicates=False):
    """A copy of `expr` in which every local name that is (uniquely, at `node`) a plain copy of a variable or attribute chain is
    replaced by what it copies (`payload = msg.data; if payload:` reads as `if msg.data:`), provided the copied location has
    the same reaching definitions at the copy and at `node` (nothing wrote it in between)."""
    import copy as _copy
    df = ctx.df(f)
    expr = _copy.deepcopy(expr)

    def one(name):
        d = df.unique_def(node, name)
        if d is None or d.kind != "assign" or d.path or d.value is None:
            return None
        v = unawait(d.value)
        k = varkey(v)
        if not k and predicates:
            # a named predicate result (`is_dir = os.path.isdir(p)`, `is_io = isinstance(p, BytesIO)`, or a not/and/or combination of such): the
            # name stands for the test, as long as the arguments have not been assigned since
            def pure_call(c):
                if not (isinstance(c, ast.Call) and not c.keywords and all(isinstance(a, ast.Name) for a in c.args)):
                    return False
                fn_ = c.func
                return (isinstance(fn_, ast.Name) and fn_.id == "isinstance") or \
                    (isinstance(fn_, ast.Attribute) and isinstance(fn_.value, ast.Attribute) and isinstance(fn_.value.value, ast.Name) and fn_.value.value.id == "os" and fn_.value.attr == "path")

            def leaves(e):
                if isinstance(e, ast.BoolOp):
                    out = []
                    for x in e.values:
                        r = leaves(x)
                        if r is None:
                            return None
                        out += r
                    return out
                if isinstance(e, ast.UnaryOp) and isinstance(e.op, ast.Not):
                    return leaves(e.operand)
                return [e] if pure_call(e) else None
            ls = leaves(v)
            if ls and all(df.reaching(node, a.id) == df.reaching_out(d.node, a.id) for c in ls for a in c.args):
                return v
            return None
        if not k:
            return None
        if df.reaching(node, k) != df.reaching_out(d.node, k):
            return None
        base = k.split(".")[0]
        if df.reaching(node, base) != df.reaching_out(d.node, base):
            return None
        return v

    class Tr(ast.NodeTransformer):
        def visit_Name(self, n):
            if isinstance(n.ctx, ast.Load):
                for _ in range(3):
                    v = one(n.id) if isinstance(n, ast.Name) else None
                    if v is None:
                        break
                    n = _copy.deepcopy(v)
            return n
    return Tr().visit(expr)


def store_level(ctx, f, node, expr, attr="_dict", depth=0):
    """Nesting level of an expression inside the packet store's two-level dictionary: 0 = the outer dict (`self._dict`),
    1 = an inner dict (`self._dict[local]`), 2 = a queue (`self._dict[local][remote]`); None when it cannot be told.
    Follows subscripts, dict.get/setdefault/pop, local copies and `for k, v in d.items()` / `for v in d.values()` targets."""
    if depth > 6 or expr is None:
        return None
    e = unawait(expr)
    if isinstance(e, ast.Attribute) and e.attr == attr and isinstance(e.value, ast.Name) and f.params and e.value.id == f.params[0]:
        return 0
    if isinstance(e, ast.Subscript):
        b = store_level(ctx, f, node, e.value, attr, depth + 1)
        return None if b is None else b + 1
    if isinstance(e, ast.Call) and isinstance(e.func, ast.Attribute) and e.func.attr in ("get", "setdefault", "pop") and e.args:
        b = store_level(ctx, f, node, e.func.value, attr, depth + 1)
        return None if b is None or b >= 2 else b + 1
    if isinstance(e, ast.Name):
        df = ctx.df(f)
        ds = df.reaching(node, e.id) if node is not None else set()
        levels = set()
        for d in ds:
            if d.kind == "assign" and not d.path and d.value is not None:
                v = unawait(d.value)
                if isinstance(v, ast.Assign):
                    v = v.value
                levels.add(store_level(ctx, f, d.node, v, attr, depth + 1))
            elif d.kind in ("for", "iter") and d.value is not None:
                it = unawait(d.value)
                if isinstance(it, ast.Call) and isinstance(it.func, ast.Attribute) and it.func.attr in ("items", "values") and not it.args:
                    b = store_level(ctx, f, d.node, it.func.value, attr, depth + 1)
                    want = (1,) if it.func.attr == "items" else ()
                    levels.add(b + 1 if b is not None and tuple(d.path) == want else (None if tuple(d.path) == want or b is None else -1))
                else:
                    levels.add(None)
            else:
                levels.add(None)
        if len(levels) == 1:
            lv = levels.pop()
            return lv if lv is None or lv >= 0 else None
        return None
    return None


def bind_args(call, params):
    """{param: arg expr} for a call against an explicit parameter list (positional, then keywords); None on */** or a surplus."""
    if any(isinstance(a, ast.Starred) for a in call.args) or any(k.arg is None for k in call.keywords) or len(call.args) > len(params):
        return None
    b = dict(zip(params, call.args))
    for k in call.keywords:
        if k.arg not in params or k.arg in b:
            return None
        b[k.arg] = k.value
    return b


def lin_ast(e, acc, acc_len_atom="LEN"):
    """Linear form of an integer expression over names and len(<acc>): ({atom: coef}, const); None if not linear.
    Atoms: a variable name, or "LEN" for len(acc)."""
    e = unawait(e)
    if isinstance(e, ast.Constant) and isinstance(e.value, int) and not isinstance(e.value, bool):
        return {}, e.value
    if isinstance(e, ast.Name):
        return {e.id: 1}, 0
    if isinstance(e, ast.Call) and isinstance(e.func, ast.Name) and e.func.id == "len" and len(e.args) == 1 and not e.keywords:
        a0 = unawait(e.args[0])
        if acc is not None and varkey(a0) == acc:
            return {acc_len_atom: 1}, 0
        k = varkey(a0)
        return ({"len(%s)" % k: 1}, 0) if k else None
    if isinstance(e, ast.UnaryOp) and isinstance(e.op, ast.USub):
        r = lin_ast(e.operand, acc, acc_len_atom)
        return None if r is None else ({k: -v for k, v in r[0].items()}, -r[1])
    if isinstance(e, ast.BinOp) and isinstance(e.op, (ast.Add, ast.Sub)):
        x, y = lin_ast(e.left, acc, acc_len_atom), lin_ast(e.right, acc, acc_len_atom)
        if x is None or y is None:
            return None
        sg = 1 if isinstance(e.op, ast.Add) else -1
        out = dict(x[0])
        for k, v in y[0].items():
            out[k] = out.get(k, 0) + sg * v
        return {k: v for k, v in out.items() if v}, x[1] + sg * y[1]
    return None


def lin_add(a, b, sign=1):
    out = dict(a[0])
    for k, v in b[0].items():
        out[k] = out.get(k, 0) + sign * v
    return {k: v for k, v in out.items() if v}, a[1] + sign * b[1]




def path_conditions(ctx, f, node):
    """Tests decided on every path from the entry of f to `node`: -> list of (test expression, truth value).  A test counts
    when cutting its other edge out of the graph leaves `node` reachable but cutting this edge does not."""
    g = ctx.cfg(f)
    out = []
    for tn in g.live_nodes():
        if tn.kind != "test" or tn is node:
            continue
        labs = set(l for _d, l in g.succ[tn] if l in ("true", "false"))
        for lab in sorted(labs):
            r = g.reach([g.entry], exc=True, include_start=True, edge_filter=lambda s_, d_, l_, tn=tn, lab=lab: not (s_ is tn and l_ == lab))
            if node not in r:
                out.append((tn.ast.test, lab == "true"))
    return out


def decide_under(conds, formula):
    """Truth value of the propositional `formula` (an AST built from not/and/or over arbitrary atoms) on all valuations of the
    atoms that satisfy every (test, value) of `conds`; None when it is not determined (or there are too many atoms)."""
    import ast as _ast
    import itertools

    def atoms(e, acc):
        if isinstance(e, _ast.UnaryOp) and isinstance(e.op, _ast.Not):
            atoms(e.operand, acc)
        elif isinstance(e, _ast.BoolOp):
            for v in e.values:
                atoms(v, acc)
        elif isinstance(e, _ast.Constant) and isinstance(e.value, bool):
            pass
        else:
            acc.add(_ast.dump(e))

    def ev(e, val):
        if isinstance(e, _ast.UnaryOp) and isinstance(e.op, _ast.Not):
            return not ev(e.operand, val)
        if isinstance(e, _ast.BoolOp):
            rs = [ev(v, val) for v in e.values]
            return all(rs) if isinstance(e.op, _ast.And) else any(rs)
        if isinstance(e, _ast.Constant) and isinstance(e.value, bool):
            return e.value
        return val[_ast.dump(e)]
    acc = set()
    atoms(formula, acc)
    for t, _v in conds:
        atoms(t, acc)
    names = sorted(acc)
    if len(names) > 10:
        return None
    seen = set()
    for bits in itertools.product((False, True), repeat=len(names)):
        val = dict(zip(names, bits))
        if all(ev(t, val) == v for t, v in conds):
            seen.add(ev(formula, val))
    if len(seen) == 1:
        return next(iter(seen))
    return None


def equiv_under(conds, e1, e2):
    """Do the propositional formulas e1 and e2 have the same truth value on every valuation of the atoms that satisfies `conds`?"""
    import ast as _ast
    both = _ast.BoolOp(op=_ast.Or(), values=[_ast.BoolOp(op=_ast.And(), values=[e1, e2]),
                                               _ast.BoolOp(op=_ast.And(), values=[_ast.UnaryOp(op=_ast.Not(), operand=e1), _ast.UnaryOp(op=_ast.Not(), operand=e2)])])
    return decide_under(conds, both) is True


def always_reached(g, node, it=None):
    """`node` is executed on every normal (non-exception) path: before the function returns (it is None), or once in every iteration of the
    loop headed by `it` - and the loop itself is reached on every normal path."""
    if it is None:
        return g.dominates([node], g.exit, exc=False)
    starts = [d for d, l in g.succ[it] if l == "next"]
    r = g.reach(starts, avoid=[node], exc=False, include_start=True)
    return it not in r and g.exit not in r and g.dominates([it], g.exit, exc=False)


def swallowing_handlers(g, node):
    """Handlers of try statements whose body contains `node` and which can complete normally (the failure of node is swallowed)."""
    from .rules.c12 import handler_completes
    out = []
    for (t, region) in node.trys:
        if region != "body":
            continue
        for h in t.handlers:
            hn = [x for x in g.nodes_of(h) if x.kind == "except"]
            if hn and handler_completes(g, hn[0]):
                out.append(h)
    return out
