"""Static analysis of /repo/adb_shell for properties C01-C20 (see /verif/DESIGN.md).

Nothing from the analysed package is imported or executed: every verdict is computed
from the source text with the standard-library ``ast`` module.
"""
__version__ = "1.0"
