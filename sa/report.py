"""Obligation bookkeeping, known findings, evidence files, exit codes."""
import hashlib
import json
import os
import time

VERIF = os.path.dirname(os.path.dirname(os.path.abspath(__file__)))
EVIDENCE_DIR = os.environ.get("SA_EVIDENCE_DIR") or os.path.join(VERIF, "evidence")
KNOWN_FINDINGS = os.path.join(VERIF, "known_findings.json")


class Obligation(object):
    __slots__ = ("rule", "subject", "ok", "what", "loc", "trivial")

    def __init__(self, rule, subject, ok, what, loc, trivial=False):
        self.rule = rule
        self.subject = subject      # stable key: qualname | normalised construct (never a line number)
        self.ok = ok
        self.what = what
        self.loc = loc              # file:line for the reader only
        self.trivial = trivial      # anchor-existence style obligations

    @property
    def key(self):
        return "%s|%s" % (self.rule, self.subject)

    def as_dict(self):
        return {"rule": self.rule, "subject": self.subject, "verdict": "discharged" if self.ok else "violation",
                "what": self.what, "loc": self.loc}


class Report(object):
    def __init__(self, prop_id, tier="quick", seed=0):
        self.prop = prop_id
        self.tier = tier
        self.seed = seed
        self.obligations = []
        self.notes = []
        self.assumptions = []
        self.not_decided = []
        self.extra = {}
        self.t0 = time.time()
        self.rule_counts = {}
        self.count_failures = []

    # -- recording ----------------------------------------------------------
    def ok(self, rule, subject, what, loc="", trivial=False):
        self.obligations.append(Obligation(rule, subject, True, what, loc, trivial))
        return True

    def fail(self, rule, subject, what, loc=""):
        self.obligations.append(Obligation(rule, subject, False, what, loc))
        return False

    def check(self, cond, rule, subject, what_ok, what_bad=None, loc="", trivial=False):
        if cond:
            return self.ok(rule, subject, what_ok, loc, trivial)
        return self.fail(rule, subject, what_bad or ("NOT: " + what_ok), loc)

    def note(self, text):
        self.notes.append(text)

    def assume(self, text):
        if text not in self.assumptions:
            self.assumptions.append(text)

    def undecided(self, text):
        if text not in self.not_decided:
            self.not_decided.append(text)

    def count(self, rule, n, minimum):
        """Instance-count guard: a rule that matched fewer subjects than confirmed by reading cannot vouch."""
        self.rule_counts[rule] = n
        if n < minimum:
            # deferred: a tree that lost subjects AND shows a violation is reported as a violation (cli decides)
            self.count_failures.append((rule, "only %d subject(s) found, at least %d confirmed by reading - anchor lost" % (n, minimum)))

    def attempt(self, fn, *args, **kw):
        """Run one group of rules; an analysis error in it is deferred like a count guard (a violation found by another group
        is still reported; without any violation the run ends as an analysis error, never as a pass)."""
        from .loader import AnalysisError
        try:
            return fn(*args, **kw)
        except AnalysisError as e:
            self.count_failures.append((e.rule, e.reason))
            return None

    # -- results --------------------------------------------------------------
    def violations(self):
        return [o for o in self.obligations if not o.ok]


def load_known_findings():
    if not os.path.exists(KNOWN_FINDINGS):
        return {"known": [], "fixed": []}
    with open(KNOWN_FINDINGS) as f:
        return json.load(f)


def finish(rep, level, explanation, extra_cov=None, quiet=False):
    """Print verdict lines, write evidence, return exit code."""
    kf = load_known_findings()
    known_keys = {}
    for e in kf.get("known", []):
        if e.get("property") == rep.prop:
            known_keys[e["key"]] = e
    viols = rep.violations()
    new, known = [], []
    seen = set()
    for v in viols:
        if v.key in seen:
            continue
        seen.add(v.key)
        (known if v.key in known_keys else new).append(v)
    os.makedirs(os.path.join(EVIDENCE_DIR, "violations"), exist_ok=True)
    lines = []
    for v in known:
        lines.append("KNOWN-FINDING: property=%s %s [%s at %s]" % (rep.prop, known_keys[v.key].get("what", v.what), v.key, v.loc))
    for v in new:
        h = hashlib.sha1(v.key.encode()).hexdigest()[:10]
        path = os.path.join(EVIDENCE_DIR, "violations", "%s-%s.json" % (rep.prop, h))
        with open(path, "w") as f:
            json.dump({"property": rep.prop, "key": v.key, "rule": v.rule, "subject": v.subject, "what": v.what, "loc": v.loc,
                       "tier": rep.tier}, f, indent=1)
        lines.append("VIOLATION property=%s replay=%s  # %s %s: %s" % (rep.prop, path, v.loc, v.rule, v.what))
    n_ob = len(rep.obligations)
    n_ok = sum(1 for o in rep.obligations if o.ok)
    distinct = len(set(o.key for o in rep.obligations if not o.trivial))
    samples = []
    by_rule = {}
    for o in rep.obligations:
        by_rule.setdefault(o.rule, []).append(o)
    for r, obs in sorted(by_rule.items()):
        for o in obs[:2]:
            samples.append(o.as_dict())
    for v in viols:
        samples.append(v.as_dict())
    cov = {
        "explanation": explanation,
        "obligations": n_ob,
        "discharged": n_ok + len(known) * 0,
        "evaluations": n_ob,
        "distinct_nontrivial": distinct,
        "rule": "one obligation per (rule, subject) instance found in the current source; non-trivial = not a bare anchor-existence check; distinct by rule|subject key",
        "samples": samples[:60],
        "rules": {r: len(obs) for r, obs in sorted(by_rule.items())},
        "rule_subject_counts": rep.rule_counts,
        "known_findings": [v.key for v in known],
        "not_decided": rep.not_decided,
        "notes": rep.notes,
        "exhaustive": True,
    }
    # sibling cross-check: every obligation found in the sync device file has its counterpart in the async file and vice versa
    def _sib(k):
        for a_, b_ in (("adb_device_async.", "adb_device."), ("_AdbIOManagerAsync", "_AdbIOManager"), ("AdbDeviceTcpAsync", "AdbDeviceTcp"), ("AdbDeviceAsync", "AdbDevice"),
                       ("[async]", "[sync]"), ("tcp_transport_async.TcpTransportAsync", "tcp_transport.TcpTransport")):
            k = k.replace(a_, b_)
        return k
    sync_keys = set(o.key for o in rep.obligations if "adb_device." in o.key and "adb_device_async." not in o.key)
    async_keys = set(_sib(o.key) for o in rep.obligations if "adb_device_async." in o.key)
    if sync_keys or async_keys:
        cov["sibling_crosscheck"] = {"paired": len(sync_keys & async_keys), "only_sync": sorted(sync_keys - async_keys)[:10], "only_async": sorted(async_keys - sync_keys)[:10]}
    cov.update(rep.extra)
    if extra_cov:
        cov.update(extra_cov)
    ev = {
        "property_id": rep.prop,
        "tier": rep.tier,
        "seed": rep.seed,
        "level": level,
        "coverage": cov,
        "assumptions": rep.assumptions,
        "wall_s": round(time.time() - rep.t0, 3),
        "violations": len(new),
    }
    os.makedirs(EVIDENCE_DIR, exist_ok=True)
    tmp = os.path.join(EVIDENCE_DIR, "%s.json.tmp%d" % (rep.prop, os.getpid()))
    with open(tmp, "w") as f:
        json.dump(ev, f, indent=1, default=str)
    os.replace(tmp, os.path.join(EVIDENCE_DIR, "%s.json" % rep.prop))
    if not quiet:
        for l in lines:
            print(l)
        print("%s: %d obligations, %d discharged, %d known finding(s), %d violation(s) [%s tier, %.2fs]"
              % (rep.prop, n_ob, n_ok, len(known), len(new), rep.tier, time.time() - rep.t0))
    return (1 if new else 0), new, known
