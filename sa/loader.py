"""E0 - loader and symbol table: parse the package, index modules / classes / functions / imports."""
import ast
import hashlib
import os


class AnalysisError(Exception):
    """The analyser cannot vouch for a verdict (vanished anchor, unfoldable constant, unknown shape)."""

    def __init__(self, rule, reason):
        Exception.__init__(self, "%s: %s" % (rule, reason))
        self.rule = rule
        self.reason = reason


class Func(object):
    def __init__(self, mod, cls, node, parent=None):
        self.mod = mod
        self.cls = cls
        self.node = node
        self.name = node.name
        self.parent = parent
        self.is_async = isinstance(node, ast.AsyncFunctionDef)
        prefix = mod.name + "."
        if cls is not None:
            prefix += cls.name + "."
        if parent is not None:
            prefix = parent.qualname + ".<locals>."
        self.qualname = prefix + node.name
        a = node.args
        self.params = [x.arg for x in a.posonlyargs + a.args]
        self.kwonly = [x.arg for x in a.kwonlyargs]
        self.vararg = a.vararg.arg if a.vararg else None
        self.kwarg = a.kwarg.arg if a.kwarg else None
        self.defaults = {}
        for p, d in zip(reversed(a.posonlyargs + a.args), reversed(a.defaults)):
            self.defaults[p.arg] = d
        for p, d in zip(a.kwonlyargs, a.kw_defaults):
            if d is not None:
                self.defaults[p.arg] = d
        self.decorators = [dec_name(d) for d in node.decorator_list]

    @property
    def is_method(self):
        return self.cls is not None and self.parent is None

    @property
    def is_property(self):
        return "property" in self.decorators

    @property
    def is_generator(self):
        for n in walk_own(self.node):
            if isinstance(n, (ast.Yield, ast.YieldFrom)):
                return True
        return False

    @property
    def call_params(self):
        """Parameters as seen by a caller (``self``/``cls`` removed for methods)."""
        if self.is_method and "staticmethod" not in self.decorators and self.params:
            return self.params[1:]
        return list(self.params)

    def loc(self, node=None):
        n = node if node is not None else self.node
        return "%s:%d" % (self.mod.relpath, getattr(n, "lineno", 0))

    def __repr__(self):
        return "<Func %s>" % self.qualname


class Cls(object):
    def __init__(self, mod, node):
        self.mod = mod
        self.node = node
        self.name = node.name
        self.qualname = mod.name + "." + node.name
        self.bases = [dec_name(b) for b in node.bases]
        self.methods = {}
        self.class_assigns = {}   # name -> value expr (class-level assignments)

    def __repr__(self):
        return "<Cls %s>" % self.qualname


class Mod(object):
    def __init__(self, name, path, relpath, src):
        self.name = name
        self.path = path
        self.relpath = relpath
        self.src = src
        self.raw_tree = ast.parse(src, filename=path)
        self.tree = ast.parse(src, filename=path)
        self.canon_stats = {}
        self.canon_log = []

    def canonicalise(self):
        if os.environ.get("SA_NO_CANON") != "1":
            from .canon import canonicalise
            from .known_funcs import KNOWN
            canonicalise(self.tree, self.name, KNOWN, self.canon_stats, self.canon_log)
        self.funcs = {}       # local qualname ('f' or 'C.m') -> Func
        self.classes = {}     # name -> Cls
        self.imports = {}     # local name -> ('mod', dotted) | ('attr', dotted module, attr)
        self.assigns = {}     # module-level name -> list of value exprs (in order)
        self.all_funcs = []   # incl. nested


def dec_name(d):
    if isinstance(d, ast.Call):
        d = d.func
    parts = []
    while isinstance(d, ast.Attribute):
        parts.append(d.attr)
        d = d.value
    if isinstance(d, ast.Name):
        parts.append(d.id)
    return ".".join(reversed(parts))


def walk_own(fnode):
    """Walk the nodes of a function body without entering nested function/class definitions or lambdas."""
    stack = list(reversed(fnode.body)) if hasattr(fnode, "body") and isinstance(fnode.body, list) else [fnode]
    while stack:
        n = stack.pop()
        yield n
        if isinstance(n, (ast.FunctionDef, ast.AsyncFunctionDef, ast.ClassDef, ast.Lambda)):
            continue   # nested definitions are yielded (so callers can see them) but not entered
        for c in reversed(list(ast.iter_child_nodes(n))):
            stack.append(c)


def walk_expr(e):
    """Walk an expression without entering lambdas."""
    stack = [e]
    while stack:
        n = stack.pop()
        yield n
        for c in ast.iter_child_nodes(n):
            if isinstance(c, ast.Lambda):
                continue
            stack.append(c)


class Pkg(object):
    """The parsed package.  ``root`` is the repository root, the package is ``<root>/adb_shell``."""

    PKGNAME = "adb_shell"

    def __init__(self, root):
        self.root = root
        self.pkgdir = os.path.join(root, self.PKGNAME)
        if not os.path.isdir(self.pkgdir):
            raise AnalysisError("E0", "package directory %s is missing" % self.pkgdir)
        self.mods = {}
        self.funcs = {}     # qualname -> Func
        self.classes = {}   # qualname -> Cls
        h = hashlib.sha256()
        files = []
        for dirpath, dirnames, filenames in os.walk(self.pkgdir):
            dirnames[:] = sorted(d for d in dirnames if d != "__pycache__")
            for fn in sorted(filenames):
                if fn.endswith(".py"):
                    files.append(os.path.join(dirpath, fn))
        for path in files:
            rel = os.path.relpath(path, self.pkgdir)
            name = rel[:-3].replace(os.sep, ".")
            if name.endswith("__init__"):
                name = name[:-len("__init__")].rstrip(".") or "__init__"
            with open(path, "rb") as f:
                raw = f.read()
            h.update(rel.encode() + b"\0" + raw)
            try:
                src = raw.decode("utf-8")
                mod = Mod(name, path, os.path.join(self.PKGNAME, rel), src)
            except (SyntaxError, UnicodeDecodeError) as e:
                raise AnalysisError("E0", "cannot parse %s: %s" % (rel, e))
            self.mods[name] = mod
        from . import canon as _canon
        self.renames = []
        if os.environ.get("SA_NO_CANON") != "1":
            from .rename import canonical_names
            self.renames = canonical_names({name: m.tree for name, m in self.mods.items()})
            _canon.struct_objects({name: m.tree for name, m in self.mods.items()})
        _canon.NONNULL_CONSTS.clear()
        cm = self.mods.get("constants")
        if cm is not None:
            import ast as _ast
            once = {}
            for st in cm.tree.body:
                if isinstance(st, _ast.Assign) and len(st.targets) == 1 and isinstance(st.targets[0], _ast.Name):
                    once.setdefault(st.targets[0].id, []).append(st.value)
            for name, vals in once.items():
                if len(vals) == 1 and isinstance(vals[0], (_ast.Constant, _ast.Dict, _ast.List, _ast.Tuple, _ast.Set)) and not (isinstance(vals[0], _ast.Constant) and vals[0].value is None):
                    _canon.NONNULL_CONSTS.add(_canon._dump(_ast.Attribute(value=_ast.Name(id="constants", ctx=_ast.Load()), attr=name, ctx=_ast.Load())))
        _canon.SIGS.clear()
        _canon.SIGS.update(_canon.build_signatures([m.tree for m in self.mods.values()]))
        _canon.CLASS_METHODS.clear()
        _canon.CLASS_METHODS.update(_canon.build_class_methods([m.tree for m in self.mods.values()]))
        _canon.RET_ARITY.clear()
        _canon.RET_ARITY.update(_canon.build_ret_arity([m.tree for m in self.mods.values()]))
        _canon.NONNULL_LIST_PARAMS.clear()
        _canon.NONNULL_LIST_PARAMS.update(_canon.build_nonnull_list_params([m.tree for m in self.mods.values()]))
        from .known_funcs import KNOWN as _KNOWN
        _canon.FOREIGN_HOME_MODULES.clear()
        _canon.FOREIGN_HOME_MODULES.update(n for n in self.mods if "." not in n)
        _canon.FOREIGN_INLINED.clear()
        _canon.FOREIGN.clear()
        _canon.FOREIGN.update(_canon.build_foreign({name: m.tree for name, m in self.mods.items()}, _KNOWN))
        from .nullness import Nullness as _Nullness
        try:
            _canon.NULLNESS = _Nullness({name: m.tree for name, m in self.mods.items()})
        except RecursionError:
            _canon.NULLNESS = None
        for mod in self.mods.values():
            mod.canonicalise()
        if os.environ.get("SA_NO_CANON") != "1":
            _canon.drop_dead_foreign({name: m.tree for name, m in self.mods.items()}, [m.canon_log for m in self.mods.values()])
        for mod in self.mods.values():
            self._index(mod)
        self.digest = h.hexdigest()

    # ------------------------------------------------------------------
    def _index(self, mod):
        def add_func(node, cls, parent):
            f = Func(mod, cls, node, parent)
            mod.all_funcs.append(f)
            self.funcs[f.qualname] = f
            if parent is None:
                key = (cls.name + "." if cls else "") + node.name
                mod.funcs[key] = f
                if cls is not None:
                    cls.methods[node.name] = f
            for n in walk_own(node):
                if isinstance(n, (ast.FunctionDef, ast.AsyncFunctionDef)):
                    add_func(n, cls, f)
            return f

        def visit_block(stmts, cls):
            for st in stmts:
                if isinstance(st, (ast.FunctionDef, ast.AsyncFunctionDef)):
                    add_func(st, cls, None)
                elif isinstance(st, ast.ClassDef) and cls is None:
                    c = Cls(mod, st)
                    mod.classes[st.name] = c
                    self.classes[c.qualname] = c
                    visit_block(st.body, c)
                elif isinstance(st, ast.Assign):
                    for t in st.targets:
                        if isinstance(t, ast.Name):
                            if cls is None:
                                mod.assigns.setdefault(t.id, []).append(st.value)
                            else:
                                cls.class_assigns[t.id] = st.value
                        elif isinstance(t, (ast.Tuple, ast.List)) and cls is None and all(isinstance(e, ast.Name) for e in t.elts):
                            # `A, B = <expr>` at module level: A is <expr>[0], B is <expr>[1] (for the constant folder)
                            for k, e in enumerate(t.elts):
                                sub = ast.Subscript(value=st.value, slice=ast.Constant(value=k), ctx=ast.Load())
                                ast.copy_location(sub, st.value)
                                ast.fix_missing_locations(sub)
                                mod.assigns.setdefault(e.id, []).append(sub)
                elif isinstance(st, (ast.Import, ast.ImportFrom)) and cls is None:
                    self._imports(mod, st)
                elif isinstance(st, (ast.Try, ast.If)) and cls is None:
                    # conditional imports / fallbacks at module level
                    for blk in (st.body, getattr(st, "orelse", []), getattr(st, "finalbody", [])):
                        visit_block_soft(blk)
                    for h in getattr(st, "handlers", []):
                        visit_block_soft(h.body)

        def visit_block_soft(stmts):
            """Module-level conditional blocks: first binding wins for imports; assignments recorded."""
            for st in stmts:
                if isinstance(st, (ast.Import, ast.ImportFrom)):
                    self._imports(mod, st, soft=True)
                elif isinstance(st, ast.Assign):
                    for t in st.targets:
                        if isinstance(t, ast.Name):
                            mod.assigns.setdefault(t.id, []).append(st.value)
                elif isinstance(st, (ast.Try, ast.If)):
                    for blk in (st.body, getattr(st, "orelse", []), getattr(st, "finalbody", [])):
                        visit_block_soft(blk)
                    for h in getattr(st, "handlers", []):
                        visit_block_soft(h.body)
                elif isinstance(st, ast.ClassDef):
                    pass

        visit_block(mod.tree.body, None)

    def _imports(self, mod, st, soft=False):
        def absmod(level, module):
            if level == 0:
                return module or ""
            parts = mod.name.split(".") if mod.name != "__init__" else []
            # module 'transport.tcp_transport' lives in package 'transport'
            base = parts[:-1] if parts else []
            for _ in range(level - 1):
                base = base[:-1]
            tail = (module or "").split(".") if module else []
            return "~" + ".".join(base + tail)   # '~' marks package-relative

        if isinstance(st, ast.Import):
            for a in st.names:
                local = a.asname or a.name.split(".")[0]
                target = a.name if a.asname else a.name.split(".")[0]
                if soft and local in mod.imports:
                    continue
                mod.imports[local] = ("mod", target)
        else:
            m = absmod(st.level, st.module)
            for a in st.names:
                local = a.asname or a.name
                if soft and local in mod.imports:
                    continue
                mod.imports[local] = ("attr", m, a.name)

    # ------------------------------------------------------------------
    def mod(self, name):
        if name not in self.mods:
            raise AnalysisError("E0", "module %s not found in package" % name)
        return self.mods[name]

    def func(self, qualname, required=True):
        f = self.funcs.get(qualname)
        if f is None and required:
            raise AnalysisError("E0", "anchor function %s not found" % qualname)
        return f

    def cls(self, qualname, required=True):
        c = self.classes.get(qualname)
        if c is None and required:
            raise AnalysisError("E0", "anchor class %s not found" % qualname)
        return c

    def resolve_import(self, mod, local):
        """Return ('pkgmod', Mod) | ('pkgattr', Mod, attr) | ('ext', dotted) | None for a local name."""
        imp = mod.imports.get(local)
        if imp is None:
            return None
        if imp[0] == "mod":
            return ("ext", imp[1])
        _, m, attr = imp
        if m.startswith("~"):
            base = m[1:]
            cand = (base + "." + attr).strip(".")
            if cand in self.mods:
                return ("pkgmod", self.mods[cand])
            if base in self.mods:
                return ("pkgattr", self.mods[base], attr)
            if base == "" and "__init__" in self.mods:
                return ("pkgattr", self.mods["__init__"], attr)
            return ("ext", m + "." + attr)
        return ("ext", m + "." + attr)

    def mro(self, cls):
        """Linearised list of package classes (cls first, then bases found in the package, depth-first)."""
        out, seen, stack = [], set(), [cls]
        while stack:
            c = stack.pop(0)
            if c.qualname in seen:
                continue
            seen.add(c.qualname)
            out.append(c)
            for b in c.bases:
                bc = self.resolve_class(c.mod, b)
                if bc is not None:
                    stack.append(bc)
        return out

    def resolve_class(self, mod, name):
        name = name.split(".")[-1] if "." in name and name.split(".")[0] not in mod.imports else name
        if name in mod.classes:
            return mod.classes[name]
        r = self.resolve_import(mod, name)
        if r and r[0] == "pkgattr":
            return r[1].classes.get(r[2])
        return None

    def find_method(self, cls, name):
        for c in self.mro(cls):
            if name in c.methods:
                return c.methods[name]
        return None

    def device_files(self):
        """The sync and the async device modules that exist, as (tag, Mod)."""
        out = []
        for tag, name in (("sync", "adb_device"), ("async", "adb_device_async")):
            if name in self.mods:
                out.append((tag, self.mods[name]))
        if len(out) != 2:
            raise AnalysisError("E0", "device modules adb_device / adb_device_async not both present")
        return out
