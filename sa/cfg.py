"""E2 - statement-level control-flow graph per function, dominators, path queries.

Conventions (DESIGN.md appendix D): one node per simple statement; `if`/`while` get a TEST node with
true/false edges; `for` gets an ITER node with next/exhausted edges; `with` gets one ENTER node per item and one
EXIT node; `try/finally` bodies are duplicated per continuation (normal, exceptional, return/break/continue);
exceptional edges exist only from nodes lexically inside a `try` body (to the handlers / the exceptional copy of
`finally`) and from `raise` statements (to the innermost handler or the RAISE exit).
"""
import ast


class Node(object):
    __slots__ = ("id", "kind", "ast", "func", "withs", "loops", "trys", "label", "item", "copy_of")

    def __init__(self, nid, kind, astnode, func, withs, loops, trys, label=None, item=None):
        self.id = nid
        self.kind = kind
        self.ast = astnode
        self.func = func
        self.withs = withs      # tuple of enclosing WITH-ENTER nodes (outermost first)
        self.loops = loops      # tuple of enclosing loop head nodes (outermost first)
        self.trys = trys        # tuple of (ast.Try, region) with region in body/handler/orelse/final
        self.label = label
        self.item = item        # for WITH-ENTER: the ast.withitem
        self.copy_of = None

    @property
    def lineno(self):
        return getattr(self.ast, "lineno", 0) if self.ast is not None else 0

    def __repr__(self):
        return "<%s#%d L%s>" % (self.kind, self.id, self.lineno)

    def exprs(self):
        """The expressions evaluated *at* this node (not those of nested statements)."""
        a = self.ast
        k = self.kind
        if k == "stmt":
            return [a]
        if k == "test":
            return [a.test]
        if k == "iter":
            return [a.iter]
        if k == "with":
            return [self.item.context_expr]
        if k == "except":
            return [a.type] if a.type is not None else []
        return []


class CFG(object):
    def __init__(self, func):
        self.func = func
        self.nodes = []
        self.succ = {}
        self.pred = {}
        self.entry = self._new("entry", None, (), (), ())
        self.exit = self._new("exit", None, (), (), ())
        self.raise_exit = self._new("raise", None, (), (), ())
        self.by_ast = {}      # id(ast stmt) -> [nodes]

    def _new(self, kind, astnode, withs, loops, trys, label=None, item=None):
        n = Node(len(self.nodes), kind, astnode, self.func, withs, loops, trys, label, item)
        self.nodes.append(n)
        self.succ[n] = []
        self.pred[n] = []
        if astnode is not None:
            self.by_ast.setdefault(id(astnode), []).append(n)
        return n

    def edge(self, a, b, label="next"):
        for (d, l) in self.succ[a]:
            if d is b and l == label:
                return
        self.succ[a].append((b, label))
        self.pred[b].append((a, label))

    # -- queries ----------------------------------------------------------
    def successors(self, n, exc=True):
        for d, l in self.succ[n]:
            if exc or l != "exc":
                yield d, l

    def reach(self, starts, avoid=(), exc=True, edge_filter=None, include_start=False):
        """Nodes reachable from ``starts`` (iterable of nodes) by >=1 edge (or 0 if include_start),
        never passing *through* a node in ``avoid`` (avoid nodes are not entered)."""
        avoid = set(avoid)
        seen = set()
        stack = []
        for s in starts:
            if s in avoid and include_start:
                continue            # a start node that is itself to be avoided contributes nothing
            if include_start:
                seen.add(s)
            stack.append(s)
        expanded = set()
        while stack:
            n = stack.pop()
            if n in expanded:
                continue
            expanded.add(n)
            for d, l in self.succ[n]:
                if not exc and l == "exc":
                    continue
                if edge_filter is not None and not edge_filter(n, d, l):
                    continue
                if d in avoid:
                    continue
                if d not in seen:
                    seen.add(d)
                stack.append(d)
        return seen

    def reach_from_edge(self, src, label, avoid=(), exc=True):
        """Nodes reachable starting with the edge(s) (src, label)."""
        starts = [d for d, l in self.succ[src] if l == label]
        avoid = set(avoid)
        out = set()
        for s in starts:
            if s in avoid:
                continue
            out.add(s)
            out |= self.reach([s], avoid=avoid, exc=exc)
        return out

    def in_cycle(self, n):
        """Can n execute more than once per call (is it on a cycle of the graph)?  A statement written inside a loop body that only
        leads out of the function is not."""
        return n in self.reach([n], exc=True)

    def dominates(self, a_set, b, exc=True):
        """True iff every path entry->b passes through some node of a_set (b itself not in a_set counts as not)."""
        a_set = set(a_set)
        if b in a_set:
            return True
        r = self.reach([self.entry], avoid=a_set, exc=exc, include_start=True)
        return b not in r

    def postdominates(self, a_set, b, exc=False, exits=None):
        """True iff every path from b to a normal exit passes through a node of a_set."""
        a_set = set(a_set)
        if b in a_set:
            return True
        exits = exits if exits is not None else [self.exit]
        r = self.reach([b], avoid=a_set, exc=exc)
        return not any(x in r for x in exits)

    def nodes_of(self, astnode):
        return self.by_ast.get(id(astnode), [])

    def stmt_nodes(self):
        return [n for n in self.nodes if n.kind in ("stmt", "test", "iter", "with", "except")]

    def live_nodes(self):
        r = self.reach([self.entry], include_start=True)
        return [n for n in self.nodes if n in r]


class _Builder(object):
    def __init__(self, func):
        self.func = func
        self.g = CFG(func)
        self.withs = ()
        self.loops = ()
        self.trys = ()
        self.loop_stack = []     # dicts: head, breaks (dangling list), fin_depth
        self.exc_stack = []      # dicts: handlers [nodes], catch_all, final (stmts|None), try (ast.Try)
        self.fin_stack = []      # dicts: final stmts, ctx snapshot, try

    def new(self, kind, astnode, label=None, item=None):
        return self.g._new(kind, astnode, self.withs, self.loops, self.trys, label, item)

    def connect(self, preds, node):
        for (p, l) in preds:
            self.g.edge(p, node, l)

    # -- exceptional continuation --------------------------------------------
    def exc_targets(self, preds_node):
        """Add exc edges from preds_node to the active handlers / exceptional finally copies."""
        i = len(self.exc_stack) - 1
        node_preds = [(preds_node, "exc")]
        while i >= 0:
            fr = self.exc_stack[i]
            if fr.get("entered_handlers"):
                # we are inside a handler/orelse of this try: its handlers do not apply, only its finally
                if fr["final"] is not None:
                    node_preds = self._exc_finally(fr, node_preds)
                i -= 1
                continue
            for h in fr["handlers"]:
                self.connect(node_preds, h)
            if fr["handlers"] and fr["catch_all"]:
                return
            if fr["final"] is not None:
                node_preds = self._exc_finally(fr, node_preds)
            i -= 1
        self.connect(node_preds, self.g.raise_exit)

    def _exc_finally(self, fr, preds):
        # one shared exceptional copy per try frame
        if fr.get("exc_final_entry") is None:
            saved = self._save()
            self._restore(fr["ctx"])
            self.trys = fr["ctx"]["trys"] + ((fr["try"], "final"),)
            marker = self.new("finally_exc", fr["try"], label="finally(exc)")
            out = self.block(fr["final"], [(marker, "next")])
            self._restore(saved)
            fr["exc_final_entry"] = marker
            fr["exc_final_out"] = out
        self.connect(preds, fr["exc_final_entry"])
        return [(p, "exc") for (p, _l) in fr["exc_final_out"]]

    def _save(self):
        return {"withs": self.withs, "loops": self.loops, "trys": self.trys,
                "loop_stack": list(self.loop_stack), "exc_stack": list(self.exc_stack), "fin_stack": list(self.fin_stack)}

    def _restore(self, s):
        self.withs, self.loops, self.trys = s["withs"], s["loops"], s["trys"]
        self.loop_stack, self.exc_stack, self.fin_stack = list(s["loop_stack"]), list(s["exc_stack"]), list(s["fin_stack"])

    def run_finallies(self, preds, down_to):
        """Thread ``preds`` through copies of the pending finally bodies (innermost first) until depth down_to."""
        i = len(self.fin_stack) - 1
        while i >= down_to:
            fr = self.fin_stack[i]
            saved = self._save()
            self._restore(fr["ctx"])
            self.trys = fr["ctx"]["trys"] + ((fr["try"], "final"),)
            preds = self.block(fr["final"], preds)
            self._restore(saved)
            i -= 1
        return preds

    # -- statements ------------------------------------------------------------
    def block(self, stmts, preds):
        for st in stmts:
            preds = self.stmt(st, preds)
        return preds

    def stmt(self, st, preds):
        g = self.g
        if isinstance(st, (ast.FunctionDef, ast.AsyncFunctionDef, ast.ClassDef)):
            n = self.new("stmt", st, label="def")
            self.connect(preds, n)
            return [(n, "next")]
        if isinstance(st, ast.If):
            t = self.new("test", st)
            self.connect(preds, t)
            self._may_raise(t)
            out = self.block(st.body, [(t, "true")])
            out += self.block(st.orelse, [(t, "false")])
            return out
        if isinstance(st, ast.While):
            t = self.new("test", st)
            self.connect(preds, t)
            self._may_raise(t)
            fr = {"head": t, "breaks": [], "fin_depth": len(self.fin_stack)}
            self.loop_stack.append(fr)
            old = self.loops
            self.loops = old + (t,)
            body_out = self.block(st.body, [(t, "true")])
            self.loops = old
            self.loop_stack.pop()
            self.connect(body_out, t)
            const_true = isinstance(st.test, ast.Constant) and bool(st.test.value)
            out = [] if const_true else [(t, "false")]
            out = self.block(st.orelse, out) if st.orelse else out
            return out + fr["breaks"]
        if isinstance(st, (ast.For, ast.AsyncFor)):
            t = self.new("iter", st)
            self.connect(preds, t)
            self._may_raise(t)
            fr = {"head": t, "breaks": [], "fin_depth": len(self.fin_stack)}
            self.loop_stack.append(fr)
            old = self.loops
            self.loops = old + (t,)
            body_out = self.block(st.body, [(t, "next")])
            self.loops = old
            self.loop_stack.pop()
            self.connect(body_out, t)
            out = [(t, "exhausted")]
            out = self.block(st.orelse, out) if st.orelse else out
            return out + fr["breaks"]
        if isinstance(st, (ast.With, ast.AsyncWith)):
            old = self.withs
            enters = []
            for item in st.items:
                n = self.new("with", st, item=item)
                self.connect(preds, n)
                self._may_raise(n)
                preds = [(n, "next")]
                enters.append(n)
                self.withs = self.withs + (n,)
            body_out = self.block(st.body, preds)
            self.withs = old
            x = self.new("withexit", st)
            self.connect(body_out, x)
            return [(x, "next")]
        if isinstance(st, ast.Try) or (hasattr(ast, "TryStar") and isinstance(st, getattr(ast, "TryStar"))):
            return self._try(st, preds)
        if isinstance(st, ast.Match):
            # not used by the package; treat as an opaque branching statement
            n = self.new("stmt", st, label="match")
            self.connect(preds, n)
            out = []
            for case in st.cases:
                out += self.block(case.body, [(n, "case")])
            return out + [(n, "nomatch")]
        # simple statements
        n = self.new("stmt", st)
        self.connect(preds, n)
        if isinstance(st, ast.Return):
            self._may_raise(n)
            p = self.run_finallies([(n, "return")], 0)
            self.connect(p, g.exit)
            return []
        if isinstance(st, ast.Raise):
            self.exc_targets(n)
            return []
        if isinstance(st, ast.Break):
            fr = self.loop_stack[-1]
            p = self.run_finallies([(n, "break")], fr["fin_depth"])
            fr["breaks"] += p
            return []
        if isinstance(st, ast.Continue):
            fr = self.loop_stack[-1]
            p = self.run_finallies([(n, "continue")], fr["fin_depth"])
            self.connect(p, fr["head"])
            return []
        if not isinstance(st, (ast.Pass, ast.Global, ast.Nonlocal)):
            self._may_raise(n)
        return [(n, "next")]

    def _may_raise(self, n):
        if self.exc_stack:
            # only inside try constructs do implicit exceptions matter to the rules
            if any(not fr.get("entered_handlers") or fr["final"] is not None for fr in self.exc_stack):
                self.exc_targets(n)

    def _try(self, st, preds):
        ctx = self._save()
        handlers = []
        catch_all = False
        fr = {"handlers": handlers, "catch_all": False, "final": st.finalbody or None, "try": st, "ctx": ctx}
        # create handler entry nodes first (in the outer lexical context, region 'handler')
        old_trys = self.trys
        self.trys = old_trys + ((st, "handler"),)
        for h in st.handlers:
            hn = self.new("except", h)
            handlers.append(hn)
            if h.type is None:
                catch_all = True
            else:
                names = [h.type] if not isinstance(h.type, ast.Tuple) else list(h.type.elts)
                for t in names:
                    if isinstance(t, ast.Name) and t.id in ("Exception", "BaseException"):
                        catch_all = True
        self.trys = old_trys
        fr["catch_all"] = catch_all
        if st.finalbody:
            self.fin_stack.append({"final": st.finalbody, "ctx": ctx, "try": st})
        self.exc_stack.append(fr)
        self.trys = old_trys + ((st, "body"),)
        body_out = self.block(st.body, preds)
        # orelse and handlers: exceptions there are not caught by this try's handlers
        fr["entered_handlers"] = True
        self.trys = old_trys + ((st, "orelse"),)
        out = self.block(st.orelse, body_out) if st.orelse else body_out
        self.trys = old_trys + ((st, "handler"),)
        for h, hn in zip(st.handlers, handlers):
            out = out + self.block(h.body, [(hn, "next")])
        self.trys = old_trys
        self.exc_stack.pop()
        if st.finalbody:
            self.fin_stack.pop()
            self.trys = old_trys + ((st, "final"),)
            out = self.block(st.finalbody, out)
            self.trys = old_trys
        return out

    def build(self):
        g = self.g
        out = self.block(self.func.node.body, [(g.entry, "next")])
        self.connect(out, g.exit)
        return g


_CACHE = {}


def cfg_of(func):
    g = _CACHE.get(id(func))
    if g is None or g.func is not func:
        g = _Builder(func).build()
        _CACHE[id(func)] = g
    return g


def clear_cache():
    _CACHE.clear()


def dump(g):
    lines = []
    for n in g.nodes:
        txt = ""
        if n.ast is not None and n.kind in ("stmt", "test", "iter", "with", "except"):
            try:
                src = ast.unparse(n.exprs()[0]) if n.exprs() else ""
            except Exception:   # noqa
                src = "?"
            txt = src.split("\n")[0][:70]
        lines.append("%3d %-9s L%-5s %-72s -> %s" % (n.id, n.kind, n.lineno, txt, ", ".join("%d:%s" % (d.id, l) for d, l in g.succ[n])))
    return "\n".join(lines)
