"""C18 - TCP transports honour the transport contract on real sockets.

Decided (pass-through and mapping rules on both TCP transports): bulk_read hands the requested size to the one
library receive call unchanged and returns that call's value unchanged (so never more than requested, nothing
dropped or duplicated by the transport itself); the timeout reaches select / async_timeout unchanged; the timeout
exception is TcpTimeoutException, raised exactly on the not-ready branch / in the asyncio.TimeoutError handler and
nothing else is swallowed; close() is a no-op when not connected and resets the handle(s) (idempotent, C12);
connect() binds a fresh handle unconditionally.  Not decided: wall-clock bounds, OS fragmentation, loopback sessions.
"""
import ast

from ..loader import AnalysisError
from ..dataflow import key, varkey, unawait
from ..engine import terms
from ..terms import show
from ..util import src, node_calls, call_attr, norm_stmt, attr_writes
from .c12 import handler_completes

LEVEL = "other"


def _no_redef(ctx, R, f, param, rule):
    df = ctx.df(f)
    g = df.g
    for n in g.nodes:
        for d in df.node_defs.get(n, []):
            if d.var == param and n is not g.entry:
                R.fail(rule, "%s|%s-rebound" % (f.qualname, param), "`%s` is modified before use (`%s`)" % (param, norm_stmt(n.ast)), f.loc(n.ast))
                return False
    return True


def check(ctx, R):
    T = terms(ctx)
    _sync(ctx, R, T)
    _async(ctx, R, T)
    # "a whole device session over loopback gives the same results as over the in-memory transport": what a real socket adds are short writes
    # and fragmented reads; the device side copes with them through the write-all loop (C15's rule) and the read-exactly primitive (C03's rule)
    from .c15 import transport_write_sites, writeall_shape
    for f_, n_, c_ in transport_write_sites(ctx):
        ok_, why_, _info = writeall_shape(ctx, f_, n_, c_)
        R.check(ok_, "RET", "%s|%s" % (f_.qualname, norm_stmt(n_.ast)), why_, why_, f_.loc(n_.ast))
    from ..roles import all_roles
    from .c03 import _read_exact
    for roles in all_roles(ctx):
        _read_exact(ctx, R, roles, T)
    from .c12 import _transport_close
    _transport_close(ctx, R, only=("transport.tcp_transport.TcpTransport", "transport.tcp_transport_async.TcpTransportAsync"))   # close is idempotent, a closed transport can connect again
    # a fresh transport is "not connected": its handle attributes exist and are None, so close() before any connect() is a no-op
    for cq, attrs in (("transport.tcp_transport.TcpTransport", ("_connection",)), ("transport.tcp_transport_async.TcpTransportAsync", ("_reader", "_writer"))):
        cls = ctx.pkg.cls(cq)
        init = cls.methods["__init__"]
        b = {p: ("p", p) for p in init.params[1:]}
        obj = ("new", cls.qualname, tuple(sorted(b.items())))
        for a in attrs:
            ws = [st for (k, st, kind) in attr_writes(init) if k == init.params[0] + "." + a]
            val = T.term(init, ctx.cfg(init).nodes_of(ws[0])[0], ws[0].value) if len(ws) == 1 and isinstance(ws[0], ast.Assign) and ctx.cfg(init).nodes_of(ws[0]) else ("missing",)
            R.check(val == ("c", None), "CLOSE", "%s.__init__|%s" % (cq, a), "`%s` starts as None" % a,
                    "`%s` is not initialised to None by the constructor: close() (which AdbDevice.connect() calls first) fails on a fresh transport" % a, init.loc())
    # async close really closes: writer.close() and wait_closed() under the connected guard
    fa = ctx.pkg.cls("transport.tcp_transport_async.TcpTransportAsync").methods["close"]
    ga = ctx.cfg(fa)
    dfa = ctx.df(fa)

    def is_writer(node, e):
        e = unawait(e)
        if varkey(e) == fa.params[0] + "._writer":
            return True
        if isinstance(e, ast.Name):
            # a snapshot taken in this method: `writer = self._writer`
            d = dfa.unique_def(node, e.id)
            return d is not None and d.kind == "assign" and not d.path and d.value is not None and varkey(unawait(d.value)) == fa.params[0] + "._writer"
        return False
    calls = [call_attr(c) for n in ga.live_nodes() for c in node_calls(n) if isinstance(c.func, ast.Attribute) and is_writer(n, c.func.value)]
    R.check(calls == ["close", "wait_closed"], "CLOSE", fa.qualname + "|closes-writer", "the stream writer is closed and awaited", "async close() calls %s on the writer, expected close() then wait_closed()" % calls, fa.loc())
    # the address a session goes to: (host, port) stored unchanged and forwarded unchanged by the TCP device classes
    from ..argrule import arg_rule
    for cq in ("transport.tcp_transport.TcpTransport", "transport.tcp_transport_async.TcpTransportAsync"):
        cls = ctx.pkg.cls(cq)
        init = cls.methods["__init__"]
        b = {p: ("p", p) for p in init.params[1:]}
        obj = ("new", cls.qualname, tuple(sorted(b.items())))
        R.check(T.attr(obj, "_host") == ("p", "host") and T.attr(obj, "_port") == ("p", "port"), "ADDR", cq, "host and port are stored unchanged",
                "the transport stores host=%s port=%s" % (show(T.attr(obj, "_host")), show(T.attr(obj, "_port"))), init.loc())
        okd, dv = ctx.fold.try_eval(init.defaults.get("port", ast.Constant(value=None)), init.mod, {})
        R.check(okd and dv == 5555, "ADDR", cq + "|default-port", "default port 5555", "default ADB port is %r" % (dv,), init.loc())
    for fq, tname in (("adb_device.AdbDeviceTcp.__init__", "TcpTransport"), ("adb_device_async.AdbDeviceTcpAsync.__init__", "TcpTransportAsync")):
        f = ctx.pkg.func(fq)
        g = ctx.cfg(f)
        mk = [(n, c) for n in g.live_nodes() for c in node_calls(n) if isinstance(c.func, ast.Name) and c.func.id == tname]
        ok = len(mk) == 1
        if ok:
            t = T.term(f, mk[0][0], mk[0][1])
            ok = t[0] == "new" and dict(t[2]).get("host") == ("p", "host") and dict(t[2]).get("port") == ("p", "port")
        R.check(ok, "ADDR", fq, "the TCP device connects to the (host, port) it was given", "the TCP device class does not build its transport from (host, port) unchanged", f.loc())
    arg_rule(ctx, R, "net", "ARG-net", min_count=6)
    # the write side of the contract: bulk_write reports what the library accepted (same instances as C15)
    from .c15 import transport_write_returns_count
    for cq in ("transport.tcp_transport.TcpTransport", "transport.tcp_transport_async.TcpTransportAsync"):
        transport_write_returns_count(ctx, R, ctx.pkg.cls(cq))
    R.assume("select.select / socket.recv / asyncio streams / async_timeout behave as documented")
    R.undecided("wall-clock lower bounds, OS-level fragmentation and whole loopback sessions are outside the source")


def _sync(ctx, R, T):
    cls = ctx.pkg.cls("transport.tcp_transport.TcpTransport")
    # -- bulk_read ------------------------------------------------------------------------------------------
    f = cls.methods["bulk_read"]
    g = ctx.cfg(f)
    df = ctx.df(f)
    q = f.qualname
    nb, to = f.params[1], f.params[2]
    _no_redef(ctx, R, f, nb, "PASS")
    _no_redef(ctx, R, f, to, "PASS")
    recvs = [(n, c) for n in g.live_nodes() for c in node_calls(n) if call_attr(c) in ("recv", "recv_into", "recvfrom", "read")]
    R.check(len(recvs) == 1 and call_attr(recvs[0][1]) == "recv", "PASS", q + "|one-recv", "exactly one receive call", "expected exactly one socket.recv call, found %d (data received elsewhere is dropped or duplicated)" % len(recvs), f.loc())
    if len(recvs) == 1:
        rn, rc = recvs[0]
        R.check(len(rc.args) == 1 and T.term(f, rn, rc.args[0]) == ("p", nb) and not rc.keywords, "PASS", q + "|size", "recv(numbytes): the requested size, unchanged",
                "recv is asked for `%s`, not for numbytes" % (src(rc.args[0]) if rc.args else "?"), f.loc(rn.ast))
        R.check(_recv_key(ctx, f, rn, rc.func.value) == f.params[0] + "._connection", "PASS", q + "|socket", "reads from the connection", None, f.loc(rn.ast), trivial=True)
        rets = [n for n in g.live_nodes() if n.kind == "stmt" and isinstance(n.ast, ast.Return)]
        for x in rets:
            v = unawait(x.ast.value) if x.ast.value is not None else None
            if isinstance(v, ast.Name):
                d = df.unique_def(x, v.id)
                v = unawait(d.value) if d is not None and d.kind == "assign" and not d.path else v
            R.check(v is rc, "PASS", "%s|%s" % (q, norm_stmt(x.ast)), "returns what recv returned, unchanged", "bulk_read returns `%s`, not the bytes recv returned" % norm_stmt(x.ast), f.loc(x.ast))
        R.check(g.exit not in g.reach([g.entry], avoid=rets, exc=False, include_start=True), "PASS", q + "|no-implicit-none", "never returns None", "bulk_read can fall off its end (returns None instead of bytes or raising)", f.loc())
        _select(ctx, R, T, f, rn, 0, to, "Reading")
    # -- bulk_write (select side; count is C15) -----------------------------------------------------------------
    f = cls.methods["bulk_write"]
    g = ctx.cfg(f)
    _no_redef(ctx, R, f, f.params[2], "PASS")
    sends = [(n, c) for n in g.live_nodes() for c in node_calls(n) if call_attr(c) in ("send", "sendall")]
    if len(sends) == 1:
        _select(ctx, R, T, f, sends[0][0], 1, f.params[2], "Sending")
    else:
        R.fail("PASS", f.qualname + "|one-send", "expected exactly one socket.send call, found %d" % len(sends), f.loc())
    # -- close / connect ------------------------------------------------------------------------------------------
    f = cls.methods["close"]
    g = ctx.cfg(f)
    df = ctx.df(f)
    selfn = f.params[0]
    ck = key(ast.Attribute(value=ast.Name(id=selfn, ctx=ast.Load()), attr="_connection", ctx=ast.Load()))
    for n in g.live_nodes():
        for c in node_calls(n):
            if isinstance(c.func, ast.Attribute) and _recv_key(ctx, f, n, c.func.value) == selfn + "._connection":
                ok = any(fa[0] == ("truthy", ck) and fa[1] is True for fa in df.facts(n)) or any(fa[0][0] == "is" and ck in fa[0][1:] and fa[1] is False for fa in df.facts(n))
                R.check(ok, "CLOSE", "%s|%s" % (f.qualname, norm_stmt(c)), "socket touched only when connected (closing twice is a no-op)", "`%s` runs even when the transport is not connected: close() is not idempotent" % norm_stmt(c), f.loc(n.ast))
    closes = [n for n in g.live_nodes() for c in node_calls(n) if call_attr(c) == "close" and _recv_key(ctx, f, n, c.func.value) == selfn + "._connection"]
    R.check(len(closes) == 1, "CLOSE", f.qualname + "|closes-socket", "the socket is closed", "close() does not close the socket exactly once", f.loc())
    # shutdown, when called, is shutdown(socket.SHUT_RDWR): anything else raises TypeError / leaves one direction open, and close() no longer completes
    for n in g.live_nodes():
        for c in node_calls(n):
            if call_attr(c) == "shutdown" and _recv_key(ctx, f, n, c.func.value) == selfn + "._connection":
                t = T.term(f, n, c.args[0]) if len(c.args) == 1 and not c.keywords else None
                import socket as _socket
                okarg = t is not None and (t == ("c", _socket.SHUT_RDWR) or (t[0] in ("ext", "attr", "p") and "SHUT_RDWR" in str(t)))
                R.check(okarg, "CLOSE", "%s|shutdown-both" % f.qualname, "shutdown(SHUT_RDWR)", "the socket is shut down with `%s`, not socket.SHUT_RDWR" % (src(c.args[0]) if c.args else "no argument"), f.loc(n.ast))
    # only OSError from shutdown is contained
    for n in g.nodes:
        if n.kind == "except":
            ty = src(n.ast.type) if n.ast.type is not None else "bare"
            tr = [t for (t, region) in n.trys if region == "handler" and n.ast in t.handlers]
            body_calls = [call_attr(c) for t in tr for st in t.body for c in ast.walk(st) if isinstance(c, ast.Call)]
            R.check(ty == "OSError" and body_calls == ["shutdown"], "CLOSE", f.qualname + "|contained|" + ty, "only an OSError of shutdown() is contained",
                    "close() contains `%s` around %s" % (ty, body_calls), f.loc(n.ast))
    f = cls.methods["connect"]
    g = ctx.cfg(f)
    asg = [n for n in g.live_nodes() if n.kind == "stmt" and isinstance(n.ast, ast.Assign) and any(varkey(t) == f.params[0] + "._connection" for t in n.ast.targets)]
    ok = len(asg) == 1 and g.dominates(asg, g.exit, exc=False)
    t = T.term(f, asg[0], asg[0].ast.value) if asg else ("none",)
    ok = ok and t[0] == "call" and t[1] == "socket.create_connection" and dict(t[3]).get("timeout", t[2][1] if len(t[2]) > 1 else None) == ("p", f.params[1])
    ok = ok and t[2][0] == ("tuple", ("attr", ("p", f.params[0]), "_host"), ("attr", ("p", f.params[0]), "_port"))
    R.check(ok, "CONNECT", f.qualname, "connect() binds a fresh socket to (host, port) with the given timeout, unconditionally", "connect() does not unconditionally bind a fresh connection to (host, port) with the given timeout: %s" % show(t)[:160], f.loc())


def _select(ctx, R, T, f, io_node, pos, to, verb):
    """The I/O call at io_node is governed by readiness reported by select(..., timeout=to); not ready -> TcpTimeoutException."""
    g = ctx.cfg(f)
    df = ctx.df(f)
    q = f.qualname
    sels = [(n, c) for n in g.live_nodes() for c in node_calls(n) if ctx.cg.site(c) is not None and ctx.cg.site(c).ext == "select.select"]
    R.check(len(sels) == 1, "SELECT", q + "|one-select", "one select call", "expected one select.select call, found %d" % len(sels), f.loc())
    if len(sels) != 1:
        return
    sn, sc = sels[0]
    ok = len(sc.args) == 4 and T.term(f, sn, sc.args[3]) == ("p", to)
    R.check(ok, "SELECT", q + "|timeout", "the timeout reaches select unchanged", "select waits `%s`, not the transport_timeout_s given (None would block forever)" % (src(sc.args[3]) if len(sc.args) == 4 else "?"), f.loc(sn.ast))
    conn = ("list", ("attr", ("p", f.params[0]), "_connection"))
    lists = [T.term(f, sn, a) for a in sc.args[:3]] if len(sc.args) >= 3 else []
    okl = len(lists) == 3 and lists[pos] == conn and all(x in (("list",), ("c", ()), ("tuple",)) for i, x in enumerate(lists) if i != pos)
    R.check(okl, "SELECT", q + "|fd-set", "waits for the connection in the %s set" % ("read" if pos == 0 else "write"), "select is asked about %s" % ", ".join(show(x) for x in lists), f.loc(sn.ast))
    st = T.term(f, sn, sc)
    # readiness variable: projection `pos` of the select result
    ready_ok = False
    for fa in df.facts(io_node):
        if fa[0][0] == "truthy" and fa[1] is True:
            from .c06 import eval_dump
            e = eval_dump(fa[0][1])
            if T.term(f, io_node, e) == ("proj", st, pos):
                ready_ok = True
    R.check(ready_ok and g.dominates([sn], io_node), "SELECT", q + "|ready-first", "the socket call runs only after select reported the connection ready",
            "the socket call is not governed by the %s-readiness reported by select" % ("read" if pos == 0 else "write"), f.loc(io_node.ast))
    raises = [n for n in g.live_nodes() if n.kind == "stmt" and isinstance(n.ast, ast.Raise)]
    okr = bool(raises)
    for n in raises:
        s = src(n.ast.exc) if n.ast.exc is not None else ""
        notready = False
        for fa in df.facts(n):
            if fa[0][0] == "truthy" and fa[1] is False:
                from .c06 import eval_dump
                if T.term(f, n, eval_dump(fa[0][1])) == ("proj", st, pos):
                    notready = True
        R.check("TcpTimeoutException" in s and notready, "SELECT", "%s|raise|%s" % (q, norm_stmt(n.ast)[:40]), "not ready within the timeout -> TcpTimeoutException",
                "`%s` is not (a TcpTimeoutException raised exactly when select reports not ready)" % norm_stmt(n.ast)[:60], f.loc(n.ast))
    R.check(okr, "SELECT", q + "|timeout-raises", "a timeout raises", "%s with nothing ready does not raise TcpTimeoutException" % verb, f.loc())
    R.check(not any(n.kind == "except" for n in g.nodes), "SELECT", q + "|no-handlers", "no exception is swallowed or remapped", "an exception handler in %s can hide socket errors" % f.name, f.loc())


def _async(ctx, R, T):
    cls = ctx.pkg.cls("transport.tcp_transport_async.TcpTransportAsync")
    f = cls.methods["bulk_read"]
    g = ctx.cfg(f)
    df = ctx.df(f)
    q = f.qualname
    nb, to = f.params[1], f.params[2]
    _no_redef(ctx, R, f, nb, "PASS")
    _no_redef(ctx, R, f, to, "PASS")
    reads = [(n, c) for n in g.live_nodes() for c in node_calls(n) if call_attr(c) in ("read", "readexactly", "readline", "readuntil", "recv")]
    R.check(len(reads) == 1 and call_attr(reads[0][1]) == "read", "PASS", q + "|one-read", "exactly one StreamReader.read call", "expected exactly one reader.read call, found %d" % len(reads), f.loc())
    if len(reads) == 1:
        rn, rc = reads[0]
        R.check(len(rc.args) == 1 and T.term(f, rn, rc.args[0]) == ("p", nb), "PASS", q + "|size", "read(numbytes): the requested size, unchanged", "the reader is asked for `%s`, not for numbytes" % (src(rc.args[0]) if rc.args else "?"), f.loc(rn.ast))
        rets = [n for n in g.live_nodes() if n.kind == "stmt" and isinstance(n.ast, ast.Return)]
        for x in rets:
            v = unawait(x.ast.value) if x.ast.value is not None else None
            if isinstance(v, ast.Name):
                d = df.unique_def(x, v.id)
                v = unawait(d.value) if d is not None and d.kind == "assign" and not d.path else v
            R.check(v is rc, "PASS", "%s|%s" % (q, norm_stmt(x.ast)), "returns what read returned, unchanged", "bulk_read returns `%s`, not the bytes the reader returned" % norm_stmt(x.ast), f.loc(x.ast))
        R.check(g.exit not in g.reach([g.entry], avoid=rets, exc=True, include_start=True), "PASS", q + "|no-implicit-none", "never returns None", "bulk_read can finish without returning the bytes read", f.loc())
        _under_timeout(ctx, R, T, f, rn, to)
    for name in ("bulk_read", "bulk_write", "connect"):
        _timeout_mapping(ctx, R, T, cls.methods[name])
    f = cls.methods["bulk_write"]
    g = ctx.cfg(f)
    drains = [n for n in g.live_nodes() for c in node_calls(n) if call_attr(c) == "drain"]
    for dn in drains:
        _under_timeout(ctx, R, T, f, dn, f.params[2])
    f = cls.methods["close"]
    g = ctx.cfg(f)
    df = ctx.df(f)
    selfn = f.params[0]
    wk = key(ast.Attribute(value=ast.Name(id=selfn, ctx=ast.Load()), attr="_writer", ctx=ast.Load()))
    for n in g.live_nodes():
        for c in node_calls(n):
            if isinstance(c.func, ast.Attribute) and varkey(unawait(c.func.value)) == selfn + "._writer":
                nk = key(ast.Constant(value=None))
                ok = any((fa[0] == ("truthy", wk) and fa[1] is True) or (fa[0] == ("is",) + tuple(sorted([wk, nk])) and fa[1] is False) for fa in df.facts(n))       # `if self._writer:` / `if self._writer is not None:`
                R.check(ok, "CLOSE", "%s|%s" % (f.qualname, norm_stmt(c)), "writer touched only when connected (closing twice is a no-op)", "`%s` runs even when not connected" % norm_stmt(c), f.loc(n.ast))
    f = cls.methods["connect"]
    g = ctx.cfg(f)
    selfn = f.params[0]
    want = ("call", "asyncio.open_connection", (("attr", ("p", selfn), "_host"), ("attr", ("p", selfn), "_port")), ())
    # every store to self._reader / self._writer: the value is element 0 / 1 of open_connection(host, port) made in this call (directly, or through locals)
    stores = {"_reader": [], "_writer": []}
    ok = True
    for n in g.live_nodes():
        if n.kind != "stmt" or not isinstance(n.ast, (ast.Assign, ast.AugAssign, ast.AnnAssign)):
            continue
        if not isinstance(n.ast, ast.Assign):
            tg = n.ast.target
            if varkey(tg) in (selfn + "._reader", selfn + "._writer"):
                ok = False
            continue
        vt = None
        for tg in n.ast.targets:
            elts = list(tg.elts) if isinstance(tg, (ast.Tuple, ast.List)) else None
            if elts is None:
                a = varkey(tg)
                if a in (selfn + "._reader", selfn + "._writer"):
                    vt = vt if vt is not None else T.term(f, n, n.ast.value)
                    stores[a.split(".")[1]].append((n, vt))
            else:
                for k, e in enumerate(elts):
                    a = varkey(e) if not isinstance(e, ast.Starred) else None
                    if a in (selfn + "._reader", selfn + "._writer"):
                        vt = vt if vt is not None else T.term(f, n, n.ast.value)
                        stores[a.split(".")[1]].append((n, T.project(vt, k)))
    for attr, idx in (("_reader", 0), ("_writer", 1)):
        ok = ok and bool(stores[attr]) and all(t == ("proj", want, idx) for _n, t in stores[attr])
        # every normal exit passed a store
        ok = ok and g.dominates([n for n, _t in stores[attr]], g.exit, exc=True)
    calls = [n for n in g.live_nodes() for c in node_calls(n) if T.term(f, n, c) == want]
    ok = ok and len(calls) == 1
    for cn in calls[:1]:
        _under_timeout(ctx, R, T, f, cn, f.params[1])
    R.check(ok, "CONNECT", f.qualname, "connect() binds fresh (reader, writer) to (host, port), in that order", "connect() does not bind (reader, writer) = open_connection(host, port) on every successful path", f.loc())


def _recv_key(ctx, f, node, e):
    """key of a receiver expression, a local that is (uniquely, here) a snapshot of an attribute standing for that attribute - provided the
    attribute was not written in between (single-threaded reading of the transport contract)"""
    from ..util import subst_copies
    e = unawait(e)
    k = varkey(e)
    if isinstance(e, ast.Name):
        try:
            k2 = varkey(unawait(subst_copies(ctx, f, node, e)))
        except Exception:   # noqa
            k2 = None
        return k2 or k
    return k


def _under_timeout(ctx, R, T, f, node, to):
    ok = False
    for w in node.withs:
        t = T.term(f, w, w.item.context_expr)
        if t[0] == "call" and str(t[1]).endswith("async_timeout.timeout") and t[2] == (("p", to),):
            ok = True
    R.check(ok, "TIMEOUT", "%s|%s" % (f.qualname, norm_stmt(node.exprs()[0])[:50]), "runs under async_timeout.timeout(transport_timeout_s)",
            "`%s` does not run under async_timeout.timeout(%s): it can wait forever" % (norm_stmt(node.exprs()[0])[:60], to), f.loc(node.ast))


def _timeout_mapping(ctx, R, T, f):
    g = ctx.cfg(f)
    hs = [n for n in g.nodes if n.kind == "except"]
    ok = len(hs) == 1 and hs[0].ast.type is not None and src(hs[0].ast.type) in ("asyncio.TimeoutError", "TimeoutError", "asyncio.exceptions.TimeoutError")
    R.check(ok, "MAP", f.qualname + "|handler", "only asyncio.TimeoutError is handled", "%s handles %s; only the timeout may be remapped" % (f.name, [src(h.ast.type) if h.ast.type is not None else "bare" for h in hs]), f.loc())
    for h in hs:
        R.check(not handler_completes(g, h), "MAP", f.qualname + "|reraises", "the handler raises", "a timeout in %s is swallowed (the call returns None instead of raising)" % f.name, f.loc(h.ast))
        rs = [n for n in g.reach([h], exc=False) if n.kind == "stmt" and isinstance(n.ast, ast.Raise)]
        R.check(bool(rs) and all(n.ast.exc is not None and "TcpTimeoutException" in src(n.ast.exc) for n in rs), "MAP", f.qualname + "|exception", "timeout -> TcpTimeoutException",
                "a timeout in %s is not mapped to TcpTimeoutException" % f.name, f.loc(h.ast))
