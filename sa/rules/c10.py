"""C10 - device-side sync failures surface as the documented exception with the reason.

Decided: in the record reader, every return is governed by `id in expected`; under `id not in expected` a FAIL
raises AdbCommandFailureException carrying the decoded payload of that record and anything else raises
InvalidResponseError; _push reads its status with {OKAY, FAIL} allowed, returns only under OKAY and otherwise raises
PushFailedError(payload); no handler on the way to the public methods swallows; ND-own: while the flush awaits the
OKAY for its WRTE, a WRTE of the same stream (the only packet that can carry a failure report) is accepted and its
payload kept in the sync receive buffer, exactly once, before waiting on.  Not decided: timing on a real device.
A flush that awaits its OKAY from the pump directly (not through _read_until, which owes every WRTE an OKAY) is a violation.
"""
import ast

from ..loader import AnalysisError
from ..dataflow import key, varkey, unawait
from ..engine import terms
from ..roles import all_roles
from ..terms import show
from ..util import src, node_calls, call_attr, norm_stmt, fold_cmd_list
from .c04 import callee_nodes
from .c06 import eval_dump
from .c12 import _exc
from .c15 import loop_nodes, loop_exit_edges

LEVEL = "other"


def check(ctx, R):
    T = terms(ctx)
    for roles in all_roles(ctx):
        _reader(ctx, R, roles, T)
        _push_status(ctx, R, roles, T)
        _nd_own(ctx, R, roles, T)
        _exc(ctx, R, roles)
        _raise_sites(ctx, R, roles)
        from .c08 import _pull as pull_rules, buffer_access, record_reader, buffered_reader
        record_reader(ctx, R, roles, T)   # "carrying the device's message": the FAIL record's payload is what the record reader returns
        buffered_reader(ctx, R, roles, T)
        pull_rules(ctx, R, roles, T)      # pull must read on until the device's terminating record (DONE or FAIL), whatever was received so far
        buffer_access(ctx, R, roles)
    R.assume("the pump discards packets of the caller's own stream whose command is not in `expected` (asserted by the unit tests); hence awaiting sites must list every command that matters")
    R.undecided("timing of FAIL vs OKAY on a real device")


def _reader(ctx, R, roles, T):
    f = roles.dev["_filesync_read"]
    g = ctx.cfg(f)
    df = ctx.df(f)
    q = f.qualname
    expk = key(ast.Name(id="expected_ids", ctx=ast.Load()))
    rets = [n for n in g.live_nodes() if n.kind == "stmt" and isinstance(n.ast, ast.Return)]
    R.count("FAIL-map[%s]" % roles.tag, len(rets), 1)
    idvar = None
    for rn in rets:
        ok = False
        for fa in df.facts(rn):
            if fa[0][0] == "in" and fa[0][2] == expk and fa[1] is True:
                ok = True
                idvar = fa[0][1]
        R.check(ok, "FAIL-map", "%s|%s|expected-only" % (q, norm_stmt(rn.ast)), "a record is returned only if its id is expected at this point",
                "the record reader can return a record whose id is not in `expected_ids` (a FAIL or stray record is delivered as if it were data)", f.loc(rn.ast))
    raises = [n for n in g.live_nodes() if n.kind == "stmt" and isinstance(n.ast, ast.Raise) and n.ast.exc is not None]
    fail_r = [n for n in raises if "AdbCommandFailureException" in src(n.ast.exc)]
    inv_r = [n for n in raises if "InvalidResponseError" in src(n.ast.exc)]
    R.check(len(fail_r) >= 1, "FAIL-map", q + "|fail-raise", "FAIL raises AdbCommandFailureException", "no `raise AdbCommandFailureException` in the record reader", f.loc())
    R.check(len(inv_r) >= 1, "FAIL-map", q + "|invalid-raise", "an unexpected id raises InvalidResponseError", "no `raise InvalidResponseError` in the record reader", f.loc())
    # under `id not in expected`: no normal exit; FAIL test first
    for tn in g.live_nodes():
        if tn.kind == "test":
            t = unawait(tn.ast.test)
            if isinstance(t, ast.Compare) and len(t.ops) == 1 and isinstance(t.ops[0], (ast.In, ast.NotIn)) and key(t.comparators[0]) == expk:
                lab = "true" if isinstance(t.ops[0], ast.NotIn) else "false"
                r = g.reach_from_edge(tn, lab, exc=False)
                R.check(g.exit not in r, "FAIL-map", q + "|unexpected-never-returns", "an unexpected record never leads to a normal return",
                        "after `id not in expected_ids` the reader can still return normally", f.loc(tn.ast))
                # every raise reachable there is one of the two documented ones, decided by id == FAIL
                for rn in [x for x in r if x.kind == "stmt" and isinstance(x.ast, ast.Raise)]:
                    isfail = any(fa[0][0] == "eq" and fa[1] is True and _is_const(ctx, f, fa, b"FAIL") for fa in df.facts(rn))
                    notfail = any(fa[0][0] == "eq" and fa[1] is False and _is_const(ctx, f, fa, b"FAIL") for fa in df.facts(rn)) \
                        or any(fa[0][0] == "eq" and fa[1] is True and _is_other_sync_id(ctx, f, fa, b"FAIL") for fa in df.facts(rn))      # `id == STAT` decides `id != FAIL`
                    s = src(rn.ast.exc) if rn.ast.exc is not None else ""
                    if isfail:
                        R.check("AdbCommandFailureException" in s, "FAIL-map", q + "|fail->AdbCommandFailureException", "FAIL -> AdbCommandFailureException", "a FAIL record raises `%s` instead of AdbCommandFailureException" % s, f.loc(rn.ast))
                        # message carries the decoded payload of this record
                        carries = False
                        for c in ast.walk(rn.ast.exc):
                            if isinstance(c, ast.Name):
                                d = df.unique_def(rn, c.id)
                                if d is not None and d.kind == "assign":
                                    tt = T.term(f, d.node, d.value)
                                    if tt[0] == "call" and tt[1] == ".decode" and _is_payload(tt[2][0]):
                                        carries = True
                            if isinstance(c, ast.Call) and isinstance(c.func, ast.Attribute) and c.func.attr == "decode":
                                if _is_payload(T.term(f, rn, c.func.value)):
                                    carries = True
                        if not carries:
                            for c in ast.walk(rn.ast.exc):
                                if isinstance(c, ast.Name) and _is_payload(T.term(f, rn, c)):
                                    carries = True
                        R.check(carries, "FAIL-map", q + "|fail-reason", "the exception carries the device's message", "AdbCommandFailureException does not carry the payload of the FAIL record (the device's reason is lost)", f.loc(rn.ast))
                    elif notfail:
                        R.check("InvalidResponseError" in s, "FAIL-map", q + "|other->InvalidResponseError", "any other unexpected id -> InvalidResponseError", "an unexpected non-FAIL record raises `%s` instead of InvalidResponseError" % s, f.loc(rn.ast))
                    else:
                        R.fail("FAIL-map", q + "|raise-undetermined|" + norm_stmt(rn.ast), "a raise under `id not in expected` is not decided by `id == FAIL`", f.loc(rn.ast))


def _raise_sites(ctx, R, roles):
    """The documented failure exceptions are raised only where the rules above examine them."""
    allowed = {"PushFailedError": {"_push"}, "AdbCommandFailureException": {"_filesync_read"}}
    for f in roles.mod.all_funcs:
        g = ctx.cfg(f)
        for n in g.live_nodes():
            if n.kind == "stmt" and isinstance(n.ast, ast.Raise) and n.ast.exc is not None:
                s_ = src(n.ast.exc)
                for exc, fns in allowed.items():
                    if exc in s_:
                        R.check(f.name in fns and f.cls is roles.dev_cls, "FAIL-sites", "%s|%s" % (f.qualname, exc), "%s is raised in %s" % (exc, f.name),
                                "%s is raised in %s, outside the status handling that the device's FAIL record goes through (a failure can be reported that the device never sent, or with a truncated reason)" % (exc, f.qualname), f.loc(n.ast))


def _is_payload(t):
    from ..terms import alts_of
    alts = alts_of(t)
    return any(a[0] == "call" and isinstance(a[1], str) and a[1].endswith("_filesync_read_buffered") for a in alts)


def _is_const(ctx, f, fa, value):
    for side in fa[0][1:]:
        ok, v = ctx.fold.try_eval(eval_dump(side), f.mod, {})
        if ok and v == value:
            return True
    return False


def _is_other_sync_id(ctx, f, fa, value):
    """The fact compares with a constant sync id (4 bytes) other than `value`."""
    for side in fa[0][1:]:
        ok, v = ctx.fold.try_eval(eval_dump(side), f.mod, {})
        if ok and isinstance(v, bytes) and len(v) == 4 and v != value:
            return True
    return False


def _push_status(ctx, R, roles, T):
    f = roles.dev["_push"]
    gen = roles.dev["_filesync_read_until"]
    g = ctx.cfg(f)
    df = ctx.df(f)
    q = f.qualname
    iters = [n for n in g.live_nodes() if n.kind == "iter" and any(ctx.cg.site(c) is not None and gen in ctx.cg.site(c).callees for c in node_calls(n))]
    if len(iters) != 1:
        R.fail("PUSH-status", q + "|status-read", "_push must read its status through the record generator once, found %d sites" % len(iters), f.loc())
        return
    it = iters[0]
    gc = [c for c in node_calls(it) if ctx.cg.site(c) is not None and gen in ctx.cg.site(c).callees][0]
    b = ctx.cg.site(gc).bind(gen)
    e1, e2 = fold_cmd_list(T, f, it, b.get("expected_ids")), fold_cmd_list(T, f, it, b.get("finish_ids"))
    allowed = set(e1 or ()) | set(e2 or ())
    R.check(e1 is not None and e2 is not None and allowed == {b"OKAY", b"FAIL"}, "PUSH-status", q + "|ids", "the status read accepts exactly OKAY and FAIL",
            "the status read accepts %s; without FAIL a device-side failure surfaces as InvalidResponseError/garbage, with more it may return on a non-status record" % sorted(allowed), f.loc(it.ast))
    item = ("item", T.term(f, it, gc))
    # every normal return of _push is governed by cmd_id == OKAY of the status record
    rets = [n for n in g.live_nodes() if n.kind == "stmt" and isinstance(n.ast, ast.Return)]
    falls = g.exit in g.reach([g.entry], avoid=rets, exc=False, include_start=True)
    ok_edges = []
    for tn in g.live_nodes():
        if tn.kind == "test":
            t = unawait(tn.ast.test)
            if isinstance(t, ast.Compare) and len(t.ops) == 1 and isinstance(t.ops[0], (ast.Eq, ast.NotEq)):
                a, bb = T.term(f, tn, t.left), T.term(f, tn, t.comparators[0])
                for x, y in ((a, bb), (bb, a)):
                    if x == ("proj", item, 0) and y == ("c", b"OKAY"):
                        ok_edges.append((tn, "true" if isinstance(t.ops[0], ast.Eq) else "false"))
    # the generator yields at least one record before it can end, and the loop body never completes an iteration
    # (it returns or raises) => the `exhausted` edge of the status loop is infeasible
    from .c01 import yields_of
    gg = ctx.cfg(gen)
    ynodes = [yn for yn, _yx in yields_of(gg)]
    gen_yields_first = bool(ynodes) and gg.exit not in gg.reach([gg.entry], avoid=ynodes, exc=False, include_start=True)
    body = [d for d, l in g.succ[it] if l == "next"]
    no_second_iteration = it not in g.reach(body, exc=False, include_start=True)
    infeasible_exhaust = gen_yields_first and no_second_iteration
    R.check(infeasible_exhaust, "PUSH-status", q + "|status-loop-shape", "the status loop handles exactly the first status record (the record generator always yields before ending)",
            "the status loop can run out of records or go round again: the status of the push may be skipped", f.loc(it.ast))
    r = g.reach([g.entry], exc=False, include_start=True,
                edge_filter=lambda s, d, l: not any(s is tn and l == lab for tn, lab in ok_edges) and not (infeasible_exhaust and s is it and l == "exhausted"))
    R.check(bool(ok_edges) and g.exit not in r, "PUSH-status", q + "|return-only-on-okay", "_push returns normally only after the device's sync OKAY",
            "_push can return normally without a sync OKAY (status not read, exhausted generator, or a non-OKAY status accepted)", f.loc())
    # non-OKAY -> PushFailedError(data of that record)
    for tn, lab in ok_edges:
        other = "false" if lab == "true" else "true"
        rr = g.reach_from_edge(tn, other, avoid=[it], exc=False)
        raises = [x for x in rr if x.kind == "stmt" and isinstance(x.ast, ast.Raise)]
        good = bool(raises) and g.exit not in rr and it not in g.reach_from_edge(tn, other, exc=False)
        for x in raises:
            e = x.ast.exc
            okx = e is not None and isinstance(e, ast.Call) and "PushFailedError" in src(e.func) and len(e.args) == 1 and T.term(f, x, e.args[0]) == ("proj", item, 2)
            good = good and okx
        for x in g.live_nodes():
            if x.kind == "stmt" and isinstance(x.ast, ast.Raise) and x.ast.exc is not None and "PushFailedError" in src(x.ast.exc) and x not in rr:
                R.fail("PUSH-status", q + "|stray-raise|" + norm_stmt(x.ast)[:50], "PushFailedError is raised outside the handling of the device's status record (`%s`)" % norm_stmt(x.ast)[:70], f.loc(x.ast))
        R.check(good, "PUSH-status", q + "|fail-raises", "any status other than OKAY raises PushFailedError(device message)",
                "a non-OKAY status does not (only) raise PushFailedError carrying the record's payload", f.loc(tn.ast))


def _staged_keep(ctx, fl, g, df, T, info, n, rt):
    """The early payload is collected in a local accumulator (`acc += data`, `acc.extend(data)`, `acc.append(data)` with a
    `b''.join(acc)` later) that starts empty, is touched nowhere else, and is appended to the receive buffer:
    -> (collecting node, accumulator name, [nodes appending it to the receive buffer]) or None."""
    cands = {}
    for m in g.live_nodes():
        a = m.ast
        if m.kind != "stmt":
            continue
        if isinstance(a, ast.AugAssign) and isinstance(a.op, ast.Add) and isinstance(a.target, ast.Name) and T.term(fl, m, a.value) == ("proj", rt, 1):
            cands.setdefault(a.target.id, []).append((m, "bytes"))
        elif isinstance(a, ast.Expr) and isinstance(a.value, ast.Call) and isinstance(a.value.func, ast.Attribute) and isinstance(a.value.func.value, ast.Name) \
                and a.value.func.attr in ("append", "extend") and len(a.value.args) == 1 and not a.value.keywords and T.term(fl, m, a.value.args[0]) == ("proj", rt, 1):
            cands.setdefault(a.value.func.value.id, []).append((m, "list" if a.value.func.attr == "append" else "bytes"))
    for acc, lst in sorted(cands.items()):
        if len(lst) != 1 or acc in fl.params:
            continue
        m, kind = lst[0]
        # every other definition of the accumulator is its empty initialisation, outside any cycle
        ok = True
        ninit = 0
        for x in g.live_nodes():
            for d in df.node_defs.get(x, []):
                if d.var != acc or x is m:
                    continue
                v = d.value if d.kind == "assign" and not d.path else None
                empty = v is not None and ((isinstance(v, ast.Call) and isinstance(v.func, ast.Name) and v.func.id in ("bytearray", "bytes", "list") and not v.args and not v.keywords and kind == ("list" if v.func.id == "list" else "bytes"))
                                           or (isinstance(v, ast.Constant) and v.value == b"" and kind == "bytes") or (isinstance(v, ast.List) and not v.elts and kind == "list"))
                if not empty or g.in_cycle(x):
                    ok = False
                ninit += 1
        if not ok or ninit != 1:
            continue
        flushes = []
        uses_ok = True
        for x in g.live_nodes():
            if x is m:
                continue
            a = x.ast
            mentions = [y for e in x.exprs() for y in ast.walk(e) if isinstance(y, ast.Name) and y.id == acc and isinstance(y.ctx, ast.Load)]
            if not mentions:
                continue
            if x.kind == "test" and isinstance(unawait(x.ast.test), ast.Name):
                continue                      # `if acc:`
            if x.kind == "stmt" and isinstance(a, ast.AugAssign) and isinstance(a.op, ast.Add) and varkey(a.target) == "%s.recv_buffer" % info:
                v = a.value
                if kind == "bytes" and isinstance(v, ast.Name) and v.id == acc:
                    flushes.append(x)
                    continue
                if kind == "list" and isinstance(v, ast.Call) and isinstance(v.func, ast.Attribute) and v.func.attr == "join" and isinstance(v.func.value, ast.Constant) and v.func.value.value == b"" \
                        and len(v.args) == 1 and isinstance(v.args[0], ast.Name) and v.args[0].id == acc:
                    flushes.append(x)
                    continue
            uses_ok = False
        if uses_ok and flushes:
            return m, acc, flushes
    return None


def _nd_own(ctx, R, roles, T):
    """While awaiting the OKAY for its own WRTE the host must not lose a WRTE of the same stream."""
    fl = roles.dev["_filesync_flush"]
    ru = roles.dev["_read_until"]
    g = ctx.cfg(fl)
    df = ctx.df(fl)
    q = fl.qualname
    snd = callee_nodes(ctx, fl, roles.send_locked)
    reads = [(n, c) for (n, c) in callee_nodes(ctx, fl, ru) if snd and g.dominates([snd[0][0]], n)]
    direct = [(n, c) for (n, c) in callee_nodes(ctx, fl, roles.pump) if snd and g.dominates([snd[0][0]], n)] if not reads else []
    if roles.dev["_okay"] is not None and callee_nodes(ctx, fl, roles.dev["_okay"]):
        direct = []            # a flush that acknowledges by itself is a different design: not decided here (the count guard below ends the run as an analysis error)
    for n, c in direct:
        R.fail("ND-own", "%s|awaits-through-pump" % q, "the flush awaits the device's answer from the pump directly instead of through _read_until: a WRTE the device sends before its OKAY is delivered "
               "here without being acknowledged (only _read_until sends the OKAY a WRTE is owed), so the device stalls and the rest of its reply never arrives", fl.loc(n.ast))
    R.count("ND-own[%s]" % roles.tag, len(reads) + len(direct), 1)
    info = None
    for p in fl.params:
        if "hidden_helpers._FileSyncTransactionInfo" in ctx.cg.var_types.get(fl, {}).get(p, ()):
            info = p
    for n, c in reads:
        exp = fold_cmd_list(T, fl, n, ctx.cg.site(c).bind(ru).get(ru.call_params[0]))
        sub = "%s|await%s" % (q, sorted(exp) if exp else "?")
        if exp is None or b"WRTE" not in exp:
            R.fail("ND-own", sub, "the flush awaits %s through a pump that discards every other packet of the stream: a sync FAIL that the device writes before acknowledging is dropped (and never acknowledged) and the call ends in a timeout" % (exp,), fl.loc(n.ast))
            continue
        # the WRTE payload received here flows into the receive buffer exactly once before the next wait / return
        rt = T.term(fl, n, c)
        adds = []
        for m in g.live_nodes():
            a = m.ast
            if m.kind == "stmt" and isinstance(a, ast.AugAssign) and isinstance(a.op, ast.Add) and varkey(a.target) == "%s.recv_buffer" % info and T.term(fl, m, a.value) == ("proj", rt, 1):
                adds.append(m)
        staged = None
        if not adds:
            staged = _staged_keep(ctx, fl, g, df, T, info, n, rt)
            if staged is not None:
                adds = [staged[0]]
        R.check(len(adds) == 1, "ND-own", sub + "|kept", "an early WRTE payload is appended to the sync receive buffer" + (" (collected in `%s`, which is appended when the OKAY arrives)" % staged[1] if staged else ""),
                "the payload of a WRTE received while awaiting OKAY is not appended (exactly once) to the receive buffer", fl.loc(n.ast))
        if len(adds) != 1:
            continue
        an = adds[0]
        # find the OKAY test on this read
        oks = []
        for tn in g.live_nodes():
            if tn.kind == "test":
                t = unawait(tn.ast.test)
                if isinstance(t, ast.Compare) and len(t.ops) == 1 and isinstance(t.ops[0], (ast.Eq, ast.NotEq)):
                    a, b = T.term(fl, tn, t.left), T.term(fl, tn, t.comparators[0])
                    for x, y in ((a, b), (b, a)):
                        if x == ("proj", rt, 0) and y[0] == "c" and y[1] in (b"OKAY", b"WRTE"):
                            oks.append((tn, "true" if (y[1] == b"OKAY") == isinstance(t.ops[0], ast.Eq) else "false"))
        if len(oks) != 1:
            R.fail("ND-own", sub + "|branch", "the flush does not branch on OKAY vs WRTE of the packet it awaited", fl.loc(n.ast))
            continue
        tn, ok_lab = oks[0]
        w_lab = "false" if ok_lab == "true" else "true"
        starts = [d for d, l in g.succ[tn] if l == w_lab]
        r = g.reach(starts, avoid=[an], exc=False, include_start=True)
        R.check(n not in r and g.exit not in r, "ND-own", sub + "|kept-every-path", "every early WRTE payload is kept before waiting on", "an early WRTE payload can be dropped (a path from the WRTE branch avoids the append)", fl.loc(an.ast))
        R.check(an not in g.reach_from_edge(tn, ok_lab, avoid=[n], exc=False), "ND-own", sub + "|okay-not-kept", "an OKAY's payload is not put into the sync stream", "the payload of the OKAY packet is appended to the sync receive buffer", fl.loc(an.ast))
        R.check(an not in g.reach([an], avoid=[n], exc=False), "ND-own", sub + "|kept-once", "kept once", "an early WRTE payload can be appended twice", fl.loc(an.ast))
        if staged is not None:
            _acc, accname, flushes = staged
            accfalse = ("truthy", key(ast.Name(id=accname, ctx=ast.Load())))

            def not_known_empty(s_, d_, l_):
                return not any(fa[0] == accfalse and fa[1] is False for fa in df.edge_facts(s_, l_))
            starts_ok = [d for d, l in g.succ[tn] if l == ok_lab]
            r2 = g.reach(starts_ok, avoid=flushes, exc=False, edge_filter=not_known_empty, include_start=True)
            R.check(g.exit not in r2 and n not in r2, "ND-own", sub + "|staged-flushed", "what was collected in `%s` is appended to the receive buffer before the flush returns (skipped only when it is empty)" % accname,
                    "the early payloads collected in `%s` can be dropped: a path from the OKAY to the return avoids appending them to the receive buffer" % accname, fl.loc(an.ast))
            R.check(not any(g.in_cycle(x) for x in flushes) and not any(y in g.reach([x], exc=False) for x in flushes for y in flushes), "ND-own", sub + "|staged-once",
                    "collected payloads are appended once", "the collected early payloads can be appended twice", fl.loc(an.ast))
    # "never substitutes a timeout for a failure the device already reported": the time allowed for the OKAY starts when the data has been sent -
    # a clock started before the send charges the (possibly long) write to the wait, and the check only runs after an early report has come in
    from .c11 import deadline_tests, loop_nodes, raised_classes
    for n, c in reads:
        if not n.loops or not snd:
            continue
        governed = set()
        for (tn, _bound, start, _g) in deadline_tests(ctx, fl, n.loops[-1]):
            governed |= set(g.reach_from_edge(tn, "true", exc=False))
            if isinstance(start, str) and start.startswith("start@"):
                sn_ = g.nodes[int(start[6:])]
                R.check(g.dominates([snd[0][0]], sn_), "ND-own", q + "|clock-after-send", "the wait for the OKAY is timed from the moment the data was sent",
                        "the deadline for the OKAY is measured from before the data is sent: a slow write eats the time allowed for the device's answer", fl.loc(sn_.ast))
        # ... and the wait gives up on nothing else: a time-out raised in this loop on any other condition (the age of the whole transaction, a
        # clock kept elsewhere) can fire right after an early failure report came in, replacing it
        for x in g.live_nodes():
            if x.kind == "stmt" and isinstance(x.ast, ast.Raise) and n.loops[-1] in x.loops and "AdbTimeoutError" in raised_classes(ctx, fl, x, x.ast.exc):
                R.check(x in governed, "ND-own", q + "|timeout-own-clock|" + norm_stmt(x.ast)[:40], "a time-out raised in the OKAY wait is decided by the wait's own clock",
                        "a time-out in the OKAY wait is not decided by a clock this wait started after sending: it can replace a failure the device has already reported", fl.loc(x.ast))
    # the other awaiting sites, for the record (the rule is deliberately not applied there, see DESIGN section 5 C10)
