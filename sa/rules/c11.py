"""C11 - no operation hangs: a stalled device produces a timeout error in bounded time.

Decided: every loop whose body contains a non-progress I/O call (transport read/write, packet reader: they may
return without the awaited item) has, on every cycle, an unconditional deadline check `now - start > read_timeout`
(start taken from the same clock before the loop) whose true branch reaches `raise AdbTimeoutError` without
re-entering the loop; no handler inside an I/O loop swallows and retries; every transport call receives the
transaction's transport timeout; transaction objects are built from the caller's timeouts (ARG); order reasoning
on the constructor shows transport <= read <= total; the timeout attributes have a closed writer set; the drain
generator checks the whole-command limit on every cycle.  Not decided: the numeric bound, None/negative values.
"""
import ast

from ..argrule import arg_rule
from ..loader import AnalysisError, walk_own
from ..dataflow import key, varkey, unawait
from ..engine import terms
from ..roles import all_roles, reaches_io
from ..terms import show
from ..util import src, node_calls, call_attr, norm_stmt, attr_writes, own_calls
from .c15 import loop_nodes, loop_exit_edges

LEVEL = "other"

CLOCKS = ("time.time", "time.monotonic", "time.perf_counter")


def _is_clock_call(ctx, f, e):
    e = unawait(e)
    if not isinstance(e, ast.Call) or e.args or e.keywords:
        return None
    cs = ctx.cg.site(e)
    if cs is not None and cs.ext in CLOCKS:
        return cs.ext
    return None


def contradictory(fa, fb):
    """Two sets of atomic facts that cannot hold together (syntactic: same atom with opposite polarity, or x == y with x < y)."""
    for a in fa:
        for b in fb:
            if a[0] == b[0] and a[1] != b[1]:
                return True
            for x, y in ((a, b), (b, a)):
                if x[0][0] == "eq" and x[1] is True and y[0][0] == "lt" and y[1] is True and set(x[0][1:]) == set(y[0][1:]):
                    return True
                # x <= y false (i.e. y < x) together with x < y ... not needed
    return False


def _guard_false_leaves_loop(ctx, f, head, n, extra):
    """The deadline comparison at test node n is only evaluated when the conjuncts `extra` hold.  That is as good as an
    unconditional check if, whenever one of them is false, the loop is left before another cycle starts: no definition of
    their variables between n and the loop head, and their negation contradicts the loop condition."""
    from ..dataflow import test_facts, vars_in
    if head.kind != "test" or not isinstance(head.ast, ast.While):
        return False
    g = ctx.cfg(f)
    df = ctx.df(f)
    mid = g.reach_from_edge(n, "false", avoid=[head], exc=False) & set(loop_nodes(g, head))
    for e in extra:
        vs = vars_in(e)
        for m in mid:
            if m is head:
                continue
            for d in df.node_defs.get(m, []):
                if d.kind != "base" and (d.var in vs or any(d.var.startswith(v + ".") or v.startswith(d.var + ".") for v in vs)):
                    return False
        if not contradictory(test_facts(e, False), test_facts(head.ast.test, True)):
            return False
    return True


def resolve_copy(ctx, f, node, e):
    """Follow a local name to the expression it was (uniquely) assigned from: -> (defining node, expression)."""
    df = ctx.df(f)
    e = unawait(e)
    for _ in range(4):
        if not isinstance(e, ast.Name):
            break
        d = df.unique_def(node, e.id)
        if d is None or d.kind != "assign" or d.path or d.value is None:
            break
        node, e = d.node, unawait(d.value)
    return node, e


def raised_classes(ctx, f, node, exc):
    """Class names an expression raised at node may denote: a constructor call, a name bound to one, or a call of a package
    helper whose returns are all such expressions."""
    if exc is None:
        return {"<reraise>"}
    node, e = resolve_copy(ctx, f, node, exc)
    if isinstance(e, ast.Call):
        cs = ctx.cg.site(e)
        if cs is not None and cs.callees and all(not c.is_generator for c in cs.callees) and not any(isinstance(x, ast.ClassDef) for x in ()):
            out = set()
            for c in cs.callees:
                if c.name == "__init__":
                    out.add(c.cls.name)
                    continue
                g2 = ctx.cfg(c)
                rets = [rn for rn in g2.live_nodes() if rn.kind == "stmt" and isinstance(rn.ast, ast.Return)]
                if not rets:
                    return {"?"}
                for rn in rets:
                    out |= raised_classes(ctx, c, rn, rn.ast.value)
            return out
        fn = e.func
        return {fn.attr if isinstance(fn, ast.Attribute) else fn.id if isinstance(fn, ast.Name) else "?"}
    if isinstance(e, ast.Attribute):
        return {e.attr}
    if isinstance(e, ast.Name):
        return {e.id}
    return {"?"}


def deadline_tests(ctx, f, head):
    """Deadline test nodes inside the loop `head`: -> list of (node, bound expr, start var, guarded-by-None-test).
    Recognised: `[G and ...] now() - start > bound` (possibly through a temporary: `elapsed = now() - start`), start taken
    from the same clock before the loop, true branch reaching only `raise AdbTimeoutError` (built in place or by a
    helper).  Conjuncts G other than `bound is not None` are accepted when their failing means the loop is left."""
    g = ctx.cfg(f)
    df = ctx.df(f)
    inside = set(loop_nodes(g, head))
    out = []
    for n in inside:
        if n.kind != "test":
            continue
        conj = [n.ast.test]
        t = unawait(n.ast.test)
        if isinstance(t, ast.BoolOp) and isinstance(t.op, ast.And):
            conj = list(t.values)
        guard_none = []
        extra = []
        cmpx = None
        for c in conj:
            c = unawait(c)
            if isinstance(c, ast.Compare) and len(c.ops) == 1 and isinstance(c.ops[0], ast.IsNot) and isinstance(c.comparators[0], ast.Constant) and c.comparators[0].value is None:
                guard_none.append(key(c.left))
            elif cmpx is None and _elapsed(ctx, f, n, c, inside) is not None:
                cmpx = c
            elif cmpx is None:
                extra.append(c)       # evaluated before the comparison
            else:
                cmpx = None           # something after the comparison can veto the raise
                break
        if cmpx is None:
            continue
        start, clock, bound = _elapsed(ctx, f, n, cmpx, inside)
        if any(gk != key(bound) for gk in guard_none):
            continue
        if extra and not _guard_false_leaves_loop(ctx, f, head, n, extra):
            continue
        # true branch: reaches a raise of AdbTimeoutError, never the loop head nor a normal exit
        tgt = g.reach_from_edge(n, "true", exc=False)
        if head in tgt or g.exit in tgt:
            continue
        raises = [x for x in tgt if x.kind == "stmt" and isinstance(x.ast, ast.Raise)]
        if not raises or not all(raised_classes(ctx, f, x, x.ast.exc) == {"AdbTimeoutError"} for x in raises):
            continue
        out.append((n, bound, start, bool(guard_none)))
    return out


def _elapsed(ctx, f, n, cmp, inside):
    """A comparison that says "the clock has advanced by more than BOUND since START": `now() - start > bound`,
    `now() > start + bound`, `now() > deadline` with `deadline = start + bound` / `now() + bound` computed before the loop,
    `deadline < now()`, `deadline - now() < 0` ... (each side possibly through temporaries).  Decided on the signed sum of
    atoms of `greater - smaller`: exactly one +clock() read inside the loop, exactly one -clock() read before the loop (same
    clock), and one further negative atom, the bound, whose variables have the same definitions at the test.
    -> (start key, clock, bound expr) or None."""
    df = ctx.df(f)
    cmp = unawait(cmp)
    if not (isinstance(cmp, ast.Compare) and len(cmp.ops) == 1):
        return None
    op = cmp.ops[0]
    if isinstance(op, (ast.Gt, ast.GtE)):
        hi, lo = cmp.left, cmp.comparators[0]
    elif isinstance(op, (ast.Lt, ast.LtE)):
        hi, lo = cmp.comparators[0], cmp.left
    else:
        return None
    atoms = []

    def walk(node, e, sign, depth=0):
        e = unawait(e)
        if isinstance(e, ast.BinOp) and isinstance(e.op, (ast.Add, ast.Sub)):
            walk(node, e.left, sign, depth)
            walk(node, e.right, sign if isinstance(e.op, ast.Add) else -sign, depth)
            return
        if isinstance(e, ast.Constant) and e.value == 0 and not isinstance(e.value, bool):
            return
        if isinstance(e, ast.Name) and depth < 6:
            d = df.unique_def(node, e.id)
            if d is not None and d.kind == "assign" and not d.path and d.value is not None:
                v = unawait(d.value)
                if (isinstance(v, ast.BinOp) and isinstance(v.op, (ast.Add, ast.Sub))) or _is_clock_call(ctx, f, v) or isinstance(v, ast.Name):
                    walk(d.node, v, sign, depth + 1)
                    return
        atoms.append((sign, node, e))
    walk(n, hi, 1)
    walk(n, lo, -1)
    now = [(sg, nd, e) for (sg, nd, e) in atoms if _is_clock_call(ctx, f, e) and sg > 0]
    then = [(sg, nd, e) for (sg, nd, e) in atoms if _is_clock_call(ctx, f, e) and sg < 0]
    rest = [(sg, nd, e) for (sg, nd, e) in atoms if not _is_clock_call(ctx, f, e)]
    if len(now) != 1 or len(then) != 1 or len(rest) != 1 or rest[0][0] >= 0:
        return None
    (_, n_now, e_now), (_, n_then, e_then), (_, n_b, bound) = now[0], then[0], rest[0]
    clock = _is_clock_call(ctx, f, e_now)
    if _is_clock_call(ctx, f, e_then) != clock:
        return None
    if not (n_now is n or n_now in inside) or n_then in inside or n_then is n:
        return None              # elapsed time computed before the loop never advances; a start taken inside restarts every cycle
    if n_b is not n:
        for x in ast.walk(bound):
            if isinstance(x, ast.Name) and set(id(d) for d in df.reaching(n, x.id)) != set(id(d) for d in df.reaching(n_b, x.id)):
                return None
    return ("start@%d" % n_then.id if hasattr(n_then, "id") else "start", clock, bound)


def check(ctx, R):
    T = terms(ctx)
    for roles in all_roles(ctx):
        loop_rules(ctx, R, roles, T)
        _whole_command(ctx, R, roles, T)
        _forwarding(ctx, R, roles, T)
    _order(ctx, R, T)
    _writers(ctx, R)
    arg_rule(ctx, R, "timeouts", "ARG-timeouts", min_count=40)
    R.assume("time.time() is the clock of both ends of each comparison; transports honour the timeout they are given (C18/C20)")
    R.undecided("'within a small multiple of read+transport timeout' is a numeric time bound; only the presence of a deadline on every cycle is static. Behaviour for None/negative timeouts depends on run-time comparisons")


def loop_rules(ctx, R, roles, T):
    rio = reaches_io(ctx)
    if True:
        tag = roles.tag
        np_funcs = {roles.packet_reader}
        n_np_loops = 0
        n_loops = 0
        for f in roles.mod.all_funcs:
            if f.cls not in (roles.io_cls, roles.dev_cls):
                continue
            g = ctx.cfg(f)
            df = ctx.df(f)
            heads = [n for n in g.live_nodes() if (n.kind == "test" and isinstance(n.ast, ast.While)) or n.kind == "iter"]
            for head in heads:
                n_loops += 1
                inside = loop_nodes(g, head)
                np_nodes = []
                io_nodes = []
                for n in inside:
                    for c in node_calls(n):
                        cs = ctx.cg.site(c)
                        a = call_attr(c)
                        if a in ("bulk_read", "bulk_write") or (cs is not None and any(x in np_funcs for x in cs.callees)):
                            np_nodes.append(n)
                        elif cs is not None and any(x in rio for x in cs.callees):
                            io_nodes.append(n)
                sub = "%s|loop:%s" % (f.qualname, norm_stmt(head.exprs()[0]))
                if np_nodes:
                    n_np_loops += 1
                    dl = deadline_tests(ctx, f, head)
                    dl_read = [d for d in dl if _is_read_timeout(T, f, d[0], d[1]) and not d[3]]
                    if not dl_read:
                        R.fail("LOOP", sub, "a loop around `%s` (which may return without the awaited data) has no unconditional deadline check against read_timeout_s that raises AdbTimeoutError: a stalled or trickling device blocks the call forever" % norm_stmt(np_nodes[0].exprs()[0]), f.loc(head.ast))
                        continue
                    dnodes = [d[0] for d in dl_read]
                    for n in np_nodes:
                        r = g.reach([n], avoid=dnodes, exc=True)
                        R.check(head not in r, "LOOP", sub + "|every-cycle|" + norm_stmt(n.exprs()[0]),
                                "every cycle after `%s` passes the deadline check" % norm_stmt(n.exprs()[0]),
                                "after `%s` the loop can continue without passing the deadline check (conditional check / continue / handler bypass)" % norm_stmt(n.exprs()[0]), f.loc(n.ast))
                elif io_nodes:
                    R.ok("LOOP-progress", sub, "loop contains only progress calls (each returns the awaited item or raises)", f.loc(head.ast))
                if np_nodes or io_nodes:
                    # no swallowing handler that loops back
                    for n in inside:
                        if n.kind == "except":
                            from .c12 import handler_completes
                            tr = [t for (t, region) in n.trys if region == "handler" and n.ast in t.handlers]
                            body_calls = [c for t in tr for st in t.body for c in ast.walk(st) if isinstance(c, ast.Call)]
                            only_cb = bool(body_calls) and all((isinstance(c.func, ast.Name) and c.func.id in f.params and "callback" in c.func.id) or
                                                               (isinstance(c.func, ast.Name) and c.func.id in ("len", "int")) for c in body_calls)
                            if handler_completes(g, n) and not only_cb:
                                R.fail("LOOP-retry", sub + "|" + (norm_stmt(n.ast.type) if n.ast.type is not None else "bare"),
                                       "an exception handler inside an I/O loop swallows the error and lets the loop go on: timeouts are retried without bound", f.loc(n.ast))
        R.count("LOOP[%s]" % tag, n_np_loops, 4)
        R.rule_counts["loops[%s]" % tag] = n_loops
        _await_subset(ctx, R, roles, T)


def _await_subset(ctx, R, roles, T):
    """A loop that awaits packets of a set E through _read_until but can only be left on a proper subset of E keeps spinning as
    long as the device sends the other commands (each one restarts the read timeout): it needs its own deadline, unless it hands
    every such packet to its caller (a generator that yields per cycle)."""
    from ..util import fold_cmd_list
    from .c04 import callee_nodes
    ru = roles.dev["_read_until"]
    for f in roles.dev_cls.methods.values():
        g = ctx.cfg(f)
        df = ctx.df(f)
        for n, c in callee_nodes(ctx, f, ru):
            if not n.loops:
                continue
            head = n.loops[-1]
            exp = fold_cmd_list(T, f, n, ctx.cg.site(c).bind(ru).get(ru.call_params[0]))
            if exp is None or len(set(exp)) < 2:
                continue
            inside = set(loop_nodes(g, head))
            yields = [m for m in inside if any(isinstance(x, (ast.Yield, ast.YieldFrom)) for e in m.exprs() for x in ast.walk(e))]
            if yields:
                continue          # control returns to the caller on every cycle (drain generator; bounded by its whole-command check)
            rt = T.term(f, n, c)
            # commands on which the loop can be left normally
            leave = set()
            for (m, d, l) in loop_exit_edges(g, head):
                have = set(df.facts(m)) | df.edge_facts(m, l)
                for fa in have:
                    if fa[0][0] == "eq" and fa[1] is True:
                        for x in fa[0][1:]:
                            for cmdb in set(exp):
                                if ("value=%r" % cmdb) in x or cmdb.decode() in x:
                                    leave.add(cmdb)
            stay = set(exp) - leave
            sub = "%s|await%s" % (f.qualname, sorted(x.decode() for x in set(exp)))
            if not stay:
                continue
            dl = [d for d in deadline_tests(ctx, f, head) if _is_read_timeout(T, f, d[0], d[1]) and not d[3]]
            # every cycle of the loop passes a deadline check (wherever in the cycle the read sits)
            ok = bool(dl) and head not in g.reach([head], avoid=[d[0] for d in dl], exc=True)
            R.check(ok, "LOOP-await", sub, "the wait for %s, during which %s packets are accepted, has its own deadline on every cycle" % (sorted(x.decode() for x in leave), sorted(x.decode() for x in stay)),
                    "the loop awaits %s but also accepts %s without a deadline of its own: a device that keeps sending those (each within the read timeout) makes the operation spin for ever" % (
                        sorted(x.decode() for x in leave) or "an exit", sorted(x.decode() for x in stay)), f.loc(head.ast))


def _is_read_timeout(T, f, node, bound):
    t = T.term(f, node, bound)
    return t[0] == "attr" and t[2] == "read_timeout_s"


def _whole_command(ctx, R, roles, T):
    f = roles.dev["_read_until_close"]
    g = ctx.cfg(f)
    heads = [n for n in g.live_nodes() if n.kind == "test" and isinstance(n.ast, ast.While)]
    R.check(len(heads) == 1, "LOOP-total", f.qualname + "|loop", "drain generator has one loop", "drain generator has %d loops" % len(heads), f.loc())
    for head in heads:
        dl = [d for d in deadline_tests(ctx, f, head) if T.term(f, d[0], d[1])[0] == "attr" and T.term(f, d[0], d[1])[2] == "timeout_s"]
        if not dl:
            R.fail("LOOP-total", f.qualname + "|whole-command", "the drain loop has no whole-command deadline (`timeout_s is not None and now - start > timeout_s` raising AdbTimeoutError)", f.loc(head.ast))
            continue
        dn = [d[0] for d in dl]
        # on every cycle that delivered data (yield) the check is passed before reading again
        ys = [n for n in loop_nodes(g, head) if any(isinstance(x, (ast.Yield, ast.YieldFrom)) for e in n.exprs() for x in ast.walk(e))]
        ok = bool(ys)
        for y in ys:
            if head in g.reach([y], avoid=dn, exc=False):
                ok = False
        R.check(ok, "LOOP-total", f.qualname + "|whole-command", "after every delivered chunk the whole-command limit is checked",
                "the whole-command limit is not checked on every cycle of the drain loop", f.loc(head.ast))
        R.check(all(d[3] for d in dl), "LOOP-total", f.qualname + "|none-guard", "limit applies only when timeout_s is not None", "whole-command check compares against a timeout that may be None", f.loc(head.ast))


def _forwarding(ctx, R, roles, T):
    """Every transport call gets adb_info.transport_timeout_s; every transaction object gets the caller's timeouts."""
    n = 0
    for f in roles.io_cls.methods.values():
        g = ctx.cfg(f)
        for node in g.live_nodes():
            for c in node_calls(node):
                a = call_attr(c)
                if a in ("bulk_read", "bulk_write", "connect") and isinstance(c.func, ast.Attribute) and varkey(unawait(c.func.value)) == f.params[0] + "._transport":
                    n += 1
                    idx = 0 if a == "connect" else 1
                    targ = c.args[idx] if len(c.args) > idx else next((k.value for k in c.keywords if k.arg == "transport_timeout_s"), None)
                    t = T.term(f, node, targ) if targ is not None else ("missing",)
                    ok = t[0] == "attr" and t[2] == "transport_timeout_s" and t[1][0] == "p"
                    R.check(ok, "TERM-timeout", "%s|%s" % (f.qualname, norm_stmt(c)), "transport call receives the transaction's transport_timeout_s",
                            "transport call `%s` receives %s instead of adb_info.transport_timeout_s (None means: block forever)" % (norm_stmt(c), show(t)), f.loc(node.ast))
    R.count("TERM-timeout[%s]" % roles.tag, n, 3)
    # transaction objects
    for fname in ("_open", "connect"):
        f = roles.dev[fname]
        g = ctx.cfg(f)
        for node in g.live_nodes():
            for c in node_calls(node):
                if isinstance(c.func, ast.Name) and c.func.id == "_AdbTransactionInfo":
                    t = T.term(f, node, c)
                    b = dict(t[2]) if t[0] == "new" else {}
                    tt = b.get("transport_timeout_s")
                    selfn = f.params[0]
                    want = ("ite", ("cond", ("cmp", ("p", "transport_timeout_s"), ("c", "IsNot"), ("c", None))), ("p", "transport_timeout_s"), ("attr", ("p", selfn), "_default_transport_timeout_s"))
                    want2 = ("ite", ("cond", ("cmp", ("p", "transport_timeout_s"), ("c", "Is"), ("c", None))), ("attr", ("p", selfn), "_default_transport_timeout_s"), ("p", "transport_timeout_s"))
                    R.check(tt in (want, want2), "TERM-timeout", "%s|ctor|transport" % f.qualname, "transport timeout = caller's value, else the device default",
                            "transaction transport timeout is %s, expected the caller's transport_timeout_s with fallback to the device default" % (show(tt) if tt else "?"), f.loc(node.ast))
                    rt = b.get("read_timeout_s")
                    R.check(rt == ("p", "read_timeout_s"), "TERM-timeout", "%s|ctor|read" % f.qualname, "read timeout = caller's read_timeout_s",
                            "transaction read timeout is %s, not the caller's read_timeout_s" % (show(rt) if rt else "?"), f.loc(node.ast))
                    if fname == "_open":
                        to = b.get("timeout_s")
                        R.check(to == ("p", "timeout_s"), "TERM-timeout", "%s|ctor|total" % f.qualname, "total timeout = caller's timeout_s",
                                "transaction total timeout is %s, not the caller's timeout_s" % (show(to) if to else "?"), f.loc(node.ast))
    # auth wait
    f = roles.io_connect
    ws = [(k, st) for k, st, kind in attr_writes(f) if k.endswith(".transport_timeout_s")]
    R.check(len(ws) == 1 and isinstance(ws[0][1], ast.Assign) and isinstance(ws[0][1].value, ast.Name) and ws[0][1].value.id == "auth_timeout_s",
            "TERM-timeout", f.qualname + "|auth-wait", "the wait for the user's confirmation uses auth_timeout_s",
            "the auth wait does not set the transport timeout to auth_timeout_s exactly once", f.loc())


def _le(a, b, not_none=()):
    """Is a <= b derivable by: reflexivity, min(x..) <= x, case split on ite?  not_none: param names assumed not None."""
    if a == b:
        return True
    if a[0] == "call" and a[1] == "builtins.min":
        if any(_le(x, b, not_none) for x in a[2]):
            return True
    if a[0] == "ite":
        cond = a[1]
        # ite(X is None, u, v): if X assumed not None only v counts
        c = cond[1] if cond[0] == "cond" else None
        if c is not None and c[0] == "cmp" and len(c) == 4 and c[3] == ("c", None) and c[1][0] == "p" and c[1][1] in not_none:
            if c[2] == ("c", "Is"):
                return _le(a[3], b, not_none)
            if c[2] == ("c", "IsNot"):
                return _le(a[2], b, not_none)
        return _le(a[2], b, not_none) and _le(a[3], b, not_none)
    return False


def _order(ctx, R, T):
    cls = ctx.pkg.cls("hidden_helpers._AdbTransactionInfo")
    init = cls.methods["__init__"]
    b = {p: ("p", p) for p in init.params[1:]}
    obj = ("new", cls.qualname, tuple(sorted(b.items())))
    tr = T.attr(obj, "transport_timeout_s")
    rd = T.attr(obj, "read_timeout_s")
    to = T.attr(obj, "timeout_s")
    loc = init.loc()
    R.check(to == ("p", "timeout_s"), "ORDER", cls.qualname + "|total", "total timeout stored unchanged", "total timeout is %s" % show(to), loc)
    R.check(_le(tr, rd), "ORDER", cls.qualname + "|transport<=read", "effective transport timeout <= effective read timeout (by min / case split)",
            "cannot derive transport' <= read': transport' = %s, read' = %s" % (show(tr), show(rd)), loc)
    R.check(_le(rd, ("p", "timeout_s"), not_none=("timeout_s",)), "ORDER", cls.qualname + "|read<=total", "effective read timeout <= total when a total is given",
            "cannot derive read' <= total: read' = %s" % show(rd), loc)
    R.check(_le(rd, ("p", "read_timeout_s")), "ORDER", cls.qualname + "|read<=given", "effective read timeout never exceeds the caller's read_timeout_s",
            "effective read timeout %s can exceed the caller's read_timeout_s" % show(rd), loc)
    R.check(_le(tr, ("p", "transport_timeout_s"), not_none=("transport_timeout_s",)), "ORDER", cls.qualname + "|transport<=given", "effective transport timeout never exceeds the caller's",
            "effective transport timeout %s can exceed the caller's transport_timeout_s" % show(tr), loc)


def _writers(ctx, R):
    """Timeout attributes: written only by the transaction constructor and the auth-wait site."""
    attrs = ("transport_timeout_s", "read_timeout_s", "timeout_s")
    for f in ctx.pkg.funcs.values():
        if f.mod.name.startswith("transport.") or f.mod.name.startswith("auth."):
            continue
        for k, st, kind in attr_writes(f):
            a = k.split(".")[-1]
            if a in attrs:
                ok = (f.qualname == "hidden_helpers._AdbTransactionInfo.__init__") or (f.name == "connect" and f.cls is not None and "IOManager" in f.cls.name and a == "transport_timeout_s")
                R.check(ok, "WMC-timeout", "%s|%s" % (f.qualname, norm_stmt(st)), "allowed writer of `%s`" % a,
                        "`%s` is modified in %s: timeouts must only be set by the transaction constructor (and the auth wait)" % (a, f.qualname), f.loc(st))
