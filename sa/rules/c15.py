"""C15 - every message reaches the peer completely even when the transport writes short.

RET rule: the byte count returned by every transport write is consumed by a write-all loop (or a comparison that
raises).  Transport side: the shipped transports report the true count.
The write loop is entered whenever the buffer is not empty (exits that avoid it are decided under len(buffer) >= 1); no handler around a write
(RET-retry), and none around any call from which a write is reachable (RET-swallow), catches the AdbTimeoutError of a short write and completes.
"""
import ast

from ..loader import AnalysisError, walk_own
from ..dataflow import key, varkey, unawait, test_facts
from ..util import src, node_calls, call_attr, norm_stmt

LEVEL = "other"


def loop_nodes(g, head):
    """The loop of `head`: the nodes nested in it that can start another cycle (reach the head again).  Statements of the
    body that only lead out of the function (`if done: return x`, a raise arm) are not part of the loop: the edge into
    them is an exit edge, exactly as if they were written after a `break`."""
    cache = g.__dict__.setdefault("_loop_nodes", {}) if hasattr(g, "__dict__") else {}
    if head in cache:
        return cache[head]
    syn = set(n for n in g.nodes if n is head or head in n.loops)
    back = {head}
    work = [head]
    while work:
        x = work.pop()
        for p, _l in g.pred[x]:
            if p in syn and p not in back:
                back.add(p)
                work.append(p)
    out = [n for n in g.nodes if n in back]
    cache[head] = out
    return out


def loop_body_nodes(g, head):
    """Lexical membership: every node written inside the loop statement (including arms that leave the function)."""
    return [n for n in g.nodes if n is head or head in n.loops]


def loop_exit_edges(g, head):
    """Normal (non-exceptional) edges leaving the loop whose head is `head` towards a normal end of the function (edges into an
    arm that can only raise are not exits of the loop, they abort it)."""
    inside = set(loop_nodes(g, head))
    out = []
    for n in inside:
        for d, l in g.succ[n]:
            if l == "exc" and not (head in d.loops):
                continue          # propagates out of the loop statement: an abort, not an exit
            if d not in inside:
                # (an exceptional edge into a handler written inside the loop that then leaves normally - `except: break` - is an exit)
                if d is not g.exit and g.exit not in g.reach([d], exc=False, include_start=True):
                    continue
                out.append((n, d, l))
    return out


def writeall_shape(ctx, func, cfgnode, call, R=None):
    """Is `call` (a transport write at cfgnode) the body of a write-all loop?  Returns (ok, reason, info).
    First the common spellings are matched directly; otherwise the loop is checked as an inductive linear invariant."""
    ok, why, info = _writeall_direct(ctx, func, cfgnode, call)
    if ok:
        return ok, why, info
    ok2, why2, info2 = _writeall_linear(ctx, func, cfgnode, call)
    if ok2:
        return ok2, why2, info2
    return ok, why, info


def _writeall_linear(ctx, func, cfgnode, call):
    """start(slice written) advances by exactly the count returned per iteration, is 0 on entry, and the loop is left normally
    only when start >= len(buffer).  Counters may count up (`sent += n`) or down (`remaining -= n`)."""
    from ..util import lin_ast, lin_add
    from .c06 import eval_dump
    df = ctx.df(func)
    g = df.g
    if not cfgnode.loops or cfgnode.kind != "stmt" or not call.args:
        return False, "not a loop", None
    head = cfgnode.loops[-1]
    inside = set(loop_nodes(g, head))
    st = cfgnode.ast
    # the count: v += write(..) / v -= write(..) / n = write(..) ; v += n
    deltas = {}
    if isinstance(st, ast.AugAssign) and isinstance(st.op, (ast.Add, ast.Sub)) and unawait(st.value) is call and isinstance(st.target, ast.Name):
        deltas[st.target.id] = (1 if isinstance(st.op, ast.Add) else -1, cfgnode)
    elif isinstance(st, ast.Assign) and unawait(st.value) is call and len(st.targets) == 1 and isinstance(st.targets[0], ast.Name):
        cnt = st.targets[0].id
        for n in inside:
            a = n.ast
            if n.kind == "stmt" and isinstance(a, ast.AugAssign) and isinstance(a.op, (ast.Add, ast.Sub)) and isinstance(a.target, ast.Name) and isinstance(unawait(a.value), ast.Name) and unawait(a.value).id == cnt:
                ds = df.reaching(n, cnt)
                if len(ds) == 1 and next(iter(ds)).node is cfgnode and a.target.id not in deltas:
                    deltas[a.target.id] = (1 if isinstance(a.op, ast.Add) else -1, n)
    if not deltas:
        return False, "the byte count returned by the write is discarded", None
    buf = unawait(call.args[0])
    staged = None
    if isinstance(buf, ast.Name) and buf.id not in func.params:
        # the slice is named just before the write (`pending = data[sent:]` at the top of the body): read it where it is written, provided nothing
        # it mentions changes between the two points
        d0 = df.unique_def(cfgnode, buf.id)
        if d0 is not None and d0.kind == "assign" and not d0.path and d0.value is not None and d0.node in inside and g.dominates([d0.node], cfgnode):
            names0 = set(n.id for n in ast.walk(d0.value) if isinstance(n, ast.Name))
            if all(set(df.reaching(d0.node, v)) == set(df.reaching(cfgnode, v)) for v in names0):
                buf = unawait(d0.value)
    if isinstance(buf, ast.Name) and buf.id not in func.params:
        # the remainder is kept in a variable: `pending = data` before the loop, `pending = data[sent:]` after each count
        P = buf.id
        defs = list(df.reaching(cfgnode, P))
        ins = [d for d in defs if d.node in inside]
        outs = [d for d in defs if d.node not in inside]
        if ins and outs and all(d.kind == "assign" and not d.path and d.value is not None for d in defs):
            def whole_or_suffix(v):
                v = unawait(v)
                if isinstance(v, ast.Subscript) and isinstance(v.slice, ast.Slice) and v.slice.step is None and v.slice.lower is not None \
                        and (v.slice.upper is None or key(v.slice.upper) == key(_len_of(v.value))):
                    return v
                if varkey(v) is not None:
                    return ast.Subscript(value=v, slice=ast.Slice(lower=ast.Constant(value=0), upper=None, step=None), ctx=ast.Load())
                return None
            iv = [whole_or_suffix(d.value) for d in ins]
            ov = [whole_or_suffix(d.value) for d in outs]
            def starts_at_zero(x, d):
                # `data` / `data[0:]`, or the same slice as inside the loop taken while the counters still have their initial values
                if isinstance(x.slice.lower, ast.Constant) and x.slice.lower.value == 0:
                    return True
                if key(x) != key(iv[0]):
                    return False
                for nm in set(n_.id for n_ in ast.walk(x.slice.lower) if isinstance(n_, ast.Name)):
                    if set(id(q) for q in df.reaching(d.node, nm)) != set(id(q) for q in df.reaching(head, nm) if q.node not in inside):
                        return False
                return True
            if all(x is not None for x in iv + ov) and len(set(key(x) for x in iv)) == 1 and all(varkey(x.value) == varkey(iv[0].value) and starts_at_zero(x, d) for x, d in zip(ov, outs)):
                staged = (P, [d.node for d in ins])
                buf = iv[0]
    if not (isinstance(buf, ast.Subscript) and isinstance(buf.slice, ast.Slice) and buf.slice.step is None and buf.slice.lower is not None):
        return False, "the write does not resend the remainder `buffer[start:]`", None
    B = varkey(buf.value)
    if B is None:
        return False, "the buffer written is not a variable", None
    if buf.slice.upper is not None and key(buf.slice.upper) != key(_len_of(buf.value)):
        return False, "the slice written has an upper bound other than the buffer length", None
    S = lin_ast(buf.slice.lower, B)
    if S is None:
        return False, "the start of the slice written is not a linear expression of the counters", None
    for n in inside:
        for d in df.node_defs.get(n, []):
            if d.kind == "base":
                continue
            if d.var == B and d.strong:
                return False, "buffer `%s` is rebound inside the write loop" % B, None
            if d.var in S[0] and d.var in deltas and n is not deltas[d.var][1]:
                return False, "counter `%s` is also modified at `%s`" % (d.var, norm_stmt(n.ast)), None
            if d.var in S[0] and d.var not in deltas and d.var != "LEN":
                return False, "`%s`, which determines where the slice starts, changes in an unrecognised way" % d.var, None
    step = sum(S[0].get(v, 0) * deltas[v][0] for v in deltas)
    if step != 1:
        return False, "the start of the slice written does not advance by exactly the count returned (net %+d x count)" % step, None
    exits = [d for (_n, d, _l) in loop_exit_edges(g, head)]
    for v, (sg, m) in deltas.items():
        if v not in S[0]:
            continue
        r = g.reach([cfgnode], avoid=[m], exc=False) if m is not cfgnode else set()
        if head in r or any(x in r for x in exits):
            return False, "the returned count is not added to the counter on every path", None
    if staged is not None:
        P, pdefs = staged
        dnodes = [m for (_sg, m) in deltas.values()]

        def fresh_at(x):
            # after every change of a counter the variable is recomputed before x is reached
            return not any(x in g.reach([m], avoid=pdefs, exc=False) for m in dnodes)
        if not fresh_at(cfgnode):
            return False, "`%s` is written again without having been recomputed from the new count" % P, None
        for n in inside:
            for d in df.node_defs.get(n, []):
                if d.var == P and n not in pdefs:
                    return False, "`%s` is also modified at `%s`" % (P, norm_stmt(n.ast)), None
    # entry: S == 0
    init = ({}, S[1])
    for v, k in S[0].items():
        if v == "LEN":
            init = lin_add(init, ({"LEN": k}, 0))
            continue
        outer = [d for d in df.reaching(head, v) if d.node not in inside]
        if len(outer) != 1 or outer[0].kind != "assign" or outer[0].path or outer[0].value is None:
            return False, "counter `%s` has no single initial value" % v, None
        lf = lin_ast(outer[0].value, B)
        if lf is None or any(a not in ("LEN",) for a in lf[0]):
            return False, "counter `%s` does not start at a constant / len(%s)" % (v, B), None
        init = lin_add(init, ({a: b * k for a, b in lf[0].items()}, lf[1] * k))
    if init != ({}, 0):
        return False, "the first slice written does not start at offset 0", None
    # exits: remaining = len(B) - S <= 0
    rem = lin_add(({"LEN": 1}, 0), S, -1)

    def done(fa):
        try:
            xs = [eval_dump(x) for x in fa[0][1:]]
        except Exception:   # noqa
            return False
        kind, pol = fa[0][0], fa[1]
        if kind == "lt" and len(xs) == 2 and pol is False:
            la, lb = lin_ast(xs[0], B), lin_ast(xs[1], B)
            return la is not None and lb is not None and lin_add(lb, la, -1) == rem
        if kind == "eq" and len(xs) == 2 and pol is True:
            la, lb = lin_ast(xs[0], B), lin_ast(xs[1], B)
            return la is not None and lb is not None and (lin_add(la, lb, -1) == rem or lin_add(lb, la, -1) == rem)
        if kind == "truthy" and len(xs) == 1 and pol is False:
            la = lin_ast(xs[0], B)
            return la is not None and la == rem
        return False

    def staged_empty(n, fa):
        # `not pending` where pending is the current remainder
        return staged is not None and fa[0] == ("truthy", key(ast.Name(id=staged[0], ctx=ast.Load()))) and fa[1] is False and fresh_at(n)
    for (n, d, l) in loop_exit_edges(g, head):
        have = set(df.facts(n)) | df.edge_facts(n, l)
        if not any(done(fa) or staged_empty(n, fa) for fa in have):
            return False, "the loop can be left at `%s` while bytes remain" % (norm_stmt(n.ast) if n.ast is not None else n.kind), None
    return True, "write-all loop (linear invariant): `%s[start:]` with start advancing by the count written, until nothing remains" % B, {"buffer": B, "head": head, "offset": None}


def _writeall_direct(ctx, func, cfgnode, call):
    df = ctx.df(func)
    g = df.g
    if not cfgnode.loops:
        return False, "the write is not inside a loop: a short write truncates the message", None
    head = cfgnode.loops[-1]
    st = cfgnode.ast
    if cfgnode.kind != "stmt":
        return False, "the write's result is used as a condition, not as a byte count", None
    # -- where does the count go? -----------------------------------------------------
    off = None
    add_nodes = []
    if isinstance(st, ast.AugAssign) and isinstance(st.op, ast.Add) and unawait(st.value) is call:
        off = varkey(st.target)
        add_nodes = [cfgnode]
    elif isinstance(st, ast.Assign) and unawait(st.value) is call and len(st.targets) == 1 and isinstance(st.targets[0], ast.Name):
        cnt = st.targets[0].id
        for n in loop_nodes(g, head):
            a = n.ast
            if n.kind == "stmt" and isinstance(a, ast.AugAssign) and isinstance(a.op, ast.Add) and isinstance(a.value, ast.Name) and a.value.id == cnt:
                ds = df.reaching(n, cnt)
                if len(ds) == 1 and next(iter(ds)).node is cfgnode:
                    off = varkey(a.target)
                    add_nodes.append(n)
            if n.kind == "stmt" and isinstance(a, ast.Assign) and len(a.targets) == 1 and isinstance(a.value, ast.BinOp) and isinstance(a.value.op, ast.Add):
                names = [x.id for x in (a.value.left, a.value.right) if isinstance(x, ast.Name)]
                tk = varkey(a.targets[0])
                if cnt in names and tk in names and len(names) == 2:
                    ds = df.reaching(n, cnt)
                    if len(ds) == 1 and next(iter(ds)).node is cfgnode:
                        off = tk
                        add_nodes.append(n)
        if off is not None:
            # the addition must happen on every normal path from the write back to the loop head / out of the loop
            r = g.reach([cfgnode], avoid=set(add_nodes), exc=False)
            exits = [d for (_n, d, _l) in loop_exit_edges(g, head)]
            if head in r or any(x in r for x in exits):
                return False, "the returned count is not added to the offset on every path", None
        else:
            # consume-the-buffer shape: data = data[n:]
            return _consume_shape(ctx, func, cfgnode, call, cnt, head)
    else:
        return False, "the byte count returned by the write is discarded", None
    if off is None:
        return False, "the byte count returned by the write is discarded", None
    # -- the buffer argument is B[off:] ---------------------------------------------------
    if not call.args:
        return False, "write call without a buffer argument", None
    buf = unawait(call.args[0])
    if isinstance(buf, ast.Call) and isinstance(buf.func, ast.Name) and buf.func.id in ("memoryview", "bytes") and len(buf.args) == 1:
        buf = buf.args[0]
    if not (isinstance(buf, ast.Subscript) and isinstance(buf.slice, ast.Slice)):
        return False, "the write does not resend the remainder `buffer[offset:]`", None
    base = buf.value
    if isinstance(base, ast.Call) and isinstance(base.func, ast.Name) and base.func.id == "memoryview" and len(base.args) == 1:
        base = base.args[0]
    B = varkey(base)
    lo, hi, stp = buf.slice.lower, buf.slice.upper, buf.slice.step
    if B is None or lo is None or varkey(lo) != off or stp is not None:
        return False, "the slice written does not start at the running offset `%s`" % off, None
    if hi is not None and key(hi) != key(_len_of(base)):
        return False, "the slice written has an upper bound other than the buffer length", None
    # -- offset initialised to 0 outside, only advanced by the count inside ---------------------
    inside = set(loop_nodes(g, head))
    for n in inside:
        for d in df.node_defs.get(n, []):
            if d.var == off and n not in add_nodes:
                return False, "offset `%s` is also modified at `%s`" % (off, norm_stmt(n.ast)), None
            if d.var == B and d.strong:
                return False, "buffer `%s` is rebound inside the write loop" % B, None
    outer = [d for d in df.reaching(head, off) if d.node not in inside]
    if not outer or not all(d.kind == "assign" and isinstance(d.value, ast.Constant) and d.value.value == 0 and not d.path for d in outer):
        return False, "offset `%s` does not start at 0" % off, None
    # -- the loop is left normally only when nothing remains -------------------------------------
    want = test_facts(ast.Compare(left=ast.Name(id="__o", ctx=ast.Load()), ops=[ast.Lt()], comparators=[ast.Name(id="__l", ctx=ast.Load())]), False)
    lt_false = ("lt", key(_mk(off)), key(_len_of(base)))
    for (n, d, l) in loop_exit_edges(g, head):
        have = set(df.facts(n)) | df.edge_facts(n, l)
        if not any(f[0] == lt_false and f[1] is False for f in have):
            # also accept equality offset == len(buffer)
            eqk = tuple(sorted([key(_mk(off)), key(_len_of(base))]))
            if not any(f[0] == ("eq",) + eqk and f[1] is True for f in have):
                return False, "the loop can be left at `%s` while bytes remain (no `%s >= len(%s)` on that exit)" % (norm_stmt(n.ast) if n.ast is not None else n.kind, off, B), None
    return True, "write-all loop: `%s[%s:]` resent until `%s >= len(%s)`" % (B, off, off, B), {"offset": off, "buffer": B, "head": head}


def _consume_shape(ctx, func, cfgnode, call, cnt, head):
    """while data: n = write(data); data = data[n:]"""
    df = ctx.df(func)
    g = df.g
    buf = unawait(call.args[0]) if call.args else None
    B = varkey(buf) if buf is not None else None
    if B is None:
        return False, "the byte count returned by the write is discarded", None
    cons = []
    for n in loop_nodes(g, head):
        a = n.ast
        if n.kind == "stmt" and isinstance(a, ast.Assign) and len(a.targets) == 1 and varkey(a.targets[0]) == B \
                and isinstance(a.value, ast.Subscript) and varkey(a.value.value) == B and isinstance(a.value.slice, ast.Slice) \
                and isinstance(a.value.slice.lower, ast.Name) and a.value.slice.lower.id == cnt and a.value.slice.upper is None and a.value.slice.step is None:
            ds = df.reaching(n, cnt)
            if len(ds) == 1 and next(iter(ds)).node is cfgnode:
                cons.append(n)
    if not cons:
        return False, "the byte count returned by the write is discarded", None
    r = g.reach([cfgnode], avoid=set(cons), exc=False)
    exits = [d for (_n, d, _l) in loop_exit_edges(g, head)]
    if head in r or any(x in r for x in exits):
        return False, "the written prefix is not removed from the buffer on every path", None
    inside = set(loop_nodes(g, head))
    for n in inside:
        for d in df.node_defs.get(n, []):
            if d.var == B and d.strong and n not in cons:
                return False, "buffer `%s` is also rebound at `%s`" % (B, norm_stmt(n.ast)), None
    for (n, d, l) in loop_exit_edges(g, head):
        have = set(df.facts(n)) | df.edge_facts(n, l)
        ok = any(f[0] == ("truthy", key(_mk(B))) and f[1] is False for f in have)
        if not ok:
            return False, "the loop can be left while `%s` is non-empty" % B, None
    return True, "write-all loop: `%s` shrinks by the count until empty" % B, {"buffer": B, "head": head}


def _mk(varname):
    parts = varname.split(".")
    e = ast.Name(id=parts[0], ctx=ast.Load())
    for p in parts[1:]:
        e = ast.Attribute(value=e, attr=p, ctx=ast.Load())
    return e


def _len_of(base):
    return ast.Call(func=ast.Name(id="len", ctx=ast.Load()), args=[base], keywords=[])


def transport_write_sites(ctx):
    """All call sites named bulk_write outside adb_shell/transport/ (name-based: conservative who-may-call)."""
    out = []
    for f in ctx.pkg.funcs.values():
        if f.mod.name.startswith("transport."):
            continue
        g = ctx.cfg(f)
        for n in g.nodes:
            for c in node_calls(n):
                if call_attr(c) == "bulk_write":
                    out.append((f, n, c))
    return out


def transport_write_returns_count(ctx, R, cls, rule="RET-transport"):
    m = cls.methods.get("bulk_write")
    if m is None:
        R.fail(rule, cls.qualname + ".bulk_write", "transport has no bulk_write", cls.mod.relpath)
        return
    df = ctx.df(m)
    g = df.g
    if len(m.params) < 2:
        R.fail(rule, m.qualname, "bulk_write takes no data parameter", m.loc())
        return
    data = m.params[1]
    # data is never rebound
    for n in g.nodes:
        for d in df.node_defs.get(n, []):
            if d.var == data and d.kind not in ("param",) and n is not g.entry:
                R.fail(rule, m.qualname + "|data-rebound", "`%s` is modified before it is written (`%s`)" % (data, norm_stmt(n.ast)), m.loc(n.ast))
                return
    writes = {}   # cfgnode -> call
    for n in g.nodes:
        for c in node_calls(n):
            a = call_attr(c)
            if a in ("send", "bulkWrite", "write", "sendall", "sendto"):
                writes.setdefault(n, []).append(c)
    rets = [n for n in g.nodes if n.kind == "stmt" and isinstance(n.ast, ast.Return)]
    live = set(g.live_nodes())
    rets = [n for n in rets if n in live]
    if not rets or g.exit in g.reach([g.entry], avoid=set(rets), exc=False, include_start=True):
        R.fail(rule, m.qualname + "|falls-off", "bulk_write can finish without returning a byte count (returns None)", m.loc())
        return
    for rn in rets:
        v = unawait(rn.ast.value) if rn.ast.value is not None else None
        sub = norm_stmt(rn.ast)
        if v is None:
            R.fail(rule, m.qualname + "|" + sub, "returns None instead of the number of bytes written", m.loc(rn.ast))
            continue
        if isinstance(v, ast.Name):
            d = df.unique_def(rn, v.id)
            if d is not None and d.kind == "assign" and not d.path:
                v = unawait(d.value)
        if isinstance(v, ast.Call) and call_attr(v) in ("send", "bulkWrite"):
            has_data = any(isinstance(a, ast.Name) and a.id == data for a in v.args)
            R.check(has_data, rule, m.qualname + "|" + sub, "returns the count reported by %s(%s)" % (call_attr(v), data),
                    "the library write does not receive the whole `%s` argument: %s" % (data, src(v)), m.loc(rn.ast))
            continue
        if isinstance(v, ast.Call) and isinstance(v.func, ast.Name) and v.func.id == "len" and len(v.args) == 1 \
                and isinstance(v.args[0], ast.Name) and v.args[0].id == data:
            # allowed only after write(data) + drain() (asyncio streams buffer everything) or sendall(data)
            wn = [n for n, cs in writes.items() if any(call_attr(c) in ("write", "sendall") and any(isinstance(a, ast.Name) and a.id == data for a in c.args) for c in cs)]
            dn = [n for n in g.nodes if any(call_attr(c) == "drain" for c in node_calls(n))]
            full = bool(wn) and g.dominates(wn, rn, exc=False)
            drained = any(call_attr(c) == "sendall" for n in wn for c in writes[n]) or (bool(dn) and g.dominates(dn, rn, exc=False) and all(g.dominates(wn, d, exc=False) for d in dn))
            R.check(full and drained, rule, m.qualname + "|" + sub,
                    "returns len(%s) after the whole buffer was handed to the stream and drained" % data,
                    "returns len(%s) without having written and drained all of it on every path" % data, m.loc(rn.ast))
            continue
        R.fail(rule, m.qualname + "|" + sub, "return value `%s` is not the byte count of the write" % src(v), m.loc(rn.ast))


def _loop_always(ctx, f, n, call):
    """Every normal path that leaves the function without entering the write loop is one on which the buffer is empty: the tests on such a
    path are decided under `len(buffer) >= 1` with counters at their initial (constant or len(buffer)) values."""
    import copy as _copy
    from .c02 import len_cond_eval
    g = ctx.cfg(f)
    df = ctx.df(f)
    head = n.loops[0]
    buf = unawait(call.args[0]) if call.args else None
    while isinstance(buf, ast.Subscript):
        buf = buf.value
    if isinstance(buf, ast.Name) and buf.id not in f.params:
        d = df.unique_def(n, buf.id)
        ds = list(df.reaching(n, buf.id))
        roots = set()
        for d in ds:
            v = unawait(d.value) if d.value is not None else None
            while isinstance(v, ast.Subscript):
                v = v.value
            if isinstance(v, ast.Name):
                roots.add(v.id)
        pr = [r for r in roots if r in f.params]
        buf = ast.Name(id=pr[0], ctx=ast.Load()) if len(pr) == 1 else buf
    if not isinstance(buf, ast.Name):
        return g.dominates([head], g.exit, exc=False)
    return exits_only_if_empty(ctx, f, head, [buf.id])


def exits_only_if_empty(ctx, f, head, names):
    """Every normal path that leaves f without passing `head` (a loop over / a loop writing the sequences `names`) is one on which one of
    those sequences is empty: the tests on such a path are decided under `len(X) >= 1` for every X in names, with plain counters at their
    initial (constant or len(X)) values."""
    import copy as _copy
    from .c02 import len_cond_eval
    g = ctx.cfg(f)
    df = ctx.df(f)
    xkeys = [key(ast.Name(id=x, ctx=ast.Load())) for x in names]

    def subst(node, e):
        e = _copy.deepcopy(e)

        class S(ast.NodeTransformer):
            def visit_Name(self, x):
                if isinstance(x.ctx, ast.Load) and x.id not in names:
                    d = df.unique_def(node, x.id)
                    if d is not None and d.kind == "assign" and not d.path and d.value is not None:
                        v = unawait(d.value)
                        if isinstance(v, ast.Constant) and isinstance(v.value, int) and not isinstance(v.value, bool):
                            return _copy.deepcopy(v)
                        if isinstance(v, ast.Call) and isinstance(v.func, ast.Name) and v.func.id == "len" and len(v.args) == 1 and key(v.args[0]) in xkeys:
                            return _copy.deepcopy(v)
                return x
        return S().visit(e)

    def feasible(s_, d_, l_):
        if s_.kind == "test" and l_ in ("true", "false"):
            t = subst(s_, s_.ast.test)
            for xk in xkeys:
                r = len_cond_eval(t, xk, 1, None)
                if r is not None and r != (l_ == "true"):
                    return False
        return True
    return g.exit not in g.reach([g.entry], avoid=[head], exc=False, edge_filter=feasible, include_start=True)


def write_sites_rules(ctx, R):
    """Every transport write site: the write-all shape, and no handler that swallows a failed write and goes on."""
    sites = transport_write_sites(ctx)
    for f, n, c in sites:
        ok, why, info = writeall_shape(ctx, f, n, c)
        R.check(ok, "RET", "%s|%s" % (f.qualname, norm_stmt(n.ast)), why, why, f.loc(n.ast))
        if n.loops:
            R.check(_loop_always(ctx, f, n, c), "RET", "%s|always|%s" % (f.qualname, norm_stmt(n.ast)), "a non-empty buffer always enters the write loop",
                    "%s can return normally without entering its write loop although the buffer is not empty (an early return): the buffer is silently not written" % f.qualname, f.loc(n.ast))
        # a write whose exception is swallowed and retried can put bytes on the wire twice (or skip them): the call must raise
        from .c12 import handler_completes
        g = ctx.cfg(f)
        for (t, region) in n.trys:
            if region != "body":
                continue
            for h in t.handlers:
                hn = [x for x in g.nodes_of(h) if x.kind == "except"]
                if hn and handler_completes(g, hn[0]):
                    R.fail("RET-retry", "%s|%s" % (f.qualname, norm_stmt(h.type) if h.type is not None else "bare"),
                           "an exception of the transport write is swallowed (`except %s`) and the write loop goes on: data a transport already buffered before failing is sent again, or a failed write is ignored - the message no longer arrives exactly once, in order" % (norm_stmt(h.type) if h.type is not None else ""), f.loc(h))
    # the write-all loop reports a short write by raising AdbTimeoutError: no caller, however far up, may swallow that and return normally
    from .c12 import handler_completes
    W = set(f for f, _n, _c in sites)
    reach_w = {}

    def reaches(fn):
        if fn not in reach_w:
            reach_w[fn] = bool(ctx.cg.reachable([fn]) & W)
        return reach_w[fn]

    def catches_timeout(h):
        if h.type is None:
            return True
        ts = h.type.elts if isinstance(h.type, ast.Tuple) else [h.type]
        for t in ts:
            nm = t.attr if isinstance(t, ast.Attribute) else (t.id if isinstance(t, ast.Name) else None)
            if nm in ("AdbTimeoutError", "Exception", "BaseException"):
                return True
        return False
    for f in list(ctx.cg.sites):
        if not any(reaches(c) for cs in ctx.cg.sites[f] for c in cs.callees):
            continue
        g = ctx.cfg(f)
        for n in g.live_nodes():
            if not n.trys:
                continue
            if not any(ctx.cg.site(c) is not None and any(reaches(x) for x in ctx.cg.site(c).callees) for c in node_calls(n)):
                continue
            for (t, region) in n.trys:
                if region != "body":
                    continue
                for h in t.handlers:
                    hn = [x for x in g.nodes_of(h) if x.kind == "except"]
                    if catches_timeout(h) and hn and handler_completes(g, hn[0]):
                        R.fail("RET-swallow", "%s|%s|%s" % (f.qualname, norm_stmt(h.type) if h.type is not None else "bare", norm_stmt(n.ast)[:40]),
                               "`%s` in %s sends a message inside a handler (`except %s`) that completes normally: the AdbTimeoutError by which the write loop reports a half-written message is swallowed and the call returns as if the message had been sent" % (norm_stmt(n.ast)[:50], f.qualname, norm_stmt(h.type) if h.type is not None else ""), f.loc(h))
    return sites


def check(ctx, R):
    sites = write_sites_rules(ctx, R)
    R.count("RET", len(sites), 2)
    # the write-all function must receive whole buffers: its callers pass their buffer unchanged (checked in C02);
    # here: the buffer parameter of the write-all function is not modified before the loop
    pkg = ctx.pkg
    for cq in ("transport.tcp_transport.TcpTransport", "transport.tcp_transport_async.TcpTransportAsync"):
        transport_write_returns_count(ctx, R, pkg.cls(cq))
    usb = pkg.classes.get("transport.usb_transport.UsbTransport")
    if usb is not None:
        transport_write_returns_count(ctx, R, usb)
    R.assume("socket.send / libusb bulkWrite report the number of bytes accepted; asyncio StreamWriter.write buffers the whole argument")
    R.undecided("kernel socket behaviour, real loopback sessions with constrained buffers (run-time)")
