"""C08 - pull writes exactly the device file, for every device chunking.

Decided: the buffered sync reader takes exactly n bytes from the front of the receive buffer (loop until
len(buffer) >= n, each WRTE payload appended exactly once, result buffer[:n], remainder buffer[n:]); the record
reader reads a header of calcsize(format) bytes, the payload size is the header's last field and the payload
returned is that read; the record generator yields each record it read and stops only after a finish id; _pull
writes the payload of every DATA record exactly once, in order, leaves only on DONE, sends RECV(path) first; the
progress callback is contained and sees len(chunk); pull closes the stream in `finally`.
_pull / pull return normally only after RECV was sent and the records were read (no early return).
"""
import ast

from ..argrule import arg_rule
from ..loader import AnalysisError
from ..dataflow import key, varkey, unawait
from ..engine import terms
from ..roles import all_roles
from ..terms import show
from ..util import src, node_calls, call_attr, norm_stmt, fold_cmd_list, cmds_of_term
from .c04 import callee_nodes
from .c01 import yields_of
from .c15 import loop_nodes, loop_exit_edges

LEVEL = "other"


def check(ctx, R):
    T = terms(ctx)
    for roles in all_roles(ctx):
        buffered_reader(ctx, R, roles, T)
        record_reader(ctx, R, roles, T)
        record_generator(ctx, R, roles, T)
        _pull(ctx, R, roles, T)
        _pull_public(ctx, R, roles, T)
        buffer_access(ctx, R, roles)
        from .c10 import _nd_own as early_reply_rules      # file data that overtakes the OKAY for the RECV request is part of the file
        early_reply_rules(ctx, R, roles, T)
    _txinfo(ctx, R, T)
    from .c03 import _read_exact as read_exact_rules, _packet_reader as packet_reader_rules
    for roles in all_roles(ctx):
        read_exact_rules(ctx, R, roles, T)        # "all read fragmentations"
        packet_reader_rules(ctx, R, roles, T)
    arg_rule(ctx, R, "files", "ARG-files", min_count=10)
    R.assume("struct.unpack / bytearray slicing behave as documented; stream.write writes all bytes it is given")


def buffered_reader(ctx, R, roles, T, rule="BUF"):
    f = roles.dev["_filesync_read_buffered"]
    ru = roles.dev["_read_until"]
    g = ctx.cfg(f)
    df = ctx.df(f)
    q = f.qualname
    size = f.params[1]
    reads = callee_nodes(ctx, f, ru)
    R.count("%s[%s]" % (rule, roles.tag), len(reads), 1)
    if len(reads) != 1:
        R.fail(rule, q + "|reads", "the buffered reader must read at one site, found %d" % len(reads), f.loc())
        return
    pn, pc = reads[0]
    exp = fold_cmd_list(T, f, pn, ctx.cg.site(pc).bind(ru).get(ru.call_params[0]))
    R.check(exp == (b"WRTE",), rule, q + "|expected", "refills from WRTE packets only", "the buffered reader refills from %s, expected exactly [WRTE]" % (exp,), f.loc(pn.ast))
    if not pn.loops:
        R.fail(rule, q + "|loop", "the refill is not in a loop: records larger than one packet are truncated", f.loc(pn.ast))
        return
    head = pn.loops[-1]
    inside = set(loop_nodes(g, head))
    pt = T.term(f, pn, pc)
    # consumer: <buf> += data
    adds = []
    buf = None
    for n in inside:
        a = n.ast
        if n.kind == "stmt" and isinstance(a, ast.AugAssign) and isinstance(a.op, ast.Add):
            if T.term(f, n, a.value) == ("proj", pt, 1) and isinstance(unawait(a.value), ast.Name):
                adds.append(n)
                buf = varkey(a.target)
        elif n.kind == "stmt" and isinstance(a, ast.Expr) and isinstance(unawait(a.value), ast.Call):
            # <buf>.extend(data): the in-place spelling of `+=` for a bytearray
            c_ = unawait(a.value)
            if isinstance(c_.func, ast.Attribute) and c_.func.attr == "extend" and len(c_.args) == 1 and not c_.keywords and varkey(c_.func.value) \
                    and T.term(f, n, c_.args[0]) == ("proj", pt, 1):
                adds.append(n)
                buf = varkey(c_.func.value)
    R.check(len(adds) == 1, rule, q + "|append", "each WRTE payload is appended once", "the payload just read is appended %d times per iteration (must be exactly once, unmodified)" % len(adds), f.loc(pn.ast))
    if len(adds) != 1:
        return
    an = adds[0]
    r = g.reach([pn], avoid=[an], exc=False)
    exits = [d for (_m, d, _l) in loop_exit_edges(g, head)]
    R.check(head not in r and not any(x in r for x in exits), rule, q + "|append-every-path", "the payload is appended on every path", "a payload that was read can be dropped (a path skips `%s`)" % norm_stmt(an.ast), f.loc(an.ast))
    for n in inside:
        for d in df.node_defs.get(n, []):
            if d.var == buf and n is not an and d.kind not in ("base", "callmut"):
                R.fail(rule, q + "|buffer-written", "the receive buffer is also modified at `%s`" % norm_stmt(n.ast), f.loc(n.ast))
    # loop governed by len(buf) < size
    bk, sk = key(_len(_mk(buf))), key(ast.Name(id=size, ctx=ast.Load()))
    from ..util import lin_ast, lin_add
    from .c06 import eval_dump
    missing = ({size: 1, "LEN": -1}, 0)          # size - len(buffer)

    def refill_done(fa):
        if fa[0][0] != "lt" or fa[1] is not False:
            return False
        try:
            a_, b_ = eval_dump(fa[0][1]), eval_dump(fa[0][2])
        except Exception:   # noqa
            return False
        la, lb = lin_ast(a_, buf), lin_ast(b_, buf)
        return la is not None and lb is not None and lin_add(lb, la, -1) == missing      # not (a < b) with b - a == size - len(buffer)
    _K = []

    def refill_done_affine(m, l, fa):
        # the same, modulo the affine equalities that hold on that edge (`missing == size - len(buffer)` kept up to date by the loop)
        if fa[0][0] != "lt" or fa[1] is not False:
            return False
        if not _K:
            from ..karr import Karr
            try:
                _K.append(Karr(ctx, f).run())
            except Exception:   # noqa
                _K.append(None)
        K = _K[0]
        if K is None or ("len:" + buf) not in K.idx or size not in K.idx:
            return False
        try:
            a_, b_ = K.lin(eval_dump(fa[0][1])), K.lin(eval_dump(fa[0][2]))
        except Exception:   # noqa
            return False
        if a_ is None or b_ is None:
            return False
        from ..karr import lin_add as kadd
        return K.entails_edge(m, l, kadd(kadd(b_, a_, -1), ({size: 1, "len:" + buf: -1}, 0), -1))
    for (m, d, l) in loop_exit_edges(g, head):
        have = set(df.facts(m)) | df.edge_facts(m, l)
        ok = any(fa[0] == ("lt", bk, sk) and fa[1] is False for fa in have) or any(refill_done(fa) for fa in have) or any(refill_done_affine(m, l, fa) for fa in have)
        R.check(ok, rule, "%s|exit|%s" % (q, norm_stmt(m.ast) if m.ast is not None else m.kind), "the refill loop ends only when len(buffer) >= size",
                "the refill loop can end at `%s` before the buffer holds `size` bytes: a record is returned short" % (norm_stmt(m.ast) if m.ast is not None else m.kind), f.loc(m.ast))
    for n in g.nodes:
        for d in df.node_defs.get(n, []):
            if d.var == size and n is not g.entry:
                R.fail(rule, q + "|size-written", "`size` is modified", f.loc(n.ast))
    # result = buf[:size]; buf = buf[size:]; return result
    rets = [n for n in g.live_nodes() if n.kind == "stmt" and isinstance(n.ast, ast.Return)]
    store_key = buf
    if "." not in buf and buf not in f.params:
        # a working copy: `b = info.recv_buffer` before the loop, everything done on `b`, `info.recv_buffer = b[size:]` at the end - the same
        # bytes end up in the attribute (nothing else reads or writes the attribute in between)
        outer = [d for d in df.reaching(head, buf) if d.node not in inside]
        if len(outer) == 1 and outer[0].kind == "assign" and not outer[0].path and outer[0].value is not None and varkey(unawait(outer[0].value)) and "." in varkey(unawait(outer[0].value)):
            attr_key = varkey(unawait(outer[0].value))
            others = [n for n in g.live_nodes() if n is not outer[0].node and any(isinstance(x, ast.Attribute) and varkey(x) == attr_key and isinstance(x.ctx, ast.Load) for e in n.exprs() for x in ast.walk(e))]
            if not others:
                store_key = attr_key
    bufroot, bufattr = store_key.rsplit(".", 1) if "." in store_key else (None, store_key)
    B0 = ("attr", ("p", bufroot), bufattr) if bufroot else ("p", buf)
    rem = [n for n in g.live_nodes() if n.kind == "stmt" and isinstance(n.ast, ast.Assign) and any(varkey(t) == store_key for t in n.ast.targets) and n not in inside]
    # the in-place cut: del <buf>[:size]
    dels = [n for n in g.live_nodes() if n.kind == "stmt" and isinstance(n.ast, ast.Delete) and n not in inside
            and any(isinstance(t, ast.Subscript) and varkey(t.value) == buf for t in n.ast.targets)]
    in_place = not rem and len(dels) == 1
    if in_place:
        rem = dels
    R.check(len(rem) == 1, rule, q + "|remainder-site", "one remainder assignment", "expected one assignment of the remainder to the buffer, found %d" % len(rem), f.loc())
    if in_place or any(isinstance(n.ast, ast.Expr) for n in adds):
        _buffer_stays_bytearray(ctx, R, roles, T, rule, bufattr)
    NONE = ("c", None)
    if len(rem) == 1:
        X = T.term(f, rem[0], _mk(buf))          # the buffer as it is just before it is cut
        if in_place:
            tg = rem[0].ast.targets[0] if len(rem[0].ast.targets) == 1 else None
            sl = tg.slice if tg is not None and isinstance(tg.slice, ast.Slice) else None
            rok = sl is not None and sl.step is None and (sl.lower is None or (isinstance(sl.lower, ast.Constant) and sl.lower.value in (0, None))) \
                and sl.upper is not None and T.term(f, rem[0], sl.upper) == ("p", size)
            R.check(rok, rule, q + "|remainder", "the first `size` bytes are removed from the buffer in place", "`%s` does not remove exactly buffer[:size]: bytes are lost or duplicated at record boundaries" % src(rem[0].ast), f.loc(rem[0].ast))
        else:
            rv = T.term(f, rem[0], rem[0].ast.value)
            rok = rv == ("slice", X, ("p", size), NONE, NONE)
            R.check(rok, rule, q + "|remainder", "the buffer keeps buffer[size:]", "the remainder kept is `%s`, not buffer[size:]: bytes are lost or duplicated at record boundaries" % src(rem[0].ast.value), f.loc(rem[0].ast))
        R.check(g.dominates([head], rem[0]), rule, q + "|cut-after-refill", "the buffer is cut after the refill loop", "the buffer is cut before the refill loop has completed", f.loc(rem[0].ast))
        # nothing else touches the buffer between the loop and the cut
        defs = df.reaching(rem[0], buf)
        clean = all(x.node in inside or x.node is g.entry or x.kind in ("entry", "callmut") or (store_key != buf and x.node is outer[0].node) for x in defs)
        R.check(clean, rule, q + "|clean", "the buffer is not modified between the refill loop and the cut", "the receive buffer is modified between the refill loop and the cut", f.loc(rem[0].ast))
    for rn in rets:
        v = rn.ast.value
        ok = False
        why = "returns %s" % (src(v) if v is not None else "None")
        if v is not None and len(rem) == 1:
            rt = T.term(f, rn, v)
            ok = rt in (("slice", X, NONE, ("p", size), NONE), ("slice", X, ("c", 0), ("p", size), NONE))
            if not ok:
                why = "the record returned is %s, not buffer[:size] of the buffer before the cut" % show(rt)
            R.check(g.dominates([rem[0]], rn), rule, q + "|order|" + norm_stmt(rn.ast), "the buffer is cut before returning", "the buffer cut can be skipped before returning: the record would be delivered twice", f.loc(rn.ast))
            if in_place:
                # the record must have been copied out before the bytes were deleted
                vn = unawait(v)
                dres = df.unique_def(rn, vn.id) if isinstance(vn, ast.Name) else None
                R.check(dres is not None and dres.kind == "assign" and g.dominates([dres.node], rem[0]) and dres.node is not rem[0], rule, q + "|copy-before-cut",
                        "the record is sliced out before the bytes are deleted", "the record is taken after (or without) the in-place deletion: it would be the NEXT `size` bytes", f.loc(rn.ast))
        R.check(ok, rule, "%s|%s" % (q, norm_stmt(rn.ast)), "returns buffer[:size]", why, f.loc(rn.ast))


def _buffer_stays_bytearray(ctx, R, roles, T, rule, attr):
    """In-place operations (`del buf[:n]`, `buf.extend(x)`) need a bytearray: every store to the buffer attribute, anywhere,
    must keep it one (a bytearray(...) construction, a slice of the buffer itself, or the buffer plus something)."""
    from ..terms import alts_of

    def is_buf(t):
        while t[0] == "ver":
            t = t[1]
        return t[0] == "attr" and t[2] == attr

    def ok_value(t):
        for a in alts_of(t):
            while a[0] == "ver":
                a = a[1]
            if a[0] == "call" and a[1] == "builtins.bytearray":
                continue
            if a[0] == "slice" and is_buf(a[1]):
                continue
            if a[0] in ("CONCAT",) and len(a) > 1 and is_buf(a[1]):
                continue
            if a[0] == "op" and a[1] == "+" and is_buf(a[2]):
                continue
            return False
        return True
    for fn in list(roles.mod.all_funcs) + list(ctx.pkg.mod("hidden_helpers").all_funcs):
        g = ctx.cfg(fn)
        for n in g.live_nodes():
            a = n.ast
            if n.kind == "stmt" and isinstance(a, ast.Assign):
                for t in a.targets:
                    for tt in (t.elts if isinstance(t, ast.Tuple) else [t]):
                        if isinstance(tt, ast.Attribute) and tt.attr == attr:
                            vt = T.term(fn, n, a.value) if not isinstance(t, ast.Tuple) else ("opaque",)
                            R.check(ok_value(vt), rule, "%s|bytearray|%s" % (fn.qualname, norm_stmt(a)), "the buffer stays a bytearray (it is cut / extended in place)",
                                    "`%s` can store %s in the receive buffer, which the in-place operations of the buffered reader need to be a bytearray" % (norm_stmt(a), show(vt)), fn.loc(a))


def _mk(varname):
    parts = varname.split(".")
    e = ast.Name(id=parts[0], ctx=ast.Load())
    for p in parts[1:]:
        e = ast.Attribute(value=e, attr=p, ctx=ast.Load())
    return e


def _len(e):
    return ast.Call(func=ast.Name(id="len", ctx=ast.Load()), args=[e], keywords=[])


def record_reader(ctx, R, roles, T, rule="REC"):
    """_filesync_read: header size, payload size = last header field, returned data is that read."""
    f = roles.dev["_filesync_read"]
    fb = roles.dev["_filesync_read_buffered"]
    g = ctx.cfg(f)
    df = ctx.df(f)
    q = f.qualname
    reads = callee_nodes(ctx, f, fb)
    R.check(len(reads) == 2, rule, q + "|reads", "header read and payload read", "expected a header read and a payload read, found %d buffered reads" % len(reads), f.loc())
    if len(reads) != 2:
        return None
    info = None
    for p in f.params:
        if "hidden_helpers._FileSyncTransactionInfo" in ctx.cg.var_types.get(f, {}).get(p, ()):
            info = p
    sizes = [T.term(f, n, ctx.cg.site(c).bind(fb).get("size")) for n, c in reads]
    # a size-or-None variable read inside the arm of `A if v is None else read(v)`: in that arm v is not None
    for i_, (n_, c_) in enumerate(reads):
        t_ = sizes[i_]
        ae = unawait(ctx.cg.site(c_).bind(fb).get("size"))
        if t_[0] == "ite" and (t_[2] == ("c", None)) != (t_[3] == ("c", None)) and isinstance(ae, ast.Name):
            for e in n_.exprs():
                for x in ast.walk(e):
                    if isinstance(x, ast.IfExp) and isinstance(x.test, ast.Compare) and len(x.test.ops) == 1 and isinstance(x.test.left, ast.Name) and x.test.left.id == ae.id \
                            and isinstance(x.test.comparators[0], ast.Constant) and x.test.comparators[0].value is None and isinstance(x.test.ops[0], (ast.Is, ast.IsNot)):
                        arm = x.orelse if isinstance(x.test.ops[0], ast.Is) else x.body
                        if any(y is c_ for y in ast.walk(arm)):
                            sizes[i_] = t_[3] if t_[2] == ("c", None) else t_[2]
    hi = [i for i, s in enumerate(sizes) if s == ("attr", ("p", info), "recv_message_size")]
    R.check(len(hi) == 1, rule, q + "|header-size", "header read size = size of the transaction's record format", "no read requests exactly recv_message_size bytes (sizes: %s)" % ", ".join(show(s) for s in sizes), f.loc())
    if len(hi) != 1:
        return None
    hn, hc = reads[hi[0]]
    pn, pc = reads[1 - hi[0]]
    ht = T.term(f, hn, hc)
    hdr = ("call", "struct.unpack", (("attr", ("p", info), "recv_message_format"), ht), ())
    R.check(sizes[1 - hi[0]] == ("sub", hdr, ("c", -1)), rule, q + "|payload-size", "payload size = last field of the header unpacked with the transaction's format",
            "payload read requests %s, not the last field of the header just read" % show(sizes[1 - hi[0]]), f.loc(pn.ast))
    R.check(g.dominates([hn], pn), rule, q + "|order", "header before payload", None, f.loc())
    pt = T.term(f, pn, pc)
    # command id lookup
    wti = ctx.fold.need("constants", "FILESYNC_WIRE_TO_ID", rule)
    cid = ("sub", ("c", wti), ("proj", hdr, 0))
    stat_wire = b"STAT"
    for rn in g.live_nodes():
        if rn.kind == "stmt" and isinstance(rn.ast, ast.Return):
            rt0 = T.under_path(f, rn, T.term(f, rn, rn.ast.value))
            # one return for both kinds of record: a conditional on the record id
            cases = [(rt0, None)]
            if rt0[0] == "ite":
                cases = [(rt0[2], (rt0[1], True)), (rt0[3], (rt0[1], False))]
            elif rt0[0] == "tuple":
                # the same decision taken element by element: (id, fields-if-c-else-fields', data-if-c-else-data')
                conds = set(x[1] for x in rt0[1:] if x[0] == "ite")
                if len(conds) == 1 and sum(1 for x in rt0[1:] if x[0] == "ite") >= 2:
                    c_ = next(iter(conds))
                    pick = lambda arm: ("tuple",) + tuple((x[2] if arm else x[3]) if x[0] == "ite" else x for x in rt0[1:])   # noqa: E731
                    cases = [(pick(True), (c_, True)), (pick(False), (c_, False))]
            for rt, guard in cases:
                sub = "%s|%s%s" % (q, norm_stmt(rn.ast), "" if guard is None else "|case-%s" % guard[1])
                if not (rt[0] == "tuple" and len(rt) == 4):
                    R.fail(rule, sub, "record reader returns %s, not (id, header fields, data)" % show(rt), f.loc(rn.ast))
                    continue
                R.check(rt[1] == cid, rule, sub + "|id", "id = FILESYNC_WIRE_TO_ID[header[0]]", "returned id is %s" % show(rt[1]), f.loc(rn.ast))
                d = rt[3]
                if d == ("c", None):
                    R.check(rt[2] == ("slice", hdr, ("c", 1), ("c", None), ("c", None)), rule, sub + "|fields", "no-payload record: all fields after the id",
                            "fields returned for a record without payload are %s, expected header[1:]" % show(rt[2]), f.loc(rn.ast))
                    # only for STAT
                    stat = _stat_only(ctx, f, rn, T, cid)
                    if not stat and guard is not None and guard[0][0] == "cond":
                        c_ = guard[0][1]
                        stat = (c_ == ("cmp", cid, ("c", "Eq"), ("c", b"STAT")) and guard[1] is True) or (c_ == ("cmp", cid, ("c", "NotEq"), ("c", b"STAT")) and guard[1] is False)
                    R.check(stat, rule, sub + "|stat-only", "only STAT records carry no payload", "a record other than STAT can be returned without reading its payload", f.loc(rn.ast))
                else:
                    from ..terms import alts_of
                    alts = alts_of(d)
                    R.check(pt in alts and alts <= {pt, ("call", "builtins.bytearray", (), ())} and rt[2] == ("slice", hdr, ("c", 1), ("c", -1), ("c", None)), rule, sub + "|fields",
                            "payload record: fields between id and length, data = the payload just read",
                            "record returned as (%s, %s): expected header[1:-1] and the payload just read" % (show(rt[2]), show(d)), f.loc(rn.ast))
    return {"hdr": hdr, "cid": cid, "payload": pt}


def _stat_only(ctx, f, rn, T, cid):
    """Do the must-facts at rn say that the record id is STAT?  Flags (`read_data = id != STAT`, or a flag set to a constant in
    each arm of `if id == STAT`) are followed through their terms."""
    df = ctx.df(f)
    from .c06 import eval_dump

    def says_stat(t, pol):
        """term t having truth value pol implies id == STAT"""
        if t[0] == "un" and t[1] == "not":
            return says_stat(t[2], not pol)
        if t[0] == "cond":
            return says_stat(t[1], pol)
        if t[0] == "cmp" and len(t) == 4 and {t[1], t[3]} == {cid, ("c", b"STAT")}:
            return (t[2] == ("c", "Eq") and pol) or (t[2] == ("c", "NotEq") and not pol)
        if t[0] == "ite" and t[2][0] == "c" and t[3][0] == "c" and isinstance(t[2][1], bool) and isinstance(t[3][1], bool) and t[2][1] != t[3][1]:
            # a flag: True in one arm, False in the other
            return says_stat(t[1], pol if t[2][1] else not pol)
        return False
    from ..terms import never_none
    for c_, v_ in T._revealed_conditions(f, rn, 0).items():
        if says_stat(c_, v_):
            return True
    for fa in df.facts(rn):
        if fa[0][0] == "is" and len(fa[0]) == 3 and key(ast.Constant(value=None)) in fa[0][1:]:
            # a size-or-None flag: `v is None` where v = None for STAT and something that is never None otherwise
            other = [x for x in fa[0][1:] if x != key(ast.Constant(value=None))]
            if len(other) == 1:
                t = T.term(f, rn, eval_dump(other[0]))
                if t[0] == "ite" and t[2] == ("c", None) and never_none(t[3]) and says_stat(t[1], fa[1]):
                    return True
                if t[0] == "ite" and t[3] == ("c", None) and never_none(t[2]) and says_stat(t[1], not fa[1]):
                    return True
        if fa[0][0] == "truthy":
            if says_stat(T.term(f, rn, eval_dump(fa[0][1])), fa[1]):
                return True
        if fa[0][0] == "eq":
            a, b = T.term(f, rn, eval_dump(fa[0][1])), T.term(f, rn, eval_dump(fa[0][2]))
            if says_stat(("cmp", a, ("c", "Eq"), b), fa[1]):
                return True
    return False


def record_generator(ctx, R, roles, T, rule="GEN"):
    f = roles.dev["_filesync_read_until"]
    fr = roles.dev["_filesync_read"]
    g = ctx.cfg(f)
    df = ctx.df(f)
    q = f.qualname
    reads = callee_nodes(ctx, f, fr)
    if len(reads) != 1 or not reads[0][0].loops:
        R.fail(rule, q + "|shape", "the record generator must read records at one site inside a loop", f.loc())
        return
    pn, pc = reads[0]
    head = pn.loops[-1]
    et = T.term(f, pn, ctx.cg.site(pc).bind(fr).get("expected_ids"))
    good = et in (("op", "+", ("p", "expected_ids"), ("p", "finish_ids")), ("op", "+", ("p", "finish_ids"), ("p", "expected_ids")))
    R.check(good, rule, q + "|accepts", "accepts expected ids and finish ids", "the generator reads with %s, expected expected_ids + finish_ids" % show(et), f.loc(pn.ast))
    pt = T.term(f, pn, pc)
    ys = yields_of(g)
    R.check(len(ys) == 1, rule, q + "|one-yield", "one yield site", "the record generator has %d yield sites" % len(ys), f.loc())
    if len(ys) == 1:
        yn, yx = ys[0]
        yt = T.term(f, yn, yx.value) if isinstance(yx, ast.Yield) and yx.value is not None else ("none",)
        R.check(yt == ("tuple", ("proj", pt, 0), ("proj", pt, 1), ("proj", pt, 2)), rule, q + "|yield-record", "yields the record just read, unchanged",
                "the generator yields %s instead of the record just read" % show(yt), f.loc(yn.ast))
        r = g.reach([pn], avoid=[yn], exc=False)
        exits = [d for (_m, d, _l) in loop_exit_edges(g, head)]
        R.check(pn not in r and g.exit not in r and not any(x in r for x in exits), rule, q + "|yield-every-record", "every record read is yielded", "a record that was read can be skipped without being yielded", f.loc(yn.ast))
        R.check(yn not in g.reach([yn], avoid=[pn], exc=False), rule, q + "|yield-once", "a record is yielded once", "a record can be yielded twice", f.loc(yn.ast))
    # leaves only after a finish id
    ck = None
    for (m, d, l) in loop_exit_edges(g, head):
        have = set(df.facts(m)) | df.edge_facts(m, l)
        ok = any(fa[0][0] == "in" and fa[1] is True and fa[0][2] == key(ast.Name(id="finish_ids", ctx=ast.Load())) for fa in have)
        R.check(ok, rule, "%s|exit|%s" % (q, norm_stmt(m.ast) if m.ast is not None else m.kind), "the generator ends only after a finish id",
                "the record generator can end at `%s` before a finish id arrived" % (norm_stmt(m.ast) if m.ast is not None else m.kind), f.loc(m.ast))


def _pull(ctx, R, roles, T):
    f = roles.dev["_pull"]
    gen = roles.dev["_filesync_read_until"]
    fs = roles.dev["_filesync_send"]
    g = ctx.cfg(f)
    df = ctx.df(f)
    q = f.qualname
    iters = [n for n in g.live_nodes() if n.kind == "iter" and any(ctx.cg.site(c) is not None and gen in ctx.cg.site(c).callees for c in node_calls(n))]
    if len(iters) != 1:
        R.fail("CEO-pull", q + "|loop", "_pull must iterate the record generator once, found %d loops" % len(iters), f.loc())
        return
    it = iters[0]
    gc = [c for c in node_calls(it) if ctx.cg.site(c) is not None and gen in ctx.cg.site(c).callees][0]
    b = ctx.cg.site(gc).bind(gen)
    e1 = fold_cmd_list(T, f, it, b.get("expected_ids"))
    e2 = fold_cmd_list(T, f, it, b.get("finish_ids"))
    R.check(e1 == (b"DATA",) and e2 == (b"DONE",), "CEO-pull", q + "|ids", "expects DATA records until DONE", "_pull reads records %s until %s, expected [DATA] until [DONE]" % (e1, e2), f.loc(it.ast))
    item = ("item", T.term(f, it, gc))
    # RECV first
    sends = callee_nodes(ctx, f, fs)
    recv = []
    for n, c in sends:
        bb = ctx.cg.site(c).bind(fs)
        cid = T.term(f, n, bb.get("command_id")) if bb.get("command_id") is not None else None
        if cid == ("c", b"RECV"):
            recv.append((n, c, bb))
        else:
            R.fail("CEO-pull", "%s|send|%s" % (q, norm_stmt(c)), "_pull sends a sync request other than RECV", f.loc(n.ast))
    R.check(len(recv) == 1 and not g.in_cycle(recv[0][0]) and g.dominates([recv[0][0]], it), "CEO-pull", q + "|recv-first", "RECV is requested once, before reading records",
            "RECV is not sent exactly once before the records are read", f.loc())
    if len(recv) == 1:
        R.check(g.dominates([recv[0][0]], g.exit, exc=False) and g.dominates([it], g.exit, exc=False), "CEO-pull", q + "|recv-always", "_pull returns normally only after requesting the file and reading its records",
                "_pull can return normally without having sent RECV and read the records (an early return): the caller gets an empty or missing file and no failure", f.loc())
        dt = T.term(f, recv[0][0], recv[0][2].get("data")) if recv[0][2].get("data") is not None else None
        R.check(dt == ("p", "device_path"), "CEO-pull", q + "|recv-path", "RECV names the requested device path", "RECV carries %s instead of device_path" % (show(dt) if dt else "nothing"), f.loc(recv[0][0].ast))
    # consumer: stream.write(data)
    inside = set(loop_nodes(g, it))
    writes = [(n, c) for n in g.live_nodes() for c in node_calls(n) if isinstance(c.func, ast.Attribute) and c.func.attr == "write" and varkey(unawait(c.func.value)) == "stream"]
    R.check(len(writes) == 1 and writes[0][0] in inside, "CEO-pull", q + "|write-site", "one write site, inside the record loop", "expected exactly one stream.write inside the record loop, found %d" % len(writes), f.loc())
    if len(writes) != 1:
        return
    wn, wc = writes[0]
    wt = T.term(f, wn, wc.args[0]) if len(wc.args) == 1 else ("?",)
    R.check(wt == ("proj", item, 2), "CEO-pull", q + "|write-payload", "the bytes written are the record's payload, unmodified",
            "stream.write receives %s, not the payload of the record just received" % show(wt), f.loc(wn.ast))
    R.check(wn.loops == (it,), "CEO-pull", q + "|write-once-per-record", "written once per record (no nested loop)", None, f.loc(wn.ast))
    # sentinel: cmd_id == DONE
    tests = []
    for tn in inside:
        if tn.kind == "test":
            t = unawait(tn.ast.test)
            if isinstance(t, ast.Compare) and len(t.ops) == 1 and isinstance(t.ops[0], (ast.Eq, ast.NotEq)):
                a, bb = T.term(f, tn, t.left), T.term(f, tn, t.comparators[0])
                for x, y in ((a, bb), (bb, a)):
                    if x == ("proj", item, 0) and y[0] == "c" and y[1] in (b"DONE", b"DATA"):
                        done_lab = "true" if (y[1] == b"DONE") == isinstance(t.ops[0], ast.Eq) else "false"
                        tests.append((tn, done_lab))
    if len(tests) != 1:
        R.fail("CEO-pull", q + "|sentinel", "expected one test of the record id against DONE in the loop, found %d" % len(tests), f.loc())
        return
    tn, done_lab = tests[0]
    data_lab = "false" if done_lab == "true" else "true"
    starts = [d for d, l in g.succ[tn] if l == data_lab]
    r = g.reach(starts, avoid=[wn], exc=True, include_start=True)
    exits = [d for (_m, d, _l) in loop_exit_edges(g, it)]
    R.check(it not in r and g.exit not in r and not any(x in r for x in exits), "CEO-pull", q + "|write-every-data", "every DATA record is written before the next one is read",
            "a DATA record can be skipped without being written (conditional write / handler bypass): the local file misses bytes", f.loc(wn.ast))
    R.check(wn not in g.reach([wn], avoid=[it], exc=True), "CEO-pull", q + "|write-once", "a record is written once", "a record can be written twice", f.loc(wn.ast))
    R.check(wn not in g.reach_from_edge(tn, done_lab, avoid=[it], exc=False), "CEO-pull", q + "|no-write-on-done", "nothing is written for DONE", "the DONE record's payload can be written to the file", f.loc(wn.ast))
    for (m, d, l) in loop_exit_edges(g, it):
        if m is it and l == "exhausted":
            continue
        on_done = (m is tn and l == done_lab) or (m in g.reach_from_edge(tn, done_lab, avoid=[it], exc=False) and m not in g.reach_from_edge(tn, data_lab, avoid=[it], exc=True))
        R.check(on_done, "CEO-pull", "%s|exit|%s" % (q, norm_stmt(m.ast) if m.ast is not None else m.kind), "the record loop is left only on DONE",
                "the record loop can be left at `%s` before DONE: the file is truncated" % (norm_stmt(m.ast) if m.ast is not None else m.kind), f.loc(m.ast))
    callback_contained(ctx, R, roles, T, f, ("proj", item, 2), "CB-pull")


def callback_contained(ctx, R, roles, T, f, chunk_term, rule):
    """progress_callback(path, len(chunk), total) once per chunk, inside a handler that catches everything."""
    g = ctx.cfg(f)
    q = f.qualname
    cbs = [(n, c) for n in g.live_nodes() for c in node_calls(n) if isinstance(unawait(c.func), ast.Name) and unawait(c.func).id == "progress_callback"]
    dfx = ctx.df(f)
    for m in g.nodes:
        for d in dfx.node_defs.get(m, []):
            if d.var == "progress_callback" and m is not g.entry:
                R.fail(rule, q + "|reassigned|" + norm_stmt(m.ast), "the progress callback is rebound during the transfer (`%s`): later chunks are not reported and the byte counts no longer sum to the file size" % norm_stmt(m.ast), f.loc(m.ast))
    R.check(len(cbs) == 1, rule, q + "|site", "one callback site", "expected one progress_callback call site, found %d" % len(cbs), f.loc())
    for n, c in cbs:
        ok = len(c.args) == 3 and T.term(f, n, c.args[1]) == ("LEN", chunk_term)
        R.check(ok, rule, q + "|bytes", "callback reports len(chunk) of the chunk just transferred", "the callback's byte count is %s, not len(chunk)" % (show(T.term(f, n, c.args[1])) if len(c.args) > 1 else "?"), f.loc(n.ast))
        contained = False
        for (t, region) in n.trys:
            if region == "body":
                for h in t.handlers:
                    # "cannot alter or abort the transfer": user code can raise anything, also KeyboardInterrupt / SystemExit or its own BaseException
                    catch_all = h.type is None or (isinstance(h.type, ast.Name) and h.type.id == "BaseException")
                    hn = [x for x in g.nodes_of(h) if x.kind == "except"]
                    from .c12 import handler_completes
                    if catch_all and hn and handler_completes(g, hn[0]) and len(t.body) == 1:
                        contained = True
        R.check(contained, rule, q + "|contained", "a failing callback cannot abort or alter the transfer (catch-all around the call only)",
                "the progress callback is not wrapped in a catch-all handler: a failing callback aborts the transfer", f.loc(n.ast))
        guarded = any(fa[0] == ("truthy", key(ast.Name(id="progress_callback", ctx=ast.Load()))) and fa[1] is True for fa in ctx.df(f).facts(n))
        R.check(guarded, rule, q + "|guard", "called only when a callback was given", None, f.loc(n.ast))


def _pull_public(ctx, R, roles, T):
    f = roles.dev["pull"]
    g = ctx.cfg(f)
    sites = callee_nodes(ctx, f, roles.dev["_pull"])
    R.check(len(sites) == 1, "PULL", f.qualname + "|delegates", "pull delegates to _pull once", "pull calls _pull %d times" % len(sites), f.loc())
    if len(sites) == 1:
        R.check(g.dominates([sites[0][0]], g.exit, exc=False) and not sites[0][0].loops, "PULL", f.qualname + "|always-transfers", "pull returns normally only after the transfer",
                "pull can return normally without calling _pull (an early return): no file is written and no failure is reported", f.loc())
    for n, c in sites:
        b = ctx.cg.site(c).bind(roles.dev["_pull"])
        st = T.term(f, n, b.get("stream")) if b.get("stream") is not None else None
        ok = st is not None and st[0] == "ctxval"
        R.check(ok, "PULL", f.qualname + "|stream", "the stream written is the opened destination", "pull writes to %s, not to the destination it opened" % (show(st) if st else "?"), f.loc(n.ast))
        if ok:
            ct = st[1]
            # opener(local_path, 'wb')
            args_ok = ct[0] == "call" and len(ct[2]) >= 2 and ct[2][0] == ("p", "local_path") and ct[2][1] == ("c", "wb")
            R.check(args_ok, "PULL", f.qualname + "|opened-wb", "destination opened from local_path in binary write mode", "destination is opened as %s" % show(ct), f.loc(n.ast))
        fi = T.term(f, n, b.get("filesync_info")) if b.get("filesync_info") is not None else None
        okf = fi is not None and fi[0] == "new" and dict(fi[2]).get("recv_message_format") == ("c", ctx.fold.need("constants", "FILESYNC_PULL_FORMAT", "PULL"))
        R.check(okf, "PULL", f.qualname + "|format", "records decoded with the pull format", "pull decodes records with %s" % (show(fi) if fi else "?"), f.loc(n.ast))


def _txinfo(ctx, R, T):
    cls = ctx.pkg.cls("hidden_helpers._FileSyncTransactionInfo")
    init = cls.methods["__init__"]
    b = {p: ("p", p) for p in init.params[1:]}
    obj = ("new", cls.qualname, tuple(sorted(b.items())))
    R.check(T.attr(obj, "recv_message_size") == ("call", "struct.calcsize", (("p", "recv_message_format"),), ()), "REC", cls.qualname + "|size", "record size = calcsize(record format)",
            "recv_message_size is %s" % show(T.attr(obj, "recv_message_size")), init.loc())
    R.check(T.attr(obj, "recv_message_format") == ("p", "recv_message_format"), "REC", cls.qualname + "|format", "record format stored unchanged", None, init.loc())
    rb = T.attr(obj, "recv_buffer")
    R.check(rb == ("call", "builtins.bytearray", (), ()), "REC", cls.qualname + "|recv-empty", "receive buffer starts empty", "receive buffer starts as %s" % show(rb), init.loc())


def buffer_access(ctx, R, roles, rule="BUF-access"):
    """The sync receive buffer is consumed only by the buffered reader (and fed by it and by the flush's early-WRTE branch)."""
    from ..dataflow import vars_in
    allowed = {"_filesync_read_buffered", "_filesync_flush"}
    n = 0
    funcs = list(roles.mod.all_funcs) + list(ctx.pkg.mod("hidden_helpers").all_funcs)
    for f in funcs:
        if f.qualname == "hidden_helpers._FileSyncTransactionInfo.__init__":
            continue
        for node in walk_own_nodes(f):
            if isinstance(node, ast.Attribute) and node.attr == "recv_buffer":
                n += 1
                ok = f.name in allowed and f.cls is roles.dev_cls
                if f.mod.name == "hidden_helpers":
                    ok = False
                R.check(ok, rule, "%s|recv_buffer" % f.qualname, "receive buffer touched by the buffered reader / the flush only",
                        "%s reads or writes the sync receive buffer directly: bytes are taken from (or peeked in) the record stream without going through the record reader" % f.qualname, f.loc(node))
    return n


def walk_own_nodes(f):
    from ..loader import walk_own
    return walk_own(f.node)
