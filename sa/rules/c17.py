"""C17 - key material is what adbd expects: signatures verify, public key blob is correct.

Decided: TERM on encode_pubkey: the struct format folds to the RSAPublicKey layout of android_pubkey.c
(u32 len_words, u32 n0inv, u8 n[256], u8 rr[256], u32 e; little-endian) and the arguments are (64,
2^32 - modinv(n mod 2^32, 2^32), n as 256 little-endian bytes, 2^4096 mod n as 256 little-endian bytes, e) of the
public numbers of the private key that was loaded; the key file is base64(blob) followed by ' user@host'.
Signer API conformance: each shipped signer signs the token AS a SHA-1 digest with PKCS#1 v1.5 (cryptography:
Prehashed(SHA1) + PKCS1v15; python-rsa: a pass-through "hash" registered with SHA-1's ASN.1 prefix; pycryptodome: a
carrier object with OID 1.3.14.3.2.26 whose digest is the token) and passes the token unmodified.
Not decided: the arithmetic inside the crypto libraries.
keygen / write_public_keyfile write both files on every normal path and no handler swallows a failed write; every Python-3 return of _to_bytes is
int.to_bytes(length, order); a signer method with a path that returns no value is a violation.
"""
import ast

from ..loader import AnalysisError, walk_own
from ..dataflow import key, varkey, unawait
from ..engine import terms
from ..terms import show
from ..util import src, node_calls, call_attr, norm_stmt, own_calls
from .c02 import expand_format

LEVEL = "other"

SHA1_OID = "1.3.14.3.2.26"


def check(ctx, R):
    T = terms(ctx)
    _blob(ctx, R, T)
    _keyfile(ctx, R, T)
    _keygen(ctx, R, T)
    for rule, fn in (("SIGN-cryptography", _sign_cryptography), ("SIGN-pythonrsa", _sign_pythonrsa), ("SIGN-pycryptodome", _sign_pycryptodome)):
        try:
            fn(ctx, R, T)
        except _NoValue as e:
            R.fail(rule, "%s|returns-nothing" % e.func.qualname, "%s has a path that returns no value: the caller gets None instead of a signature / key" % e.func.qualname, e.func.loc())
    _stateless(ctx, R)
    R.assume("cryptography / rsa / pycryptodome implement RSASSA-PKCS1-v1_5 as documented; adbd verifies RSA_verify(NID_sha1, token, 20, sig)")
    R.undecided("the arithmetic inside the crypto libraries is outside the analysed source")


def _blob(ctx, R, T):
    f = ctx.pkg.func("auth.keygen.encode_pubkey")
    g = ctx.cfg(f)
    q = f.qualname
    rets = [n for n in g.live_nodes() if n.kind == "stmt" and isinstance(n.ast, ast.Return)]
    if not rets:
        raise AnalysisError("BLOB", "encode_pubkey has no return")
    packs = [n for n in rets if T.term(f, n, n.ast.value)[0] == "call" and T.term(f, n, n.ast.value)[1] == "struct.pack"]
    for n in rets:
        if n not in packs:
            R.fail("BLOB", q + "|" + norm_stmt(n.ast)[:60], "encode_pubkey can return `%s`, which is not the structure packed from the key it was asked about (stale/cached/foreign blob)" % norm_stmt(n.ast)[:80], f.loc(n.ast))
    if len(packs) != 1:
        R.fail("BLOB", q + "|pack-sites", "expected exactly one return of struct.pack(...), found %d" % len(packs), f.loc())
        return
    rn = packs[0]
    t = T.term(f, rn, rn.ast.value)
    loc = f.loc(rn.ast)
    if not (t[0] == "call" and t[1] == "struct.pack" and len(t[2]) == 6):
        R.fail("BLOB", q + "|pack", "encode_pubkey does not return struct.pack(format, 5 fields): %s" % show(t)[:200], loc)
        return
    fmt = t[2][0]
    e = expand_format(fmt[1]) if fmt[0] == "c" else None
    R.check(e is not None and e[0] == "<" and e[1] == "LL256s;256s;L", "BLOB", q + "|layout", "layout = <u32 len, u32 n0inv, 256s modulus, 256s rr, u32 exponent> little-endian (524 bytes)",
            "the blob format folds to %r; android_pubkey.c needs '<LL256s256sL'" % (fmt[1] if fmt[0] == "c" else show(fmt),), loc)
    words, n0inv, mod, rr, exp = t[2][1:]
    R.check(words == ("c", 64), "BLOB", q + "|len-words", "modulus_size_words = 64", "modulus_size_words is %s, expected 64" % show(words), loc)
    # the key object
    keys = set()

    def find_key(x):
        if isinstance(x, tuple) and x:
            if len(x) == 3 and x[0] == "attr" and x[2] in ("n", "e"):
                keys.add(x[1])
            for y in x:
                if isinstance(y, (tuple, frozenset)):
                    for z in (y if isinstance(y, frozenset) else [y]):
                        find_key(z)
    find_key(t)
    if len(keys) != 1:
        R.fail("BLOB", q + "|key", "the blob fields do not all come from one key object (%d found)" % len(keys), loc)
        return
    K = next(iter(keys))
    N, E = ("attr", K, "n"), ("attr", K, "e")
    ks = show(K)
    R.check("load_pem_private_key" in ks and "public_numbers" in ks and "private_key_path" in ks, "BLOB", q + "|key-source", "numbers are the public numbers of the private key loaded from private_key_path",
            "the numbers used are those of %s, not of the private key loaded from private_key_path" % ks[:160], loc)
    two32 = ("c", 1 << 32)
    ok = n0inv[0] == "op" and n0inv[1] == "-" and n0inv[2] == two32 and n0inv[3][0] == "call" and (
        (str(n0inv[3][1]).endswith("_modinv") and n0inv[3][2] == (("MOD32", N), two32)) or
        (n0inv[3][1] == "builtins.pow" and n0inv[3][2] == (("MOD32", N), ("c", -1), two32)))
    R.check(ok, "BLOB", q + "|n0inv", "n0inv = 2^32 - (n mod 2^32)^-1 mod 2^32", "n0inv is %s; expected 2^32 - modinv(n mod 2^32, 2^32)" % show(n0inv)[:200], loc)

    def is_le256(x, inner):
        from ..terms import alts_of
        alts = alts_of(x)
        good = ("call", ".to_bytes", (inner, ("c", 256), ("c", "little")), ())
        return good in alts
    R.check(is_le256(mod, N), "BLOB", q + "|modulus", "modulus = n as 256 little-endian bytes", "the modulus field is %s; expected n.to_bytes(256, 'little')" % show(mod)[:200], loc)
    want_rr = ("op", "%", ("c", 1 << 4096), N)
    R.check(is_le256(rr, want_rr), "BLOB", q + "|rr", "rr = (2^2048)^2 mod n as 256 little-endian bytes", "the rr field is %s; expected (2^4096 mod n).to_bytes(256, 'little')" % show(rr)[:200], loc)
    R.check(exp == E, "BLOB", q + "|exponent", "exponent = e", "the exponent field is %s" % show(exp), loc)
    # _to_bytes on python 3 is int.to_bytes(length, byteorder)
    tb = ctx.pkg.funcs.get("auth.keygen._to_bytes")
    if tb is not None:
        gg = ctx.cfg(tb)
        last = [n for n in gg.live_nodes() if n.kind == "stmt" and isinstance(n.ast, ast.Return)]
        dft = ctx.df(tb)
        hk = ("truthy", key(ast.Call(func=ast.Name(id="hasattr", ctx=ast.Load()), args=[ast.Name(id=tb.params[0], ctx=ast.Load()), ast.Constant(value="to_bytes")], keywords=[])))
        # the branch for an `n` without to_bytes is the Python 2 path (dead on Python 3: every int has it); every other return is int.to_bytes
        py3 = [n for n in last if not any(fa[0] == hk and fa[1] is False for fa in dft.facts(n))]
        okb = bool(py3) and all(n.ast.value is not None and T.term(tb, n, n.ast.value) == ("call", ".to_bytes", (("p", tb.params[0]), ("p", tb.params[1]), ("p", tb.params[2])), ()) for n in py3)
        R.check(okb, "BLOB", tb.qualname, "_to_bytes(n, length, order) = n.to_bytes(length, order)", "_to_bytes no longer forwards (length, byte order) to int.to_bytes unchanged", tb.loc())


def _keyfile(ctx, R, T):
    f = ctx.pkg.func("auth.keygen.write_public_keyfile")
    g = ctx.cfg(f)
    q = f.qualname
    writes = [(n, c) for n in g.live_nodes() for c in node_calls(n) if isinstance(c.func, ast.Attribute) and c.func.attr == "write"]
    R.check(len(writes) == 2 and g.dominates([writes[0][0]], writes[1][0]), "KEYFILE", q + "|writes", "two writes: blob, then comment", "expected two writes (base64 blob, then the comment), found %d" % len(writes), f.loc())
    if len(writes) != 2:
        return
    from ..util import swallowing_handlers
    for wn, _wc in writes:
        R.check(g.dominates([wn], g.exit, exc=False) and not swallowing_handlers(g, wn), "KEYFILE", q + "|always|" + norm_stmt(wn.ast)[:40], "written on every normal path, failures propagate",
                "write_public_keyfile can return normally without `%s` having succeeded (an early return or a swallowed failure): a stale or truncated .pub is left next to the private key" % norm_stmt(wn.ast)[:50], f.loc(wn.ast))
    t0 = T.term(f, writes[0][0], writes[0][1].args[0])
    t1 = T.term(f, writes[1][0], writes[1][1].args[0])
    enc = ("call", "auth.keygen.encode_pubkey", (("p", "private_key_path"),), ())
    R.check(t0 == ("call", "base64.b64encode", (enc,), ()), "KEYFILE", q + "|blob", "first the base64 of the 524-byte blob", "the key file starts with %s, expected base64.b64encode(encode_pubkey(private_key_path))" % show(t0)[:160], f.loc(writes[0][0].ast))
    ok1 = t1[0] == "call" and t1[1] == ".encode" and t1[2][0][0] == "call" and str(t1[2][0][1]).endswith("get_user_info")
    R.check(ok1, "KEYFILE", q + "|comment", "then the ' user@host' comment", "the key file comment is %s" % show(t1)[:160], f.loc(writes[1][0].ast))
    # destination: public_key_path, binary write
    withs = [n for n in g.live_nodes() if n.kind == "with"]
    okw = any(T.term(f, n, n.item.context_expr) == ("call", "builtins.open", (("p", "public_key_path"), ("c", "wb")), ()) for n in withs)
    R.check(okw, "KEYFILE", q + "|destination", "written to public_key_path ('wb')", "the public key is not written to open(public_key_path, 'wb')", f.loc())
    gi = ctx.pkg.func("auth.keygen.get_user_info")
    gg = ctx.cfg(gi)
    for rn in gg.live_nodes():
        if rn.kind == "stmt" and isinstance(rn.ast, ast.Return):
            t = T.term(gi, rn, rn.ast.value)
            parts = t[1:] if t[0] == "CONCAT" else ()
            ok = len(parts) in (3, 4) and parts[0] == ("c", " ") and ((len(parts) == 4 and parts[2] == ("c", "@")) or
                                                                    (len(parts) == 3 and parts[2][0] == "c" and isinstance(parts[2][1], str) and parts[2][1].startswith("@") and len(parts[2][1]) > 1))
            R.check(ok, "KEYFILE", gi.qualname + "|" + norm_stmt(rn.ast), "comment = ' ' + user + '@' + host", "get_user_info returns %s, expected ' ' + user + '@' + host" % show(t)[:160], gi.loc(rn.ast))
    # user and host are what the system says: both look-ups are attempted on every path to a return (also when the other one failed)
    for ext, what in (("os.getlogin", "login name"), ("socket.gethostname", "host name")):
        sites = [n for n in gg.live_nodes() for c in node_calls(n) if ctx.cg.site(c) is not None and ctx.cg.site(c).ext == ext]
        rets = [rn for rn in gg.live_nodes() if rn.kind == "stmt" and isinstance(rn.ast, ast.Return)]
        okl = bool(sites) and all(gg.dominates(sites, rn, exc=True) for rn in rets)
        R.check(okl, "KEYFILE", gi.qualname + "|looks-up|" + ext, "the %s is looked up on every path" % what,
                "the %s (%s) is not looked up on every path to a return: the comment can say 'unknown' although the system knows it" % (what, ext), gi.loc())


def _sign_method(ctx, clsq):
    cls = ctx.pkg.classes.get(clsq)
    if cls is None:
        raise AnalysisError("SIGN", "%s not found" % clsq)
    f = cls.methods.get("Sign")
    if f is None:
        raise AnalysisError("SIGN", "%s.Sign not found" % clsq)
    return cls, f


class _NoValue(Exception):
    def __init__(self, func):
        Exception.__init__(self, func.qualname)
        self.func = func


def _one_return(ctx, f):
    g = ctx.cfg(f)
    rets = [n for n in g.live_nodes() if n.kind == "stmt" and isinstance(n.ast, ast.Return)]
    if not [n for n in rets if n.ast.value is not None]:
        raise _NoValue(f)
    if [n for n in rets if n.ast.value is None or (isinstance(n.ast.value, ast.Constant) and n.ast.value.value is None)]:
        raise _NoValue(f)            # some path returns nothing
    if len(rets) != 1:
        raise AnalysisError("SIGN", "%s has %d returns" % (f.qualname, len(rets)))
    return rets[0]


def _pub_from_file(ctx, R, T, cls, rule):
    gp = cls.methods.get("GetPublicKey")
    if gp is None:
        R.fail(rule, cls.qualname + ".GetPublicKey", "signer has no GetPublicKey", cls.mod.relpath)
        return
    rn = _one_return(ctx, gp)
    t = T.term(gp, rn, rn.ast.value)
    R.check(t[0] == "attr" and t[1][0] == "p", rule, gp.qualname, "GetPublicKey returns the stored public key", "GetPublicKey returns %s" % show(t), gp.loc(rn.ast), trivial=True)


def _sign_cryptography(ctx, R, T):
    cls, f = _sign_method(ctx, "auth.sign_cryptography.CryptographySigner")
    rn = _one_return(ctx, f)
    t = T.term(f, rn, rn.ast.value)
    loc = f.loc(rn.ast)
    ok = t[0] == "call" and t[1] == ".sign" and len(t[2]) == 4 and t[2][1] == ("p", "data")
    R.check(ok, "SIGN-cryptography", f.qualname + "|call", "rsa_key.sign(data, padding, algorithm) with the token unmodified", "Sign returns %s" % show(t)[:200], loc)
    if ok:
        pad, alg = t[2][2], t[2][3]
        R.check(pad[0] == "call" and str(pad[1]).endswith("padding.PKCS1v15") and not pad[2], "SIGN-cryptography", f.qualname + "|padding", "PKCS#1 v1.5 padding", "padding is %s, adbd verifies PKCS#1 v1.5" % show(pad), loc)
        okh = alg[0] == "call" and str(alg[1]).endswith("utils.Prehashed") and len(alg[2]) == 1 and alg[2][0][0] == "call" and str(alg[2][0][1]).endswith("hashes.SHA1") and not alg[2][0][2]
        R.check(okh, "SIGN-cryptography", f.qualname + "|prehashed-sha1", "the token is signed as a SHA-1 digest (Prehashed(SHA1))",
                "the algorithm is %s; adbd treats the 20-byte token as a SHA-1 digest, so it must be Prehashed(SHA1())" % show(alg), loc)
        R.check(t[2][0][0] == "attr" and t[2][0][2] == "rsa_key", "SIGN-cryptography", f.qualname + "|key", "signs with the loaded private key", None, loc, trivial=True)
    _pub_from_file(ctx, R, T, cls, "SIGN-cryptography")


def _sign_pythonrsa(ctx, R, T):
    cls, f = _sign_method(ctx, "auth.sign_pythonrsa.PythonRSASigner")
    mod = cls.mod
    rn = _one_return(ctx, f)
    t = T.term(f, rn, rn.ast.value)
    loc = f.loc(rn.ast)
    ok = t[0] == "call" and t[1] == "rsa.sign" and len(t[2]) == 3 and t[2][0] == ("p", "data") and t[2][2][0] == "c" and isinstance(t[2][2][1], str)
    R.check(ok, "SIGN-pythonrsa", f.qualname + "|call", "rsa.sign(data, key, <registered method>) with the token unmodified", "Sign returns %s" % show(t)[:200], loc)
    if not ok:
        return
    method = t[2][2][1]
    # module-level registrations
    reg_hash = reg_asn1 = None
    for st in mod.tree.body:
        if isinstance(st, ast.Assign) and len(st.targets) == 1 and isinstance(st.targets[0], ast.Subscript):
            tg = st.targets[0]
            base = src(tg.value)
            okk, k = ctx.fold.try_eval(tg.slice, mod, {})       # a literal or a module-level constant
            k = k if okk else None
            if k == method and base.endswith("HASH_METHODS"):
                reg_hash = st.value
            if k == method and base.endswith("HASH_ASN1"):
                reg_asn1 = st.value
    okh = isinstance(reg_hash, ast.Name) and reg_hash.id in mod.classes
    R.check(okh, "SIGN-pythonrsa", mod.name + "|hash-method", "the method '%s' is registered with a class of this module" % method, "the hash method '%s' is not registered with a pass-through class of this module" % method, mod.relpath)
    if okh:
        acc = mod.classes[reg_hash.id]
        init, upd, dig = acc.methods.get("__init__"), acc.methods.get("update"), acc.methods.get("digest")
        good = init is not None and upd is not None and dig is not None
        if good:
            # digest returns the buffer; update appends its argument; init empties it
            rn2 = _one_return(ctx, dig)
            dt = T.term(dig, rn2, rn2.ast.value)
            buf = dt[2] if dt[0] == "attr" else None
            good = buf is not None
            ubody = [s for s in upd.node.body if not (isinstance(s, ast.Expr) and isinstance(s.value, ast.Constant))]
            bk = upd.params[0] + "." + str(buf)
            aug = len(ubody) == 1 and isinstance(ubody[0], ast.AugAssign) and isinstance(ubody[0].op, ast.Add) and varkey(ubody[0].target) == bk \
                and isinstance(ubody[0].value, ast.Name) and ubody[0].value.id == upd.params[1]
            # `buf = buf + msg` (the buffer starts as the immutable b"", checked below: the same as `+=`)
            plain = len(ubody) == 1 and isinstance(ubody[0], ast.Assign) and len(ubody[0].targets) == 1 and varkey(ubody[0].targets[0]) == bk and isinstance(ubody[0].value, ast.BinOp) \
                and isinstance(ubody[0].value.op, ast.Add) and varkey(ubody[0].value.left) == bk and isinstance(ubody[0].value.right, ast.Name) and ubody[0].value.right.id == upd.params[1]
            good = good and (aug or plain)
            ibody = [s for s in init.node.body if isinstance(s, ast.Assign)]
            good = good and any(varkey(s.targets[0]) == init.params[0] + "." + str(buf) and isinstance(s.value, ast.Constant) and s.value.value == b"" for s in ibody)
        R.check(good, "SIGN-pythonrsa", acc.qualname, "the registered 'hash' returns exactly the bytes it was fed (the token is not hashed again)",
                "the registered hash class does not return the concatenation of its update() arguments: the token would be altered before signing", acc.mod.relpath)
    oka = reg_asn1 is not None and isinstance(reg_asn1, ast.Subscript) and src(reg_asn1.value).endswith("HASH_ASN1") and isinstance(reg_asn1.slice, ast.Constant) and reg_asn1.slice.value == "SHA-1"
    R.check(oka, "SIGN-pythonrsa", mod.name + "|asn1", "DigestInfo prefix is SHA-1's", "the ASN.1 prefix registered for '%s' is `%s`, expected HASH_ASN1['SHA-1']" % (method, src(reg_asn1) if reg_asn1 is not None else "missing"), mod.relpath)
    _pub_from_file(ctx, R, T, cls, "SIGN-pythonrsa")


def _sign_pycryptodome(ctx, R, T):
    cls, f = _sign_method(ctx, "auth.sign_pycryptodome.PycryptodomeAuthSigner")
    mod = cls.mod
    rn = _one_return(ctx, f)
    t = T.term(f, rn, rn.ast.value)
    loc = f.loc(rn.ast)
    if t[0] == "call" and t[1] == ".sign" and len(t[2]) == 1 and len(t) > 3 and len(t[3]) == 1 and t[3][0][0] == "msg_hash":
        t = (t[0], t[1], (t[2][0], t[3][0][1]), ())            # PKCS115_SigScheme.sign(msg_hash): the parameter passed by keyword
    ok = t[0] == "call" and t[1] == ".sign" and len(t[2]) == 2 and t[2][0][0] == "call" and str(t[2][0][1]).endswith("pkcs1_15.new")
    R.check(ok, "SIGN-pycryptodome", f.qualname + "|call", "pkcs1_15.new(key).sign(hash-object)", "Sign returns %s" % show(t)[:200], loc)
    if not ok:
        return
    h = t[2][1]
    if h[0] == "new":
        carrier = ctx.pkg.classes.get(h[1])
        args = dict(h[2])
        okd = len(args) == 1 and list(args.values())[0] == ("p", "data")
        R.check(okd, "SIGN-pycryptodome", f.qualname + "|token", "the carrier object wraps the token unmodified", "the object signed wraps %s, not the token" % show(h), loc)
        oid = T.attr(h, "oid")
        R.check(oid == ("c", SHA1_OID), "SIGN-pycryptodome", carrier.qualname + "|oid", "DigestInfo OID is SHA-1 (1.3.14.3.2.26)", "the carrier's OID is %s; adbd verifies with NID_sha1 (1.3.14.3.2.26)" % show(oid), carrier.mod.relpath)
        dg = carrier.methods.get("digest")
        okg = False
        if dg is not None:
            rn2 = _one_return(ctx, dg)
            dt = T.term(dg, rn2, rn2.ast.value, {dg.params[0]: h})
            okg = dt == ("p", "data")
        R.check(okg, "SIGN-pycryptodome", carrier.qualname + "|digest", "digest() is the token itself (not hashed again)", "the carrier's digest() does not return the token unchanged", carrier.mod.relpath)
    else:
        R.fail("SIGN-pycryptodome", f.qualname + "|rehash", "the object signed is %s: the 20-byte token is hashed again (or with the wrong algorithm); adbd verifies the token itself as a SHA-1 digest, so the signature does not verify" % show(h)[:120], loc)
    _pub_from_file(ctx, R, T, cls, "SIGN-pycryptodome")


def _stateless(ctx, R):
    """Key material is computed from its inputs on every call: no module-level caches, no signer state that grows with use."""
    for mn in ("auth.keygen", "auth.sign_cryptography", "auth.sign_pythonrsa", "auth.sign_pycryptodome"):
        mod = ctx.pkg.mods.get(mn)
        if mod is None:
            continue
        for name, exprs in sorted(mod.assigns.items()):
            for e in exprs:
                mutable = isinstance(e, (ast.Dict, ast.List, ast.Set, ast.ListComp, ast.DictComp, ast.SetComp)) or (
                    isinstance(e, ast.Call) and isinstance(e.func, ast.Name) and e.func.id in ("dict", "list", "set", "defaultdict", "OrderedDict", "WeakValueDictionary"))
                R.check(not mutable, "STATELESS", "%s.%s" % (mn, name), "module-level constant",
                        "module-level mutable object `%s` in %s: a cache of key material can hand out a blob/signature that does not belong to the key asked about" % (name, mn), mod.relpath)
        for f in mod.all_funcs:
            for d in f.node.decorator_list:
                dn = ast.unparse(d.func if isinstance(d, ast.Call) else d)
                if "cache" in dn.lower() or "memo" in dn.lower():
                    R.fail("STATELESS", "%s|@%s" % (f.qualname, dn), "%s is memoised (`@%s`): its result depends on files / keys that can change between calls - a second keygen() or a "
                           "re-written key file gets the blob of the previous key" % (f.qualname, dn), f.loc())
            for n in walk_own(f.node):
                if isinstance(n, (ast.Global, ast.Nonlocal)):
                    R.fail("STATELESS", "%s|global" % f.qualname, "`global` state in %s" % f.qualname, f.loc(n))
        # signer objects: Sign() must not write instance state
        for c in mod.classes.values():
            sg = c.methods.get("Sign")
            if sg is None:
                continue
            from ..util import attr_writes
            from ..dataflow import MUTATING_METHODS
            for k, st, kind in attr_writes(sg):
                if k.startswith(sg.params[0] + "."):
                    R.fail("STATELESS", "%s|%s" % (sg.qualname, norm_stmt(st)), "Sign() modifies the signer (`%s`): a second signature depends on the first" % norm_stmt(st), sg.loc(st))
            for call in own_calls(sg):
                if isinstance(call.func, ast.Attribute) and call.func.attr in MUTATING_METHODS | {"update"}:
                    base = call.func.value
                    kk = varkey(unawait(base))
                    if kk and kk.startswith(sg.params[0] + "."):
                        R.fail("STATELESS", "%s|%s" % (sg.qualname, norm_stmt(call)), "Sign() feeds the token into long-lived signer state (`%s`): the second signature covers both tokens" % norm_stmt(call), sg.loc(call))
    R.ok("STATELESS", "auth", "no module-level caches, Sign() leaves the signer unchanged", "adb_shell/auth", trivial=True)


def _keygen(ctx, R, T):
    """keygen(): a 2048-bit key (the blob has room for exactly 256 modulus bytes), written as PEM, then its public key file."""
    f = ctx.pkg.funcs.get("auth.keygen.keygen")
    if f is None:
        raise AnalysisError("KEYGEN", "auth.keygen.keygen not found")
    g = ctx.cfg(f)
    gens = [(n, c) for n in g.live_nodes() for c in node_calls(n) if call_attr(c) == "generate_private_key"]
    R.check(len(gens) == 1, "KEYGEN", f.qualname + "|generate", "one key generation", "expected one generate_private_key call, found %d" % len(gens), f.loc())
    msize = ctx.fold.need("auth.keygen", "ANDROID_PUBKEY_MODULUS_SIZE", "KEYGEN")
    for n, c in gens:
        kw = {k.arg: k.value for k in c.keywords}
        ks = kw.get("key_size", c.args[1] if len(c.args) > 1 else None)
        ok, v = ctx.fold.try_eval(ks, f.mod, {}) if ks is not None else (False, None)
        R.check(ok and v == msize * 8 == 2048, "KEYGEN", f.qualname + "|key-size", "key size = 2048 bits = the blob's modulus field",
                "the generated key has %r bits; the Android RSAPublicKey blob holds exactly %d modulus bytes" % (v, msize), f.loc(n.ast))
        pe = kw.get("public_exponent", c.args[0] if c.args else None)
        ok, v = ctx.fold.try_eval(pe, f.mod, {}) if pe is not None else (False, None)
        R.check(ok and v in (3, 65537), "KEYGEN", f.qualname + "|exponent", "public exponent 65537", "public exponent %r" % (v,), f.loc(n.ast))
    from ..util import swallowing_handlers
    pw = [(n, c) for n in g.live_nodes() for c in node_calls(n) if call_attr(c) == "write" and any(call_attr(x) == "private_bytes" for x in ast.walk(c) if isinstance(x, ast.Call))]
    R.check(len(pw) == 1 and g.dominates([pw[0][0]], g.exit, exc=False) and not swallowing_handlers(g, pw[0][0]), "KEYGEN", f.qualname + "|private-file", "the private key is written on every normal path, failures propagate",
            "keygen() can return normally without having written the private key it generated (early return / swallowed failure): the .pub no longer belongs to the private key on disk", f.loc())
    wp = [(n, c) for n in g.live_nodes() for c in node_calls(n) if call_attr(c) == "write_public_keyfile"]
    ok = len(wp) == 1 and g.dominates([wp[0][0]], g.exit, exc=False) and not swallowing_handlers(g, wp[0][0])
    if ok:
        n, c = wp[0]
        a = [T.term(f, n, x) for x in c.args]
        ok = len(a) == 2 and a[0] == ("p", f.params[0]) and a[1] == ("CONCAT", ("p", f.params[0]), ("c", ".pub"))
    R.check(ok, "KEYGEN", f.qualname + "|public-file", "the public key file <path>.pub is written from the private key just saved",
            "keygen() does not always write <filepath>.pub from the private key at <filepath>", f.loc())
