"""C03 - inbound packets are reassembled and validated independent of read fragmentation.

Decided: (1) loop invariant of the read-exactly primitive `remaining + len(acc) = requested`: each iteration
requests exactly `remaining`, appends the chunk once and subtracts its length once; normal loop exits only when
nothing remains; (2) packet reader: 24-byte header, unpack fields, unknown command -> InvalidCommandError and
checksum mismatch -> InvalidChecksumError dominate delivery, payload size is the header's length field, the tuple
returned is (command, arg0, arg1, payload) of that same read; (3) all inbound bytes pass through this path.
Assumption: a transport returns at most the number of bytes requested (C18/C20).
"""
import ast

from ..loader import AnalysisError
from ..dataflow import key, varkey, unawait
from ..engine import terms
from ..roles import all_roles
from ..terms import show
from ..util import src, node_calls, call_attr, norm_stmt, own_calls
from .c15 import loop_nodes, loop_exit_edges, loop_body_nodes

LEVEL = "other"


def check(ctx, R):
    T = terms(ctx)
    for roles in all_roles(ctx):
        _read_exact(ctx, R, roles, T)
        _packet_reader(ctx, R, roles, T)
        _wmc(ctx, R, roles)
        _only_deadline_raises(ctx, R, roles, T)
        from .c12 import _exc
        _exc(ctx, R, roles)      # a swallowed InvalidCommandError / InvalidChecksumError delivers (or skips) a packet that must be rejected
    R.assume("a transport's bulk_read returns at most the requested number of bytes (checked for the shipped transports in C18/C20)")
    R.undecided("that third-party transports honour 'at most n bytes' (contract)")


from ..util import lin_ast as _lin, lin_add as _lin_add   # noqa: E402



class _ReadGhosts(object):
    """Ghost counters for the read-exactly proof:  G$ = bytes returned by the transport so far,  A$ = length of the prefix of the
    accumulator known to be exactly those bytes in order."""
    ghosts = ("G$", "A$")
    ghost_init = {"G$": 0, "A$": 0}

    def __init__(self, ctx, f, read_node, chunk, acc, list_mode):
        self.ctx, self.f, self.read_node, self.chunk, self.acc, self.list_mode = ctx, f, read_node, chunk, acc, list_mode
        self.df = ctx.df(f)
        self.accvar = ("sum:" if list_mode else "len:") + acc
        self.fill_nodes = []
        self.notes = []

    def _is_chunk(self, node, e):
        e = unawait(e)
        if not (isinstance(e, ast.Name) and e.id == self.chunk):
            return False
        ds = self.df.reaching(node, self.chunk)
        return len(ds) == 1 and next(iter(ds)).node is self.read_node

    def after(self, node, K, pre, post):
        if node is self.read_node:
            K.assign(post, "G$", ({"G$": 1, "len:" + self.chunk: 1}, 0))
            return
        a = node.ast
        if node.kind != "stmt":
            return
        touches = any(d.var == self.acc and d.kind != "base" for d in self.df.node_defs.get(node, []))
        if not touches:
            return
        L = "len:" + self.chunk
        appended = None
        if isinstance(a, ast.AugAssign) and isinstance(a.op, ast.Add) and varkey(a.target) == self.acc and not self.list_mode:
            appended = a.value
        elif isinstance(a, ast.Assign) and len(a.targets) == 1 and varkey(a.targets[0]) == self.acc and not self.list_mode:
            v = unawait(a.value)
            if isinstance(v, ast.BinOp) and isinstance(v.op, ast.Add) and varkey(unawait(v.left)) == self.acc:
                appended = v.right
            elif K.length_of(v) == ({}, 0) or (isinstance(v, ast.List) and not v.elts):
                K.assign(post, "A$", ({}, 0))            # (re)initialised empty
                return
        elif isinstance(a, ast.Assign) and len(a.targets) == 1 and varkey(a.targets[0]) == self.acc and self.list_mode:
            v = unawait(a.value)
            if isinstance(v, ast.List) and not v.elts:
                K.assign(post, "A$", ({}, 0))
                return
        elif isinstance(a, ast.Expr) and isinstance(unawait(a.value), ast.Call):
            c = unawait(a.value)
            if isinstance(c.func, ast.Attribute) and varkey(c.func.value) == self.acc and len(c.args) == 1 and not c.keywords \
                    and c.func.attr == ("append" if self.list_mode else "extend"):
                appended = c.args[0]
        elif isinstance(a, ast.Assign) and len(a.targets) == 1 and isinstance(a.targets[0], ast.Subscript) and varkey(a.targets[0].value) == self.acc \
                and isinstance(a.targets[0].slice, ast.Slice) and a.targets[0].slice.step is None and not self.list_mode:
            # acc[lo:hi] = chunk with lo == A$ and hi - lo == len(chunk): the chunk lands right after what is already in place
            sl = a.targets[0].slice
            lo = K.lin(sl.lower) if sl.lower is not None else None
            hi = K.lin(sl.upper) if sl.upper is not None else None
            if lo is not None and hi is not None and self._is_chunk(node, a.value) \
                    and K.entails_state(pre, _kadd(lo, ({"A$": 1}, 0), -1)) and K.entails_state(pre, _kadd(_kadd(hi, lo, -1), ({L: 1}, 0), -1)):
                K.assign(post, "A$", ({"A$": 1, L: 1}, 0))
                self.fill_nodes.append(node)
                return
        if appended is not None and self._is_chunk(node, appended) and K.entails_state(pre, ({self.accvar: 1, "A$": -1}, 0)):
            K.assign(post, "A$", ({"A$": 1, L: 1}, 0))
            return
        # bytearray(n) as a pre-sized buffer: nothing validated yet
        if isinstance(a, ast.Assign) and len(a.targets) == 1 and varkey(a.targets[0]) == self.acc and not any(node is x for x in self.fill_nodes):
            K.assign(post, "A$", ({}, 0)) if not node.loops else K.havoc(post, "A$")
            return
        K.havoc(post, "A$")


def _kadd(a, b, k=1):
    from ..karr import lin_add
    return lin_add(a, b, k)


def _read_exact_affine(ctx, roles):
    """Proof of the read-exactly invariant by affine-equality abstract interpretation (sa/karr.py).  With G$ the number of bytes
    the transport has returned so far and A$ the validated prefix of the accumulator:
      (1) at the bulk_read call, the size requested equals  <length asked for> - G$;
      (2) the loop is left normally only on an edge that says  <length asked for> - G$ <= 0  (or == 0);
      (3) at every return,  A$ == G$  and the value returned is the accumulator, whose length is A$ (or, for a pre-sized
          buffer filled in place, whose length is the length asked for).
    -> (True, description) or (False, reason)."""
    from ..karr import Karr
    from .c06 import eval_dump
    f = roles.read_exact
    g = ctx.cfg(f)
    df = ctx.df(f)
    sites = [(n, c) for n in g.live_nodes() for c in node_calls(n) if call_attr(c) == "bulk_read"]
    if len(sites) != 1:
        return False, "not exactly one bulk_read"
    n, c = sites[0]
    st = n.ast
    if not n.loops or not (n.kind == "stmt" and isinstance(st, ast.Assign) and len(st.targets) == 1 and isinstance(st.targets[0], ast.Name) and unawait(st.value) is c) or not c.args:
        return False, "read not bound to a variable inside a loop"
    if len(f.params) < 2:
        return False, "no length parameter"
    P0 = "@" + f.params[1]
    head = n.loops[-1]
    chunk = st.targets[0].id
    for m in g.live_nodes():
        if m is not n and any(d.var == chunk and d.kind != "base" for d in df.node_defs.get(m, [])):
            return False, "the chunk is modified"
    rets = [rn for rn in g.live_nodes() if rn.kind == "stmt" and isinstance(rn.ast, ast.Return)]
    acc, list_mode = None, False
    for rn in rets:
        v = unawait(rn.ast.value) if rn.ast.value is not None else None
        lm = False
        if isinstance(v, ast.Call) and isinstance(v.func, ast.Name) and v.func.id in ("bytes", "bytearray") and len(v.args) == 1 and not v.keywords:
            v = unawait(v.args[0])
        if isinstance(v, ast.Call) and isinstance(v.func, ast.Attribute) and v.func.attr == "join" and len(v.args) == 1 and isinstance(v.func.value, ast.Constant) and v.func.value.value == b"":
            v = unawait(v.args[0])
            lm = True
        k = varkey(v) if v is not None else None
        if k is None or "." in k or (acc is not None and (acc, list_mode) != (k, lm)):
            return False, "returns something other than one accumulator"
        acc, list_mode = k, lm
    if acc is None or acc in f.params:
        return False, "no accumulator"
    H = _ReadGhosts(ctx, f, n, chunk, acc, list_mode)
    K = Karr(ctx, f, hooks=H)
    if H.accvar not in K.idx or ("len:" + chunk) not in K.idx:
        return False, "accumulator / chunk lengths are not tracked"
    K.run()
    want = ({P0: 1, "G$": -1}, 0)                      # outstanding = length asked for - bytes received
    req = K.lin(c.args[0])
    if req is None or not K.entails(n, _kadd(req, want, -1)):
        return False, "the size requested is not provably the outstanding byte count (state at the read: %s)" % K.describe(n)
    for (m, d, l) in loop_exit_edges(g, head):
        if l == "exc":
            continue
        if K.entails_edge(m, l, want):
            continue
        ok = False
        for fa in set(df.facts(m)) | df.edge_facts(m, l):
            if fa[0][0] == "lt" and fa[1] is False:
                try:
                    a_, b_ = K.lin(eval_dump(fa[0][1])), K.lin(eval_dump(fa[0][2]))
                except Exception:   # noqa
                    continue
                if a_ is not None and b_ is not None and K.entails_edge(m, l, _kadd(_kadd(b_, a_, -1), want, -1)):
                    ok = True
        if not ok:
            return False, "the loop can be left at `%s` while bytes are outstanding" % (norm_stmt(m.ast) if m.ast is not None else m.kind)
    for rn in rets:
        if not K.entails(rn, ({"A$": 1, "G$": -1}, 0)):
            return False, "at `%s` the accumulator is not provably everything the transport returned, in order (state: %s)" % (norm_stmt(rn.ast), K.describe(rn))
        if H.fill_nodes:
            if not K.entails(rn, ({"len:" + acc: 1, P0: -1}, 0)):
                return False, "pre-sized buffer is not of the length asked for"
        elif not K.entails(rn, ({H.accvar: 1, "A$": -1}, 0)):
            return False, "accumulator holds more than the validated bytes"
    # a pre-sized buffer is filled at the right place only while the cursor is inside it: the store is guarded by outstanding > 0
    for fn_ in H.fill_nodes:
        inside_ok = False
        for fa in df.facts(fn_):
            if fa[0][0] == "lt" and fa[1] is True:
                try:
                    a_, b_ = K.lin(eval_dump(fa[0][1])), K.lin(eval_dump(fa[0][2]))
                except Exception:   # noqa
                    continue
                if a_ is not None and b_ is not None and K.entails(fn_, _kadd(_kadd(b_, a_, -1), ({"len:" + acc: 1, "A$": -1}, 0), -1)):
                    inside_ok = True
        if not inside_ok:
            return False, "in-place store is not guarded by room left in the buffer"
    return True, "affine invariants: request == %s - received at the read; exits only when nothing is outstanding; the value returned is exactly the %s chunks in order" % (f.params[1], "joined" if list_mode else "appended")


def _read_exact(ctx, R, roles, T):
    """The read-exactly primitive, as an inductive linear invariant: with `req` the size asked of the transport and `acc` the
    accumulator,  req + len(acc) == <requested length>  holds when the loop is entered and is preserved by every iteration
    (the chunk is appended exactly once; every counter moves by len(chunk) exactly once); the loop is left normally only when
    req <= 0; the accumulator is what is returned.  Counting down, counting up and recomputing from len(acc) all qualify."""
    f = roles.read_exact
    g = ctx.cfg(f)
    df = ctx.df(f)
    q = f.qualname
    sites = [(n, c) for n in g.live_nodes() for c in node_calls(n) if call_attr(c) == "bulk_read"]
    R.count("INV-read[%s]" % roles.tag, len(sites), 1)
    proved, how = _read_exact_affine(ctx, roles)
    if proved:
        R.ok("INV-read", q + "|affine", how, f.loc())
        return
    if len(sites) != 1:
        R.fail("INV-read", q + "|sites", "read-exactly primitive must contain exactly one bulk_read call, found %d" % len(sites), f.loc())
        return
    n, c = sites[0]
    loc = f.loc(n.ast)
    if not n.loops:
        R.fail("INV-read", q + "|loop", "bulk_read is not retried in a loop: a short read truncates the packet", loc)
        return
    head = n.loops[-1]
    inside = set(loop_nodes(g, head))
    st = n.ast
    if not (n.kind == "stmt" and isinstance(st, ast.Assign) and len(st.targets) == 1 and isinstance(st.targets[0], ast.Name) and unawait(st.value) is c):
        R.fail("INV-read", q + "|chunk", "the chunk returned by bulk_read is not bound to a variable (`%s`)" % norm_stmt(st), loc)
        return
    Tv = st.targets[0].id
    # -- the accumulator: what is returned ----------------------------------------------------------------------------
    acc = None
    list_mode = False
    rets = [rn for rn in g.live_nodes() if rn.kind == "stmt" and isinstance(rn.ast, ast.Return)]
    for rn in rets:
        v = unawait(rn.ast.value) if rn.ast.value is not None else None
        if isinstance(v, ast.Call) and isinstance(v.func, ast.Name) and v.func.id in ("bytes", "bytearray") and len(v.args) == 1:
            v = unawait(v.args[0])
        if isinstance(v, ast.Call) and isinstance(v.func, ast.Attribute) and v.func.attr == "join" and len(v.args) == 1 and isinstance(v.func.value, ast.Constant) and v.func.value.value == b"":
            v = unawait(v.args[0])
            list_mode = True
        k = varkey(v) if v is not None else None
        ok = k is not None and (acc is None or acc == k) and rn not in inside
        if ok:
            acc = k
        R.check(ok, "INV-read", "%s|%s" % (q, norm_stmt(rn.ast)), "returns the accumulated bytes after the loop",
                "returns `%s`, not the accumulated bytes of a completed loop" % norm_stmt(rn.ast), f.loc(rn.ast))
    if acc is None:
        R.fail("INV-read", q + "|acc", "no accumulator is returned", loc)
        return
    # -- appends of the chunk -------------------------------------------------------------------------------------------
    adds = []
    for m in inside:
        a = m.ast
        if m.kind != "stmt":
            continue
        if isinstance(a, ast.AugAssign) and isinstance(a.op, ast.Add) and varkey(a.target) == acc and isinstance(unawait(a.value), ast.Name) and unawait(a.value).id == Tv and not list_mode:
            adds.append(m)
        elif isinstance(a, ast.Expr) and isinstance(unawait(a.value), ast.Call):
            cc = unawait(a.value)
            if isinstance(cc.func, ast.Attribute) and varkey(cc.func.value) == acc and len(cc.args) == 1 and isinstance(unawait(cc.args[0]), ast.Name) and unawait(cc.args[0]).id == Tv \
                    and cc.func.attr == ("append" if list_mode else "extend"):
                adds.append(m)
        elif isinstance(a, ast.Assign) and len(a.targets) == 1 and varkey(a.targets[0]) == acc and not list_mode:
            v = unawait(a.value)
            if isinstance(v, ast.BinOp) and isinstance(v.op, ast.Add) and varkey(unawait(v.left)) == acc and isinstance(unawait(v.right), ast.Name) and unawait(v.right).id == Tv:
                adds.append(m)
    R.check(len(adds) == 1, "INV-read", q + "|append", "the chunk is appended once per iteration",
            "the chunk `%s` is not appended to the accumulator exactly once per iteration (%d appends)" % (Tv, len(adds)), loc)
    if len(adds) != 1:
        return
    # -- counters: names updated in the loop by +-len(chunk) --------------------------------------------------------------
    deltas = {}          # name -> (+1 / -1 in units of len(chunk), node)
    bad_writes = []
    for m in inside:
        for d in df.node_defs.get(m, []):
            if d.kind == "base" or "." in d.var:
                continue
            if d.var == Tv:
                if m is not n:
                    R.fail("INV-read", q + "|chunk-written", "the chunk is modified at `%s`" % norm_stmt(m.ast), f.loc(m.ast))
                continue
            if d.var == acc:
                if m not in adds:
                    R.fail("INV-read", q + "|acc-written", "the accumulator is also modified at `%s`" % norm_stmt(m.ast), f.loc(m.ast))
                continue
            a = m.ast
            sg = None
            if m.kind == "stmt" and isinstance(a, ast.AugAssign) and isinstance(a.op, (ast.Add, ast.Sub)) and isinstance(a.target, ast.Name):
                v = unawait(a.value)
                if isinstance(v, ast.Call) and isinstance(v.func, ast.Name) and v.func.id == "len" and len(v.args) == 1 and isinstance(unawait(v.args[0]), ast.Name) and unawait(v.args[0]).id == Tv:
                    sg = 1 if isinstance(a.op, ast.Add) else -1
            if sg is None or d.var in deltas:
                bad_writes.append((d.var, m))
            else:
                deltas[d.var] = (sg, m)
    req = _lin(c.args[0], acc) if c.args else None
    if req is None:
        R.fail("INV-read", q + "|request", "bulk_read is asked for `%s`, which is not a linear expression of the counters and len(accumulator)" % (src(c.args[0]) if c.args else "?"), loc)
        return
    # a name recomputed in every iteration from the counters / len(accumulator) just before the read (`missing = length - len(data)`)
    derived = set()
    for _round in range(3):
        changed = False
        for v in list(req[0]):
            if v == "LEN" or v in deltas:
                continue
            d = df.unique_def(n, v)
            if d is None or d.node not in inside or d.kind != "assign" or d.path or d.value is None:
                continue
            lf = _lin(d.value, acc)
            if lf is None:
                continue
            between = g.reach([d.node], avoid=[n], exc=False)
            moved = adds[0] in between or any(deltas[x][1] in between for x in lf[0] if x in deltas) or \
                any(dd.var in lf[0] and dd.kind != "base" for m in between if m is not d.node for dd in df.node_defs.get(m, []))
            if moved:
                continue
            k = req[0][v]
            rest = ({a_: b_ for a_, b_ in req[0].items() if a_ != v}, req[1])
            req = _lin_add(rest, ({a_: b_ * k for a_, b_ in lf[0].items()}, lf[1] * k))
            derived.add(v)
            changed = True
        if not changed:
            break
    bad_writes = [(v, m) for v, m in bad_writes if v not in derived]
    used = set(req[0]) - {"LEN"}
    for v, m in bad_writes:
        if v in used:
            R.fail("INV-read", q + "|remaining-written", "`%s`, which determines the size requested, is also modified at `%s`" % (v, norm_stmt(m.ast)), f.loc(m.ast))
    # every update (append, counters the request depends on) happens on every path after a read, on the chunk just read
    exits = [d for (_m, d, _l) in loop_exit_edges(g, head)]
    for what, m in [("append", adds[0])] + [("subtract" if deltas[v][0] < 0 else "count", deltas[v][1]) for v in sorted(used) if v in deltas]:
        r = g.reach([n], avoid=[m], exc=False)
        bad = head in r or any(x in r for x in exits)
        R.check(not bad, "INV-read", q + "|%s-every-path" % what, "%s happens on every path after a read" % what,
                "after a read there is a path on which `%s` is skipped" % norm_stmt(m.ast), f.loc(m.ast))
        ds = df.reaching(m, Tv)
        R.check(len(ds) == 1 and next(iter(ds)).node is n, "INV-read", q + "|%s-same-chunk" % what, "operates on the chunk just read", None, f.loc(m.ast))
        R.check(m not in g.reach([m], avoid=[n], exc=False), "INV-read", q + "|%s-once" % what, "%s happens once per chunk" % what, "`%s` can run twice for one chunk" % norm_stmt(m.ast), f.loc(m.ast))
    # -- preservation: d(req + len(acc)) == 0 per iteration --------------------------------------------------------------
    inv = _lin_add(req, ({"LEN": 1}, 0))
    delta = inv[0].get("LEN", 0) * 1
    unknown_moving = []
    for v, k in inv[0].items():
        if v == "LEN":
            continue
        if v in deltas:
            delta += k * deltas[v][0]
        elif any(d.var == v and d.kind != "base" for m in inside for d in df.node_defs.get(m, [])):
            unknown_moving.append(v)
    R.check(delta == 0 and not unknown_moving, "INV-read", q + "|subtract", "each iteration keeps  requested-size + len(accumulator)  constant (the request shrinks by exactly what was read)",
            "the size requested does not shrink by exactly len(chunk) per iteration (net change %+d x len(chunk)%s): the remaining count no longer tracks what was read" % (
                delta, "; `%s` changes in an unrecognised way" % ", ".join(unknown_moving) if unknown_moving else ""), loc)
    # -- initialisation: req + len(acc) == the length parameter at loop entry ---------------------------------------------
    want_param = f.params[1] if len(f.params) > 1 else None

    def initial(v, depth=0):
        """linear form of variable v on entry to the loop, over parameter entry values"""
        outer = [d for d in df.reaching(head, v) if d.node not in inside]
        if len(outer) != 1 or depth > 3:
            return None
        d = outer[0]
        if d.kind == "param":
            return {("p", v): 1}, 0
        if d.kind == "assign" and not d.path and d.value is not None:
            lf = _lin(d.value, None)
            if lf is None:
                return None
            out = ({}, lf[1])
            for a_, k_ in lf[0].items():
                if a_.startswith("len("):
                    return None
                dd = df.reaching(d.node, a_)
                if len(dd) == 1 and next(iter(dd)).kind == "param":
                    sub = ({("p", a_): 1}, 0)
                else:
                    return None
                out = _lin_add(out, ({x: y * k_ for x, y in sub[0].items()}, sub[1] * k_))
            return out
        return None
    init_form = ({}, inv[1])
    init_ok = True
    for v, k in inv[0].items():
        if v == "LEN":
            continue          # accumulator starts empty (checked below)
        iv = initial(v)
        if iv is None:
            init_ok = False
            break
        init_form = _lin_add(init_form, ({x: y * k for x, y in iv[0].items()}, iv[1] * k))
    init_ok = init_ok and want_param is not None and init_form == ({("p", want_param): 1}, 0)
    R.check(init_ok, "INV-read", q + "|remaining-init", "on entry the size requested is the length asked for",
            "on entry to the loop the size requested is not the `%s` parameter" % (want_param or "length"), loc)
    aouter = [d for d in df.reaching(head, acc) if d.node not in inside]
    if list_mode:
        empty_ok = bool(aouter) and all(d.kind == "assign" and isinstance(unawait(d.value), ast.List) and not unawait(d.value).elts for d in aouter)
    else:
        empty_ok = bool(aouter) and all(d.kind == "assign" and _is_empty_bytes(unawait(d.value)) for d in aouter)
    R.check(empty_ok, "INV-read", q + "|acc-init", "accumulator starts empty", "the accumulator does not start empty", loc)
    # -- normal exits only when req <= 0 ----------------------------------------------------------------------------------
    from .c06 import eval_dump

    def says_done(fa):
        kind, pol = fa[0][0], fa[1]
        try:
            xs = [eval_dump(x) for x in fa[0][1:]]
        except Exception:   # noqa
            return False
        if kind == "lt" and len(xs) == 2:
            la, lb = _lin(xs[0], acc), _lin(xs[1], acc)
            if la is None or lb is None:
                return False
            if pol is False and _lin_add(lb, la, -1) == req:
                return True           # not (a < b) with b - a == req: req <= 0
            if pol is True and _lin_add(la, lb, -1) == ({k: v for k, v in req[0].items()}, req[1] + 1) and False:
                return True
        if kind == "eq" and len(xs) == 2 and pol is True:
            la, lb = _lin(xs[0], acc), _lin(xs[1], acc)
            if la is not None and lb is not None and (_lin_add(la, lb, -1) == req or _lin_add(lb, la, -1) == req):
                return True
        if kind == "truthy" and len(xs) == 1 and pol is False:
            la = _lin(xs[0], acc)
            if la is not None and la == req:
                return True
        return False
    for (m, d, l) in loop_exit_edges(g, head):
        have = set(df.facts(m)) | df.edge_facts(m, l)
        ok = any(says_done(fa) for fa in have)
        R.check(ok, "INV-read", "%s|exit:%s" % (q, norm_stmt(m.ast) if m.ast is not None else m.kind),
                "loop exit only when no bytes remain", "the read loop can be left while bytes remain (exit at `%s` is not governed by the outstanding size being 0)" % (norm_stmt(m.ast) if m.ast is not None else m.kind), f.loc(m.ast))


def _is_empty_bytes(e):
    if isinstance(e, ast.Constant) and e.value in (b"",):
        return True
    if isinstance(e, ast.Call) and isinstance(e.func, ast.Name) and e.func.id in ("bytearray", "bytes") and not e.args and not e.keywords:
        return True
    if isinstance(e, ast.Call) and isinstance(e.func, ast.Name) and e.func.id in ("bytearray", "bytes") and len(e.args) == 1 and isinstance(e.args[0], ast.Constant) and e.args[0].value in (b"", 0):
        return True
    return False


def _packet_reader(ctx, R, roles, T):
    f = roles.packet_reader
    g = ctx.cfg(f)
    df = ctx.df(f)
    cg = ctx.cg
    rex = roles.read_exact
    reads = [(n, c) for n in g.live_nodes() for c in node_calls(n) if cg.site(c) is not None and rex in cg.site(c).callees]
    R.count("PKT[%s]" % roles.tag, len(reads), 2)
    loc = f.loc()
    if len(reads) != 2:
        R.fail("PKT", f.qualname + "|reads", "packet reader must read a header and a payload (2 reads), found %d" % len(reads), loc)
        return
    lenparam = rex.call_params[0]
    sizes = []
    for n, c in reads:
        b = cg.site(c).bind(rex)
        sizes.append(T.term(f, n, b[lenparam]) if lenparam in b else ("opaque",))
    hdr = [i for i, s in enumerate(sizes) if s == ("c", 24)]
    R.check(len(hdr) == 1, "PKT", f.qualname + "|header-size", "header read requests 24 bytes", "no read requests exactly the 24-byte header (sizes: %s)" % ", ".join(show(s) for s in sizes), loc)
    if len(hdr) != 1:
        return
    hn, hc = reads[hdr[0]]
    pn, pc = reads[1 - hdr[0]]
    hterm = T.term(f, hn, hc)
    psize = sizes[1 - hdr[0]]

    def is_unpack_proj(t, i):
        return t[0] == "proj" and t[2] == i and t[1][0] == "call" and isinstance(t[1][1], str) and t[1][1].endswith("adb_message.unpack") and t[1][2] and t[1][2][0] == hterm

    R.check(is_unpack_proj(psize, 3), "PKT", f.qualname + "|payload-size", "payload read requests the header's data_length field",
            "payload read requests %s, not the data_length field of the header just read" % show(psize), f.loc(pn.ast))
    R.check(g.dominates([hn], pn), "PKT", f.qualname + "|order", "header is read before the payload", None, loc)
    pterm = T.term(f, pn, pc)
    # command lookup and rejection
    wti = ctx.fold.need("constants", "WIRE_TO_ID", "PKT")
    rets = [n for n in g.live_nodes() if n.kind == "stmt" and isinstance(n.ast, ast.Return)]
    R.check(bool(rets) and g.exit not in g.reach([g.entry], avoid=rets, exc=False, include_start=True), "PKT", f.qualname + "|returns", "every normal exit is an explicit return", None, loc)
    # checksum tests
    ok_edges = []   # (testnode, label) edges on which checksum(payload) == header checksum is known
    for tn in g.nodes:
        if tn.kind != "test":
            continue
        t = unawait(tn.ast.test)
        if isinstance(t, ast.Compare) and len(t.ops) == 1 and isinstance(t.ops[0], (ast.Eq, ast.NotEq)):
            a = T.term(f, tn, t.left)
            b = T.term(f, tn, t.comparators[0])
            for x, y in ((a, b), (b, a)):
                if _is_checksum_of(x, pterm) and is_unpack_proj(y, 4):
                    ok_edges.append((tn, "true" if isinstance(t.ops[0], ast.Eq) else "false"))
    # edges on which the header's data_length is known to be zero (the payload read is then empty: nothing to verify)
    zero_edges = []
    for tn in g.nodes:
        if tn.kind != "test":
            continue
        t = unawait(tn.ast.test)
        pol = True
        while isinstance(t, ast.UnaryOp) and isinstance(t.op, ast.Not):
            t, pol = unawait(t.operand), not pol
        cand, zero_when = None, None
        if isinstance(t, ast.Compare) and len(t.ops) == 1 and isinstance(t.ops[0], (ast.Eq, ast.NotEq)):
            for x, y in ((t.left, t.comparators[0]), (t.comparators[0], t.left)):
                if isinstance(y, ast.Constant) and y.value == 0 and not isinstance(y.value, bool):
                    cand, zero_when = x, isinstance(t.ops[0], ast.Eq)
        elif isinstance(t, (ast.Name, ast.Attribute)):
            cand, zero_when = t, False
        if cand is not None and is_unpack_proj(T.term(f, tn, cand), 3):
            zero_edges.append((tn, "true" if zero_when == pol else "false"))
    for rn in rets:
        rt = T.term(f, rn, rn.ast.value)
        sub = "%s|%s" % (f.qualname, norm_stmt(rn.ast))
        if not (rt[0] == "tuple" and len(rt) == 5):
            R.fail("PKT", sub, "packet reader returns %s, not (command, arg0, arg1, payload)" % show(rt), f.loc(rn.ast))
            continue
        cmd, a0, a1, payload = rt[1:]
        cmd_ok = cmd[0] == "call" and cmd[1] == ".get" and (len(cmd[2]) == 2 or (len(cmd[2]) == 3 and cmd[2][2] == ("c", None))) and cmd[2][0] == ("c", wti) and is_unpack_proj(cmd[2][1], 0)
        if not cmd_ok and cmd[0] == "sub" and cmd[1] == ("c", wti) and is_unpack_proj(cmd[2], 0):
            cmd_ok = True          # WIRE_TO_ID[word]: an unknown word raises KeyError instead of being delivered (the membership guard is checked below)
        R.check(cmd_ok, "PKT", sub + "|cmd", "command = WIRE_TO_ID lookup of header field 0", "returned command is %s, not the table lookup of the header's command word" % show(cmd), f.loc(rn.ast))
        R.check(is_unpack_proj(a0, 1) and is_unpack_proj(a1, 2), "PKT", sub + "|args", "arg0/arg1 = header fields 1/2 in order",
                "returned (arg0, arg1) are (%s, %s), not header fields 1 and 2" % (show(a0), show(a1)), f.loc(rn.ast))
        # unknown command rejected before any return
        cmdvar = rn.ast.value.elts[0] if isinstance(rn.ast.value, ast.Tuple) else None
        facts = df.facts(rn)
        known = cmdvar is not None and any(fa[0] == ("truthy", key(cmdvar)) and fa[1] is True for fa in facts) or \
            (cmdvar is not None and any(fa[0] == ("is", ) + tuple(sorted([key(cmdvar), key(ast.Constant(value=None))])) and fa[1] is False for fa in facts))
        if not known and cmd[0] == "sub":
            # command = WIRE_TO_ID[word] behind `word in WIRE_TO_ID`
            from .c06 import eval_dump
            for fa in facts:
                if fa[0][0] == "in" and fa[1] is True:
                    try:
                        we, te = eval_dump(fa[0][1]), eval_dump(fa[0][2])
                    except Exception:   # noqa
                        continue
                    okt, tv = ctx.fold.try_eval(te, f.mod, {})
                    if okt and tv == wti and is_unpack_proj(T.term(f, rn, we), 0):
                        known = True
        R.check(known, "PKT", sub + "|known-cmd", "an unknown command word cannot reach this return",
                "a packet with an unknown command word can be delivered (no dominating `if not command: raise`)", f.loc(rn.ast))
        if payload == pterm:
            # must be behind a checksum-ok edge
            blocked = set()
            reach = g.reach([g.entry], exc=True, include_start=True,
                            edge_filter=lambda s, d, l: not any(s is tn and l == lab for tn, lab in ok_edges + zero_edges))
            R.check(bool(ok_edges) and rn not in reach, "PKT", sub + "|checksum", "payload delivered only after checksum(payload) == header checksum (or when the header announces no payload)",
                    "a payload can be delivered without its checksum having been compared with the header's data_check", f.loc(rn.ast))
        elif payload[0] == "c" and payload[1] in (b"", bytearray()):
            lk = None
            # governed by data_length == 0
            okz = False
            for fa in facts:
                if fa[1] is True and fa[0][0] == "eq" and key(ast.Constant(value=0)) in fa[0][1:]:
                    okz = True
                if fa[1] is False and fa[0][0] == "truthy":
                    okz = okz or True
            # verify the variable compared is the header's length field
            okz = okz and _zero_guard_is_length(ctx, T, f, rn, is_unpack_proj)
            if not okz and zero_edges:
                # every path to this return takes an edge on which the header's data_length is known to be zero
                r0 = g.reach([g.entry], exc=True, include_start=True, edge_filter=lambda s, d, l: not any(s is tn and l == lab for tn, lab in zero_edges))
                okz = rn not in r0
            R.check(okz, "PKT", sub + "|empty", "empty payload returned only when the header announces length 0",
                    "an empty payload is returned although the header may announce data", f.loc(rn.ast))
        else:
            R.fail("PKT", sub + "|payload", "returned payload %s is not the payload just read" % show(payload), f.loc(rn.ast))
    # the raises are the documented exceptions
    for tn in g.nodes:
        if tn.kind == "stmt" and isinstance(tn.ast, ast.Raise) and tn.ast.exc is not None:
            s = src(tn.ast.exc)
            facts = df.facts(tn)
    exc_names = [src(n.ast.exc) for n in g.live_nodes() if n.kind == "stmt" and isinstance(n.ast, ast.Raise) and n.ast.exc is not None]
    R.check(any("InvalidCommandError" in s for s in exc_names), "PKT", f.qualname + "|InvalidCommandError", "unknown command raises InvalidCommandError",
            "no `raise InvalidCommandError` in the packet reader", loc)
    R.check(any("InvalidChecksumError" in s for s in exc_names), "PKT", f.qualname + "|InvalidChecksumError", "checksum mismatch raises InvalidChecksumError",
            "no `raise InvalidChecksumError` in the packet reader", loc)
    # the failing edge of each checksum test leads to that raise only
    for tn, lab in ok_edges:
        other = "false" if lab == "true" else "true"
        tgt = g.reach_from_edge(tn, other, exc=False)
        R.check(g.exit not in tgt and not any(x.kind == "stmt" and isinstance(x.ast, ast.Return) for x in tgt), "PKT", f.qualname + "|mismatch-raises",
                "a checksum mismatch never returns", "after a checksum mismatch the reader can still return", f.loc(tn.ast))


def _is_checksum_of(t, payload):
    from ..terms import alts_of
    alts = alts_of(t)
    good = ("MOD32", ("BYTESUM", payload))
    legacy = ("MOD32", ("ORDSUM", payload))
    return good in alts and alts <= {good, legacy}


def _zero_guard_is_length(ctx, T, f, rn, is_unpack_proj):
    g = ctx.cfg(f)
    for tn in g.nodes:
        if tn.kind == "test" and g.dominates([tn], rn):
            t = unawait(tn.ast.test)
            cand = None
            if isinstance(t, ast.Compare) and len(t.ops) == 1 and isinstance(t.ops[0], ast.Eq):
                for x, y in ((t.left, t.comparators[0]), (t.comparators[0], t.left)):
                    if isinstance(y, ast.Constant) and y.value == 0:
                        cand = x
            elif isinstance(t, ast.UnaryOp) and isinstance(t.op, ast.Not):
                cand = t.operand
            if cand is not None and is_unpack_proj(T.term(f, tn, cand), 3):
                lab = [l for d, l in g.succ[tn] if l in ("true", "false") and (d is rn or rn in g.reach([d], exc=False))]
                if lab == ["true"]:
                    return True
    return False


def _wmc(ctx, R, roles):
    cg = ctx.cg
    rex, pr = roles.read_exact, roles.packet_reader
    # bulk_read only in read_exact (name-based, whole device module)
    for f in roles.mod.all_funcs:
        for c in own_calls(f):
            if call_attr(c) == "bulk_read" and f is not rex:
                R.fail("WMC-read", "%s|bulk_read" % f.qualname, "bulk_read is called outside the read-exactly primitive: bytes bypass reassembly/validation", f.loc(c))
    R.ok("WMC-read", rex.qualname + "|sole-reader", "the only bulk_read call site is the read-exactly primitive", rex.loc())
    callers = set(cs.func for cs in cg.callers_of(rex))
    R.check(callers <= {pr}, "WMC-read", rex.qualname + "|callers", "read-exactly primitive called only from the packet reader",
            "read-exactly primitive also called from %s (unvalidated bytes)" % ", ".join(sorted(c.qualname for c in callers - {pr})), rex.loc())
    callers = set(cs.func for cs in cg.callers_of(pr))
    want = {roles.pump, roles.connect_reader}
    R.check(callers <= want, "WMC-read", pr.qualname + "|callers", "packet reader called only from the pump and the connect-time reader",
            "packet reader also called from %s" % ", ".join(sorted(c.qualname for c in callers - want)), pr.loc())


def _only_deadline_raises(ctx, R, roles, T):
    """Inside the read-exactly loop the only way to give up is the read deadline: any other raise makes the result depend on how the
    transport happened to fragment the stream (number of reads, empty reads, sizes)."""
    from .c11 import deadline_tests
    f = roles.read_exact
    g = ctx.cfg(f)
    heads = [n for n in g.live_nodes() if n.kind == "test" and isinstance(n.ast, ast.While)]
    for head in heads:
        inside = set(loop_body_nodes(g, head))
        dl = deadline_tests(ctx, f, head)
        allowed = set()
        for (tn, bound, start, guarded) in dl:
            allowed |= set(x for x in g.reach_from_edge(tn, "true", exc=False) if x.kind == "stmt" and isinstance(x.ast, ast.Raise))
        for n in inside:
            if n.kind == "stmt" and isinstance(n.ast, ast.Raise):
                R.check(n in allowed, "INV-read", "%s|raise|%s" % (f.qualname, norm_stmt(n.ast)[:50]), "the read loop gives up only on its deadline",
                        "the read loop can raise `%s` for a reason other than the read deadline: the outcome depends on how the byte stream is fragmented" % norm_stmt(n.ast)[:70], f.loc(n.ast))
            if n.kind == "test" and n is not head:
                # a test that mentions a counter of iterations/empty reads and leads to an exit
                pass
