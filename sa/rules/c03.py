"""C03 - inbound packets are reassembled and validated independent of read fragmentation.

Decided: (1) loop invariant of the read-exactly primitive `remaining + len(acc) = requested`: each iteration
requests exactly `remaining`, appends the chunk once and subtracts its length once; normal loop exits only when
nothing remains; (2) packet reader: 24-byte header, unpack fields, unknown command -> InvalidCommandError and
checksum mismatch -> InvalidChecksumError dominate delivery, payload size is the header's length field, the tuple
returned is (command, arg0, arg1, payload) of that same read; (3) all inbound bytes pass through this path.
Assumption: a transport returns at most the number of bytes requested (C18/C20).
"""
import ast

from ..loader import AnalysisError
from ..dataflow import key, varkey, unawait
from ..engine import terms
from ..roles import all_roles
from ..terms import show
from ..util import src, node_calls, call_attr, norm_stmt, own_calls
from .c15 import loop_nodes, loop_exit_edges, loop_body_nodes

LEVEL = "other"


def check(ctx, R):
    T = terms(ctx)
    for roles in all_roles(ctx):
        _read_exact(ctx, R, roles, T)
        _packet_reader(ctx, R, roles, T)
        _wmc(ctx, R, roles)
        _only_deadline_raises(ctx, R, roles, T)
        from .c12 import _exc
        _exc(ctx, R, roles)      # a swallowed InvalidCommandError / InvalidChecksumError delivers (or skips) a packet that must be rejected
    R.assume("a transport's bulk_read returns at most the requested number of bytes (checked for the shipped transports in C18/C20)")
    R.undecided("that third-party transports honour 'at most n bytes' (contract)")


def _read_exact(ctx, R, roles, T):
    f = roles.read_exact
    g = ctx.cfg(f)
    df = ctx.df(f)
    sites = [(n, c) for n in g.live_nodes() for c in node_calls(n) if call_attr(c) == "bulk_read"]
    R.count("INV-read[%s]" % roles.tag, len(sites), 1)
    if len(sites) != 1:
        R.fail("INV-read", f.qualname + "|sites", "read-exactly primitive must contain exactly one bulk_read call, found %d" % len(sites), f.loc())
        return
    n, c = sites[0]
    loc = f.loc(n.ast)
    if not n.loops:
        R.fail("INV-read", f.qualname + "|loop", "bulk_read is not retried in a loop: a short read truncates the packet", loc)
        return
    head = n.loops[-1]
    inside = set(loop_nodes(g, head))
    # T = bulk_read(R, ...)
    st = n.ast
    if not (n.kind == "stmt" and isinstance(st, ast.Assign) and len(st.targets) == 1 and isinstance(st.targets[0], ast.Name) and unawait(st.value) is c):
        R.fail("INV-read", f.qualname + "|chunk", "the chunk returned by bulk_read is not bound to a variable (`%s`)" % norm_stmt(st), loc)
        return
    Tv = st.targets[0].id
    a0 = unawait(c.args[0]) if c.args else None
    if not isinstance(a0, ast.Name):
        R.fail("INV-read", f.qualname + "|request", "bulk_read is asked for `%s`, not for the number of bytes that remain" % (src(a0) if a0 is not None else "?"), loc)
        return
    Rv = a0.id
    # remaining counter: initialised from a parameter (or a copy of it), modified only by `R -= len(T)`
    outer = [d for d in df.reaching(head, Rv) if d.node not in inside]
    init_ok = bool(outer) and all(d.kind == "param" or (d.kind == "assign" and isinstance(unawait(d.value), ast.Name) and unawait(d.value).id in f.params and not d.path) for d in outer)
    R.check(init_ok, "INV-read", f.qualname + "|remaining-init", "`%s` starts as the requested length" % Rv,
            "the remaining-bytes counter `%s` does not start as the requested length" % Rv, loc)
    subs, adds, acc = [], [], None
    for m in inside:
        a = m.ast
        if m.kind == "stmt" and isinstance(a, ast.AugAssign):
            v = unawait(a.value)
            if isinstance(a.op, ast.Sub) and varkey(a.target) == Rv and isinstance(v, ast.Call) and isinstance(v.func, ast.Name) and v.func.id == "len" \
                    and len(v.args) == 1 and isinstance(v.args[0], ast.Name) and v.args[0].id == Tv:
                subs.append(m)
            elif isinstance(a.op, ast.Add) and isinstance(v, ast.Name) and v.id == Tv and varkey(a.target):
                adds.append(m)
                acc = varkey(a.target)
    R.check(len(subs) == 1, "INV-read", f.qualname + "|subtract", "`%s -= len(%s)` occurs once per iteration" % (Rv, Tv),
            "`%s -= len(%s)` does not occur exactly once in the loop (%d found): the remaining count no longer tracks what was read" % (Rv, Tv, len(subs)), loc)
    R.check(len(adds) == 1, "INV-read", f.qualname + "|append", "the chunk is appended once per iteration",
            "the chunk `%s` is not appended to the accumulator exactly once per iteration (%d appends)" % (Tv, len(adds)), loc)
    if len(subs) != 1 or len(adds) != 1:
        return
    exits = [d for (_m, d, _l) in loop_exit_edges(g, head)]
    for what, m in (("subtract", subs[0]), ("append", adds[0])):
        r = g.reach([n], avoid=[m], exc=False)
        bad = head in r or any(x in r for x in exits)
        R.check(not bad, "INV-read", f.qualname + "|%s-every-path" % what, "%s happens on every path after a read" % what,
                "after a read there is a path on which `%s` is skipped" % norm_stmt(m.ast), f.loc(m.ast))
        # the chunk used there is the one just read
        ds = df.reaching(m, Tv)
        R.check(len(ds) == 1 and next(iter(ds)).node is n, "INV-read", f.qualname + "|%s-same-chunk" % what, "operates on the chunk just read", None, f.loc(m.ast))
    for m in inside:
        for d in df.node_defs.get(m, []):
            if d.kind == "base":
                continue
            if d.var == Rv and m not in subs:
                R.fail("INV-read", f.qualname + "|remaining-written", "the remaining counter is also modified at `%s`" % norm_stmt(m.ast), f.loc(m.ast))
            if d.var == acc and m not in adds:
                R.fail("INV-read", f.qualname + "|acc-written", "the accumulator is also modified at `%s`" % norm_stmt(m.ast), f.loc(m.ast))
            if d.var == Tv and m is not n:
                R.fail("INV-read", f.qualname + "|chunk-written", "the chunk is modified at `%s`" % norm_stmt(m.ast), f.loc(m.ast))
    # accumulator starts empty
    aouter = [d for d in df.reaching(head, acc) if d.node not in inside]
    empty_ok = bool(aouter) and all(d.kind == "assign" and _is_empty_bytes(unawait(d.value)) for d in aouter)
    R.check(empty_ok, "INV-read", f.qualname + "|acc-init", "accumulator starts empty", "the accumulator does not start empty", loc)
    # normal exits only when nothing remains
    rk = key(ast.Name(id=Rv, ctx=ast.Load()))
    zk = key(ast.Constant(value=0))
    for (m, d, l) in loop_exit_edges(g, head):
        have = set(df.facts(m)) | df.edge_facts(m, l)
        ok = any((fa[0] == ("lt", zk, rk) and fa[1] is False) or (fa[0] == ("eq",) + tuple(sorted([rk, zk])) and fa[1] is True)
                 or (fa[0] == ("truthy", rk) and fa[1] is False) for fa in have)
        R.check(ok, "INV-read", "%s|exit:%s" % (f.qualname, norm_stmt(m.ast) if m.ast is not None else m.kind),
                "loop exit only when no bytes remain", "the read loop can be left while bytes remain (exit at `%s` is not governed by `%s == 0`)" % (norm_stmt(m.ast) if m.ast is not None else m.kind, Rv), f.loc(m.ast))
    # returns: the accumulator, after the loop
    for rn in g.live_nodes():
        if rn.kind == "stmt" and isinstance(rn.ast, ast.Return):
            v = unawait(rn.ast.value) if rn.ast.value is not None else None
            if isinstance(v, ast.Call) and isinstance(v.func, ast.Name) and v.func.id in ("bytes", "bytearray") and len(v.args) == 1:
                v = v.args[0]
            ok = v is not None and varkey(v) == acc and rn not in inside
            R.check(ok, "INV-read", "%s|%s" % (f.qualname, norm_stmt(rn.ast)), "returns the accumulated bytes after the loop",
                    "returns `%s`, not the accumulated bytes of a completed loop" % norm_stmt(rn.ast), f.loc(rn.ast))


def _is_empty_bytes(e):
    if isinstance(e, ast.Constant) and e.value in (b"",):
        return True
    if isinstance(e, ast.Call) and isinstance(e.func, ast.Name) and e.func.id in ("bytearray", "bytes") and not e.args and not e.keywords:
        return True
    if isinstance(e, ast.Call) and isinstance(e.func, ast.Name) and e.func.id in ("bytearray", "bytes") and len(e.args) == 1 and isinstance(e.args[0], ast.Constant) and e.args[0].value in (b"", 0):
        return True
    return False


def _packet_reader(ctx, R, roles, T):
    f = roles.packet_reader
    g = ctx.cfg(f)
    df = ctx.df(f)
    cg = ctx.cg
    rex = roles.read_exact
    reads = [(n, c) for n in g.live_nodes() for c in node_calls(n) if cg.site(c) is not None and rex in cg.site(c).callees]
    R.count("PKT[%s]" % roles.tag, len(reads), 2)
    loc = f.loc()
    if len(reads) != 2:
        R.fail("PKT", f.qualname + "|reads", "packet reader must read a header and a payload (2 reads), found %d" % len(reads), loc)
        return
    lenparam = rex.call_params[0]
    sizes = []
    for n, c in reads:
        b = cg.site(c).bind(rex)
        sizes.append(T.term(f, n, b[lenparam]) if lenparam in b else ("opaque",))
    hdr = [i for i, s in enumerate(sizes) if s == ("c", 24)]
    R.check(len(hdr) == 1, "PKT", f.qualname + "|header-size", "header read requests 24 bytes", "no read requests exactly the 24-byte header (sizes: %s)" % ", ".join(show(s) for s in sizes), loc)
    if len(hdr) != 1:
        return
    hn, hc = reads[hdr[0]]
    pn, pc = reads[1 - hdr[0]]
    hterm = T.term(f, hn, hc)
    psize = sizes[1 - hdr[0]]

    def is_unpack_proj(t, i):
        return t[0] == "proj" and t[2] == i and t[1][0] == "call" and isinstance(t[1][1], str) and t[1][1].endswith("adb_message.unpack") and t[1][2] and t[1][2][0] == hterm

    R.check(is_unpack_proj(psize, 3), "PKT", f.qualname + "|payload-size", "payload read requests the header's data_length field",
            "payload read requests %s, not the data_length field of the header just read" % show(psize), f.loc(pn.ast))
    R.check(g.dominates([hn], pn), "PKT", f.qualname + "|order", "header is read before the payload", None, loc)
    pterm = T.term(f, pn, pc)
    # command lookup and rejection
    wti = ctx.fold.need("constants", "WIRE_TO_ID", "PKT")
    rets = [n for n in g.live_nodes() if n.kind == "stmt" and isinstance(n.ast, ast.Return)]
    R.check(bool(rets) and g.exit not in g.reach([g.entry], avoid=rets, exc=False, include_start=True), "PKT", f.qualname + "|returns", "every normal exit is an explicit return", None, loc)
    # checksum tests
    ok_edges = []   # (testnode, label) edges on which checksum(payload) == header checksum is known
    for tn in g.nodes:
        if tn.kind != "test":
            continue
        t = unawait(tn.ast.test)
        if isinstance(t, ast.Compare) and len(t.ops) == 1 and isinstance(t.ops[0], (ast.Eq, ast.NotEq)):
            a = T.term(f, tn, t.left)
            b = T.term(f, tn, t.comparators[0])
            for x, y in ((a, b), (b, a)):
                if _is_checksum_of(x, pterm) and is_unpack_proj(y, 4):
                    ok_edges.append((tn, "true" if isinstance(t.ops[0], ast.Eq) else "false"))
    for rn in rets:
        rt = T.term(f, rn, rn.ast.value)
        sub = "%s|%s" % (f.qualname, norm_stmt(rn.ast))
        if not (rt[0] == "tuple" and len(rt) == 5):
            R.fail("PKT", sub, "packet reader returns %s, not (command, arg0, arg1, payload)" % show(rt), f.loc(rn.ast))
            continue
        cmd, a0, a1, payload = rt[1:]
        cmd_ok = cmd[0] == "call" and cmd[1] == ".get" and (len(cmd[2]) == 2 or (len(cmd[2]) == 3 and cmd[2][2] == ("c", None))) and cmd[2][0] == ("c", wti) and is_unpack_proj(cmd[2][1], 0)
        if not cmd_ok and cmd[0] == "sub" and cmd[1] == ("c", wti) and is_unpack_proj(cmd[2], 0):
            cmd_ok = True          # WIRE_TO_ID[word]: an unknown word raises KeyError instead of being delivered (the membership guard is checked below)
        R.check(cmd_ok, "PKT", sub + "|cmd", "command = WIRE_TO_ID lookup of header field 0", "returned command is %s, not the table lookup of the header's command word" % show(cmd), f.loc(rn.ast))
        R.check(is_unpack_proj(a0, 1) and is_unpack_proj(a1, 2), "PKT", sub + "|args", "arg0/arg1 = header fields 1/2 in order",
                "returned (arg0, arg1) are (%s, %s), not header fields 1 and 2" % (show(a0), show(a1)), f.loc(rn.ast))
        # unknown command rejected before any return
        cmdvar = rn.ast.value.elts[0] if isinstance(rn.ast.value, ast.Tuple) else None
        facts = df.facts(rn)
        known = cmdvar is not None and any(fa[0] == ("truthy", key(cmdvar)) and fa[1] is True for fa in facts) or \
            (cmdvar is not None and any(fa[0] == ("is", ) + tuple(sorted([key(cmdvar), key(ast.Constant(value=None))])) and fa[1] is False for fa in facts))
        R.check(known, "PKT", sub + "|known-cmd", "an unknown command word cannot reach this return",
                "a packet with an unknown command word can be delivered (no dominating `if not command: raise`)", f.loc(rn.ast))
        if payload == pterm:
            # must be behind a checksum-ok edge
            blocked = set()
            reach = g.reach([g.entry], exc=True, include_start=True,
                            edge_filter=lambda s, d, l: not any(s is tn and l == lab for tn, lab in ok_edges))
            R.check(bool(ok_edges) and rn not in reach, "PKT", sub + "|checksum", "payload delivered only after checksum(payload) == header checksum",
                    "a payload can be delivered without its checksum having been compared with the header's data_check", f.loc(rn.ast))
        elif payload[0] == "c" and payload[1] in (b"", bytearray()):
            lk = None
            # governed by data_length == 0
            okz = False
            for fa in facts:
                if fa[1] is True and fa[0][0] == "eq" and key(ast.Constant(value=0)) in fa[0][1:]:
                    okz = True
                if fa[1] is False and fa[0][0] == "truthy":
                    okz = okz or True
            # verify the variable compared is the header's length field
            okz = okz and _zero_guard_is_length(ctx, T, f, rn, is_unpack_proj)
            R.check(okz, "PKT", sub + "|empty", "empty payload returned only when the header announces length 0",
                    "an empty payload is returned although the header may announce data", f.loc(rn.ast))
        else:
            R.fail("PKT", sub + "|payload", "returned payload %s is not the payload just read" % show(payload), f.loc(rn.ast))
    # the raises are the documented exceptions
    for tn in g.nodes:
        if tn.kind == "stmt" and isinstance(tn.ast, ast.Raise) and tn.ast.exc is not None:
            s = src(tn.ast.exc)
            facts = df.facts(tn)
    exc_names = [src(n.ast.exc) for n in g.live_nodes() if n.kind == "stmt" and isinstance(n.ast, ast.Raise) and n.ast.exc is not None]
    R.check(any("InvalidCommandError" in s for s in exc_names), "PKT", f.qualname + "|InvalidCommandError", "unknown command raises InvalidCommandError",
            "no `raise InvalidCommandError` in the packet reader", loc)
    R.check(any("InvalidChecksumError" in s for s in exc_names), "PKT", f.qualname + "|InvalidChecksumError", "checksum mismatch raises InvalidChecksumError",
            "no `raise InvalidChecksumError` in the packet reader", loc)
    # the failing edge of each checksum test leads to that raise only
    for tn, lab in ok_edges:
        other = "false" if lab == "true" else "true"
        tgt = g.reach_from_edge(tn, other, exc=False)
        R.check(g.exit not in tgt and not any(x.kind == "stmt" and isinstance(x.ast, ast.Return) for x in tgt), "PKT", f.qualname + "|mismatch-raises",
                "a checksum mismatch never returns", "after a checksum mismatch the reader can still return", f.loc(tn.ast))


def _is_checksum_of(t, payload):
    from ..terms import alts_of
    alts = alts_of(t)
    good = ("MOD32", ("BYTESUM", payload))
    legacy = ("MOD32", ("ORDSUM", payload))
    return good in alts and alts <= {good, legacy}


def _zero_guard_is_length(ctx, T, f, rn, is_unpack_proj):
    g = ctx.cfg(f)
    for tn in g.nodes:
        if tn.kind == "test" and g.dominates([tn], rn):
            t = unawait(tn.ast.test)
            cand = None
            if isinstance(t, ast.Compare) and len(t.ops) == 1 and isinstance(t.ops[0], ast.Eq):
                for x, y in ((t.left, t.comparators[0]), (t.comparators[0], t.left)):
                    if isinstance(y, ast.Constant) and y.value == 0:
                        cand = x
            elif isinstance(t, ast.UnaryOp) and isinstance(t.op, ast.Not):
                cand = t.operand
            if cand is not None and is_unpack_proj(T.term(f, tn, cand), 3):
                lab = [l for d, l in g.succ[tn] if l in ("true", "false") and (d is rn or rn in g.reach([d], exc=False))]
                if lab == ["true"]:
                    return True
    return False


def _wmc(ctx, R, roles):
    cg = ctx.cg
    rex, pr = roles.read_exact, roles.packet_reader
    # bulk_read only in read_exact (name-based, whole device module)
    for f in roles.mod.all_funcs:
        for c in own_calls(f):
            if call_attr(c) == "bulk_read" and f is not rex:
                R.fail("WMC-read", "%s|bulk_read" % f.qualname, "bulk_read is called outside the read-exactly primitive: bytes bypass reassembly/validation", f.loc(c))
    R.ok("WMC-read", rex.qualname + "|sole-reader", "the only bulk_read call site is the read-exactly primitive", rex.loc())
    callers = set(cs.func for cs in cg.callers_of(rex))
    R.check(callers <= {pr}, "WMC-read", rex.qualname + "|callers", "read-exactly primitive called only from the packet reader",
            "read-exactly primitive also called from %s (unvalidated bytes)" % ", ".join(sorted(c.qualname for c in callers - {pr})), rex.loc())
    callers = set(cs.func for cs in cg.callers_of(pr))
    want = {roles.pump, roles.connect_reader}
    R.check(callers <= want, "WMC-read", pr.qualname + "|callers", "packet reader called only from the pump and the connect-time reader",
            "packet reader also called from %s" % ", ".join(sorted(c.qualname for c in callers - want)), pr.loc())


def _only_deadline_raises(ctx, R, roles, T):
    """Inside the read-exactly loop the only way to give up is the read deadline: any other raise makes the result depend on how the
    transport happened to fragment the stream (number of reads, empty reads, sizes)."""
    from .c11 import deadline_tests
    f = roles.read_exact
    g = ctx.cfg(f)
    heads = [n for n in g.live_nodes() if n.kind == "test" and isinstance(n.ast, ast.While)]
    for head in heads:
        inside = set(loop_body_nodes(g, head))
        dl = deadline_tests(ctx, f, head)
        allowed = set()
        for (tn, bound, start, guarded) in dl:
            allowed |= set(x for x in g.reach_from_edge(tn, "true", exc=False) if x.kind == "stmt" and isinstance(x.ast, ast.Raise))
        for n in inside:
            if n.kind == "stmt" and isinstance(n.ast, ast.Raise):
                R.check(n in allowed, "INV-read", "%s|raise|%s" % (f.qualname, norm_stmt(n.ast)[:50]), "the read loop gives up only on its deadline",
                        "the read loop can raise `%s` for a reason other than the read deadline: the outcome depends on how the byte stream is fragmented" % norm_stmt(n.ast)[:70], f.loc(n.ast))
            if n.kind == "test" and n is not head:
                # a test that mentions a counter of iterations/empty reads and leads to an exit
                pass
