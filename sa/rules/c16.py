"""C16 - the async API is behaviourally identical to the sync API.

Translation validation: every function of adb_device_async.py is normalised (async/await erased, class names
mapped, executor/aiofiles/asynccontextmanager idioms mapped to their synchronous equivalents) and its AST is
compared with the synchronous function of the same name.  TCP transports are not textual twins and are compared
through a contract table.
"""
import ast
import copy

from ..loader import AnalysisError, walk_own
from ..util import src

LEVEL = "translation_validation"

CLASS_MAP = {
    "_AdbIOManagerAsync": "_AdbIOManager",
    "AdbDeviceAsync": "AdbDevice",
    "AdbDeviceTcpAsync": "AdbDeviceTcp",
    "TcpTransportAsync": "TcpTransport",
    "BaseTransportAsync": "BaseTransport",
    "_AsyncBytesIO": "BytesIO",
}
# definitions that legitimately exist on one side only (frozen, confirmed by reading)
ASYNC_ONLY_CLASSES = {"_AsyncBytesIO"}
SYNC_ONLY = {"AdbDeviceUsb.__init__"}


class _Norm(ast.NodeTransformer):
    def __init__(self, folded_names, transparent_wrappers=()):
        self.folded = folded_names            # name -> constant value (e.g. _DECODE_ERRORS)
        self.transparent = set(transparent_wrappers)

    # -- async erasure -----------------------------------------------------
    def visit_AsyncFunctionDef(self, node):
        new = ast.FunctionDef(name=node.name, args=node.args, body=node.body, decorator_list=node.decorator_list,
                              returns=node.returns, type_comment=None)
        if hasattr(node, "type_params"):
            new.type_params = node.type_params
        return self.visit_FunctionDef(new)

    def visit_FunctionDef(self, node):
        self.generic_visit(node)
        body = node.body
        if body and isinstance(body[0], ast.Expr) and isinstance(body[0].value, ast.Constant) and isinstance(body[0].value.value, str):
            body = body[1:] or [ast.Pass()]
        node.body = self._fix_body(body)
        node.type_comment = None
        return node

    def visit_AsyncFor(self, node):
        return self.visit_For(ast.For(target=node.target, iter=node.iter, body=node.body, orelse=node.orelse, type_comment=None))

    def visit_For(self, node):
        self.generic_visit(node)
        node.type_comment = None
        node.body = self._fix_body(node.body)
        node.orelse = self._fix_body(node.orelse)
        # for x in G: yield x   ==>   yield from G
        if (not node.orelse and len(node.body) == 1 and isinstance(node.body[0], ast.Expr)
                and isinstance(node.body[0].value, ast.Yield) and isinstance(node.target, ast.Name)
                and isinstance(node.body[0].value.value, ast.Name) and node.body[0].value.value.id == node.target.id):
            return ast.Expr(value=ast.YieldFrom(value=node.iter))
        return node

    def visit_AsyncWith(self, node):
        return self.visit_With(ast.With(items=node.items, body=node.body, type_comment=None))

    def visit_With(self, node):
        self.generic_visit(node)
        node.type_comment = None
        node.body = self._fix_body(node.body)
        return node

    def visit_If(self, node):
        self.generic_visit(node)
        node.body = self._fix_body(node.body)
        node.orelse = self._fix_body(node.orelse)
        return node

    def visit_While(self, node):
        self.generic_visit(node)
        node.body = self._fix_body(node.body)
        node.orelse = self._fix_body(node.orelse)
        return node

    def visit_Try(self, node):
        self.generic_visit(node)
        node.body = self._fix_body(node.body)
        node.orelse = self._fix_body(node.orelse)
        node.finalbody = self._fix_body(node.finalbody)
        for h in node.handlers:
            h.body = self._fix_body(h.body)
        return node

    def _fix_body(self, body):
        return list(body)

    def visit_Await(self, node):
        return self.visit(node.value)

    def visit_comprehension(self, node):
        self.generic_visit(node)
        node.is_async = 0
        return node

    def visit_ListComp(self, node):
        self.generic_visit(node)
        # [x for x in G]  ==>  G     (identity comprehension; only used to drain an async generator)
        if (len(node.generators) == 1 and not node.generators[0].ifs and isinstance(node.elt, ast.Name)
                and isinstance(node.generators[0].target, ast.Name) and node.elt.id == node.generators[0].target.id):
            return node.generators[0].iter
        return node

    # -- names ----------------------------------------------------------------
    def visit_Name(self, node):
        if node.id in self.folded and isinstance(node.ctx, ast.Load):
            return ast.Constant(value=self.folded[node.id])
        if node.id in CLASS_MAP:
            return ast.Name(id=CLASS_MAP[node.id], ctx=node.ctx)
        if node.id == "asynccontextmanager":
            return ast.Name(id="contextmanager", ctx=node.ctx)
        return node

    def visit_Attribute(self, node):
        self.generic_visit(node)
        # aiofiles.open -> open
        if node.attr == "open" and isinstance(node.value, ast.Name) and node.value.id == "aiofiles":
            return ast.Name(id="open", ctx=node.ctx)
        return node

    def visit_Call(self, node):
        self.generic_visit(node)
        f = node.func
        # get_running_loop().run_in_executor(None, fn, *args) -> fn(*args)
        if (isinstance(f, ast.Attribute) and f.attr == "run_in_executor" and isinstance(f.value, ast.Call)
                and isinstance(f.value.func, (ast.Name, ast.Attribute))
                and (f.value.func.id if isinstance(f.value.func, ast.Name) else f.value.func.attr) in ("get_running_loop", "get_event_loop")
                and len(node.args) >= 2 and isinstance(node.args[0], ast.Constant) and node.args[0].value is None and not node.keywords):
            return ast.Call(func=node.args[1], args=node.args[2:], keywords=[])
        # transparent wrapper (after class mapping _AsyncBytesIO -> BytesIO): BytesIO(stream) -> stream, only where enabled
        if (isinstance(f, ast.Name) and f.id in self.transparent and len(node.args) == 1 and not node.keywords):
            return node.args[0]
        return node

    def visit_Constant(self, node):
        if isinstance(node.value, str) and "Async" in node.value:
            return ast.Constant(value=node.value.replace("Async", ""))
        return node


def normalise(fnode, folded, transparent=()):
    n = _Norm(folded, transparent).visit(copy.deepcopy(fnode))
    ast.fix_missing_locations(n)
    return n


def alpha(fnode):
    """The function with its local variables (names it binds itself, parameters excluded; nested definitions left alone) renamed to v0, v1, ..
    in order of first appearance: two bodies that differ by a one-to-one renaming of locals become equal."""
    n = copy.deepcopy(fnode)
    a = n.args
    params = set(x.arg for x in a.posonlyargs + a.args + a.kwonlyargs) | set(x.arg for x in (a.vararg, a.kwarg) if x is not None)
    if any(isinstance(x, (ast.FunctionDef, ast.AsyncFunctionDef, ast.Lambda, ast.ClassDef, ast.Global, ast.Nonlocal)) for st in n.body for x in ast.walk(st)):
        return n
    bound = set()
    for st in n.body:
        for x in ast.walk(st):
            if isinstance(x, ast.Name) and isinstance(x.ctx, (ast.Store, ast.Del)) and x.id not in params:
                bound.add(x.id)
            elif isinstance(x, ast.ExceptHandler) and x.name and x.name not in params:
                bound.add(x.name)
    ren = {}
    for st in n.body:
        for x in ast.walk(st):
            if isinstance(x, ast.Name) and x.id in bound and x.id not in ren:
                ren[x.id] = "v%d" % len(ren)
            elif isinstance(x, ast.ExceptHandler) and x.name in bound and x.name not in ren:
                ren[x.name] = "v%d" % len(ren)
    for st in n.body:
        for x in ast.walk(st):
            if isinstance(x, ast.Name) and x.id in ren:
                x.id = ren[x.id]
            elif isinstance(x, ast.ExceptHandler) and x.name in ren:
                x.name = ren[x.name]
    return n


def first_diff(a, b, path="body"):
    """Human-readable location of the first structural difference between two AST nodes."""
    if type(a) is not type(b):
        return "%s: %s vs %s" % (path, _short(a), _short(b))
    if isinstance(a, ast.AST):
        for name in a._fields:
            x, y = getattr(a, name, None), getattr(b, name, None)
            d = first_diff(x, y, path + "." + name)
            if d:
                return d
        return None
    if isinstance(a, list):
        for i, (x, y) in enumerate(zip(a, b)):
            d = first_diff(x, y, "%s[%d]" % (path, i))
            if d:
                return d
        if len(a) != len(b):
            extra = (a[len(b):] or b[len(a):])[0]
            return "%s: %d vs %d elements (first extra: %s)" % (path, len(a), len(b), _short(extra))
        return None
    if a != b:
        return "%s: %r vs %r" % (path, a, b)
    return None


def _short(x):
    if isinstance(x, ast.AST):
        try:
            return "`%s`" % " ".join(ast.unparse(x).split())[:80]
        except Exception:   # noqa
            return type(x).__name__
    return repr(x)[:80]


def _passthrough_wrapper(ctx, R, cls):
    """_AsyncBytesIO must forward each method to the wrapped object unchanged for the wrapper to be transparent."""
    ok_all = True
    attr = None
    init = cls.methods.get("__init__")
    if init is None or len(init.params) != 2:
        R.fail("TWIN-wrapper", cls.qualname + ".__init__", "wrapper constructor must take exactly the wrapped object", cls.mod.relpath)
        return False
    for st in init.node.body:
        if isinstance(st, ast.Assign) and isinstance(st.value, ast.Name) and st.value.id == init.params[1] \
                and isinstance(st.targets[0], ast.Attribute):
            attr = st.targets[0].attr
    if attr is None:
        R.fail("TWIN-wrapper", cls.qualname + ".__init__", "wrapper does not store the wrapped object", init.loc())
        return False
    for name, m in sorted(cls.methods.items()):
        if name == "__init__":
            continue
        body = [s for s in m.node.body if not (isinstance(s, ast.Expr) and isinstance(s.value, ast.Constant))]
        good = False
        if len(body) == 1 and isinstance(body[0], (ast.Return, ast.Expr)) and isinstance(getattr(body[0], "value", None), ast.Call):
            c = body[0].value
            want_args = m.params[1:]
            if (isinstance(c.func, ast.Attribute) and c.func.attr == name and isinstance(c.func.value, ast.Attribute)
                    and c.func.value.attr == attr and isinstance(c.func.value.value, ast.Name) and c.func.value.value.id == m.params[0]
                    and [a.id if isinstance(a, ast.Name) else None for a in c.args] == want_args and not c.keywords):
                good = True
        R.check(good, "TWIN-wrapper", "%s.%s" % (cls.qualname, name),
                "%s forwards to the wrapped BytesIO.%s with the same arguments" % (name, name),
                "%s.%s is not a pure pass-through to the wrapped object: the async in-memory stream is no longer equivalent to BytesIO" % (cls.name, name),
                m.loc())
        ok_all = ok_all and good
    return ok_all


def check(ctx, R):
    pkg = ctx.pkg
    (_, smod), (_, amod) = pkg.device_files()
    folded = {}
    for mod in (smod, amod):
        if "_DECODE_ERRORS" in mod.assigns:
            folded["_DECODE_ERRORS"] = ctx.fold.need(mod.name, "_DECODE_ERRORS", "TWIN")
    wrapper = amod.classes.get("_AsyncBytesIO")
    wrapper_ok = False
    if wrapper is not None:
        wrapper_ok = _passthrough_wrapper(ctx, R, wrapper)

    # pair up definitions
    def table(mod, cmap):
        out = {}
        for f in mod.all_funcs:
            if f.parent is not None:
                continue
            cname = f.cls.name if f.cls else None
            mapped = cmap.get(cname, cname) if cname else None
            k = (mapped + "." if mapped else "") + f.name
            out[k] = f
        return out

    st = table(smod, {})
    at = {}
    for f in amod.all_funcs:
        if f.parent is not None:
            continue
        cname = f.cls.name if f.cls else None
        if cname in ASYNC_ONLY_CLASSES:
            continue
        mapped = CLASS_MAP.get(cname, cname) if cname else None
        at[(mapped + "." if mapped else "") + f.name] = f

    pairs = 0
    equal = 0
    summary_equal = 0
    for k in sorted(set(st) | set(at)):
        sf, af = st.get(k), at.get(k)
        if sf is None:
            R.fail("TWIN-unpaired", "async:" + k, "function %s exists only in the async implementation" % k, af.loc())
            continue
        if af is None:
            if k in SYNC_ONLY:
                R.ok("TWIN-unpaired", "sync:" + k, "sync-only definition (USB has no async transport), listed", sf.loc(), trivial=True)
            else:
                R.fail("TWIN-unpaired", "sync:" + k, "function %s exists only in the sync implementation" % k, sf.loc())
            continue
        pairs += 1
        transparent = ("BytesIO",) if (k == "_open_bytesio" and wrapper_ok) else ()
        ns = normalise(sf.node, folded)
        na = normalise(af.node, folded, transparent)
        ds, da = ast.dump(ns), ast.dump(na)
        if ds != da:
            ds2, da2 = ast.dump(alpha(ns)), ast.dump(alpha(na))
            if ds2 == da2:
                ds, da = ds2, da2          # equal up to a one-to-one renaming of local variables
        if ds == da:
            equal += 1
            R.ok("TWIN-equal", k, "normalised ASTs equal (%d nodes)" % sum(1 for _ in ast.walk(ns)), sf.loc())
        else:
            # fallback: effect summaries (robust against one-sided renames, temporaries, logging, statement layout)
            from ..summary import summary, diff_summaries
            defaults_equal = ast.dump(ns.args) == ast.dump(na.args)
            try:
                sd = diff_summaries(summary(ctx, sf), summary(ctx, af)) if defaults_equal else "signatures/defaults differ"
            except RecursionError:
                sd = "summary not computable"
            if sd is None:
                summary_equal += 1
                R.ok("TWIN-summary", k, "bodies differ textually (%s) but their effect summaries agree: same calls with the same argument terms, stores, returns, yields and raises under the same conditions and in the same dominance order" % first_diff(ns, na), sf.loc())
            else:
                d = first_diff(ns, na)
                R.fail("TWIN-equal", k, "sync and async bodies differ after normalisation at %s; effect summaries differ too: %s" % (d, sd), "%s / %s" % (sf.loc(), af.loc()))
    # class-level: same methods per class pair handled above; class bases / module constants
    for aname, sname in CLASS_MAP.items():
        ac, sc = amod.classes.get(aname), smod.classes.get(sname)
        if ac is not None and sc is not None:
            ab = [CLASS_MAP.get(b, b) for b in ac.bases]
            R.check(ab == sc.bases, "TWIN-class", sname, "class bases agree (%s)" % ",".join(sc.bases),
                    "class bases differ: %s vs %s" % (sc.bases, ab), sc.mod.relpath)
    R.count("TWIN-equal", pairs, 38)
    R.extra["programs"] = pairs
    R.extra["disagreements_checked"] = pairs
    R.extra["pairs_equal"] = equal
    R.extra["pairs_summary_equal"] = summary_equal

    # -- TCP transports: contract table ----------------------------------------------------
    _tcp_contract(ctx, R)
    R.assume("await/async erasure preserves behaviour: the event loop only interleaves at await points that correspond 1:1 to blocking calls")
    R.assume("aiofiles.open / run_in_executor / asynccontextmanager behave as their synchronous counterparts")
    R.undecided("behaviour inside asyncio / socket libraries (TCP twins are compared by interface and contract, not by text)")


def _tcp_contract(ctx, R):
    pkg = ctx.pkg
    s = pkg.cls("transport.tcp_transport.TcpTransport")
    a = pkg.cls("transport.tcp_transport_async.TcpTransportAsync")
    for m in ("close", "connect", "bulk_read", "bulk_write", "__init__"):
        sm, am = s.methods.get(m), a.methods.get(m)
        if sm is None or am is None:
            R.fail("TWIN-tcp-iface", m, "method %s missing on one TCP transport" % m, s.mod.relpath)
            continue
        same = sm.params == am.params and [src(sm.defaults[k]) for k in sorted(sm.defaults)] == [src(am.defaults[k]) for k in sorted(am.defaults)]
        R.check(same, "TWIN-tcp-iface", m, "same parameters and defaults %s" % sm.params[1:],
                "parameter lists differ: %s vs %s" % (sm.params, am.params), sm.loc())
        if m != "__init__":
            R.check(am.is_async and not sm.is_async, "TWIN-tcp-iface", m + ":kind", "sync method vs coroutine", None, am.loc())
    # both bulk_write return a count
    from .c15 import transport_write_returns_count
    for cls in (s, a):
        transport_write_returns_count(ctx, R, cls, rule="TWIN-tcp-count")
