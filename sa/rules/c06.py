"""C06 - concurrent streams are isolated: no cross-talk, loss, duplication or deadlock.

Decided (necessary conditions that hold for every schedule): lock discipline on the I/O manager (guarded-by,
with-only, acquisition order / no re-acquisition, nothing blocking under a lock); inside the pump's transport-lock
critical section a store look-up for the caller's stream dominates the wire read (no lost wake-up); a packet that is
not the caller's is parked under its own (arg0, arg1) (KIND + ARG), and every path through the store's put()
enqueues it (no-drop); matched packets are returned as read.  Not decided: enumeration of schedules, "same result
as alone".
Also: the deadline rules of C11 for the pump and the read loops ("every operation completes" while other streams keep the wire busy).
"""
import ast

from ..argrule import arg_rule
from ..loader import AnalysisError
from ..dataflow import key, varkey, unawait
from ..engine import terms
from ..kinds import expr_kind, kind, kind_env, L, Rk, ANY, MIXED, UNK
from ..locks import LockInfo, rule_with_only, rule_guarded_by, rule_order, rule_deny, GUARDED_BY_IO, GUARDED_BY_DEV
from ..roles import all_roles
from ..terms import show
from ..util import src, node_calls, call_attr, norm_stmt, own_calls

LEVEL = "other"


def check(ctx, R):
    T = terms(ctx)
    for roles in all_roles(ctx):
        li = LockInfo(ctx, roles)
        rule_guarded_by(ctx, R, roles, li, GUARDED_BY_IO, roles.io_cls)
        rule_guarded_by(ctx, R, roles, li, GUARDED_BY_DEV, roles.dev_cls)     # two streams with one local id would receive each other's packets
        rule_with_only(ctx, R, roles, li)
        from ..locks import rule_lock_objects
        rule_lock_objects(ctx, R, roles, li)
        rule_order(ctx, R, roles, li)
        rule_deny(ctx, R, roles, li)
        _pump(ctx, R, roles, li, T)
        # "every operation completes": an operation waiting on a silent stream while other streams keep the wire busy still meets its deadline
        from .c11 import loop_rules
        loop_rules(ctx, R, roles, T)
    _args_match(ctx, R, T)
    _nd_park(ctx, R)
    from .c19 import store_lifetime_rules
    store_lifetime_rules(ctx, R)       # a parked packet must stay retrievable until its stream is closed
    arg_rule(ctx, R, "ids", "ARG-ids", min_count=4)
    R.assume("threading.Lock / asyncio.Lock are non-reentrant mutual-exclusion locks; `with` releases on every exit")
    R.undecided("'for all interleavings ... same result as alone, no deadlock in any schedule': schedules are a run-time quantity; only lock-order / guarded-by / re-check / no-drop necessary conditions are static")


def _store_calls(ctx, f, n, names):
    out = []
    for c in node_calls(n):
        if isinstance(c.func, ast.Attribute) and c.func.attr in names and varkey(unawait(c.func.value)) == f.params[0] + "._packet_store":
            out.append(c)
    return out


def _match_keys(f, g, df, T, wterm):
    """Keys of the expressions whose truth means "the packet just read belongs to the caller's stream": the call
    `adb_info.args_match(<field 1>, <field 2>, ..)` itself, and a local flag bound (only) to such a call."""
    out = set()

    def good(c2, at):
        return isinstance(c2, ast.Call) and call_attr(c2) == "args_match" and len(c2.args) >= 2 \
            and T.term(f, at, c2.args[0]) == ("proj", wterm, 1) and T.term(f, at, c2.args[1]) == ("proj", wterm, 2)
    for tn in g.live_nodes():
        if tn.kind == "test":
            for sub in ast.walk(tn.ast.test):
                if isinstance(sub, ast.Call) and good(sub, tn):
                    out.add(key(sub))
                if isinstance(sub, ast.Name) and isinstance(sub.ctx, ast.Load):
                    d = df.unique_def(tn, sub.id)
                    if d is not None and d.kind == "assign" and not d.path and d.value is not None and good(unawait(d.value), d.node):
                        out.add(key(sub))
    return out


def _pump(ctx, R, roles, li, T):
    f = roles.pump
    g = ctx.cfg(f)
    df = ctx.df(f)
    cg = ctx.cg
    io = roles.io_cls.qualname
    tl, sl = (io, "_transport_lock"), (io, "_store_lock")
    wire = [(n, c) for n in g.live_nodes() for c in node_calls(n) if cg.site(c) is not None and roles.packet_reader in cg.site(c).callees]
    R.count("PUMP[%s]" % roles.tag, len(wire), 1)
    if len(wire) != 1:
        R.fail("PUMP", f.qualname + "|wire-reads", "the pump must read the wire at exactly one site, found %d" % len(wire), f.loc())
        return
    wn, wc = wire[0]
    loc = f.loc(wn.ast)
    # -- re-check rule ----------------------------------------------------------------------------------
    tw = [w for w in wn.withs if li.lock_of_with(f, w) == tl]
    if not tw:
        R.fail("RECHECK", f.qualname + "|wire-under-lock", "the wire read is not inside the transport-lock critical section", loc)
        return
    W = tw[-1]
    finds = [n for n in g.live_nodes() if W in n.withs and _store_calls(ctx, f, n, ("find", "find_allow_zeros"))]
    r = g.reach([W], avoid=finds, exc=False)
    R.check(bool(finds) and wn not in r, "RECHECK", f.qualname + "|store-lookup-dominates-wire-read",
            "inside `with transport_lock` the store is consulted for the caller's stream before the wire is read",
            "inside the transport-lock critical section the wire can be read without first re-checking the packet store: a packet parked by another thread "
            "between the lock-free look-up and the lock acquisition is never seen (lost wake-up, the caller waits for a packet that already arrived)", loc)
    # the wire read is reached only when the look-up found nothing
    lookup_vars = set()
    for n in finds:
        if n.kind == "stmt" and isinstance(n.ast, ast.Assign) and len(n.ast.targets) == 1 and isinstance(n.ast.targets[0], ast.Name):
            lookup_vars.add(n.ast.targets[0].id)
    facts = df.facts(wn)
    none_k = key(ast.Constant(value=None))
    empty = any((fa[0] == ("truthy", key(ast.Name(id=v, ctx=ast.Load()))) and fa[1] is False) or
                (fa[0] == ("is",) + tuple(sorted([key(ast.Name(id=v, ctx=ast.Load())), none_k])) and fa[1] is True) for v in lookup_vars for fa in facts)
    R.check(empty, "RECHECK", f.qualname + "|wire-read-only-when-store-empty",
            "the wire is read only when the look-up for this stream came back empty",
            "the wire can be read although the store still holds a packet for this stream (order of delivery within the stream is lost)", loc)
    # look-ups are for the caller's ids in (remote, local) order and happen under the store lock
    nfind = 0
    for n in g.live_nodes():
        for c in _store_calls(ctx, f, n, ("find", "find_allow_zeros")):
            nfind += 1
            sub = "%s|%s" % (f.qualname, norm_stmt(c))
            if len(c.args) == 2:
                k0, t0 = expr_kind(ctx, f, n, c.args[0])
                k1, t1 = expr_kind(ctx, f, n, c.args[1])
                R.check(k0 in (Rk,) and k1 in (L,), "KIND-find", sub, "store look-up keyed (remote id, local id) of the caller",
                        "store look-up passes (%s: %s, %s: %s); it must be (remote id, local id) of the caller's stream" % (show(t0), k0, show(t1), k1), f.loc(n.ast))
            R.check(sl in li.held(f, n), "LOCK-guard", sub + "|held", "look-up under the store lock", "store look-up without the store lock", f.loc(n.ast))
    R.count("KIND-find[%s]" % roles.tag, nfind, 2)
    # the look-up matches the wire rule: plain find() for exact matching, find_allow_zeros() when zero ids are accepted - at EVERY look-up the
    # choice is decided by `allow_zeros` (an arm of a conditional expression on it, or a branch taken on it)
    azk = key(ast.Name(id="allow_zeros", ctx=ast.Load()))
    if "allow_zeros" in f.params:
        df_ = ctx.df(f)
        for n in g.live_nodes():
            for e in n.exprs():
                arms = {}      # id(call) -> True when it sits in the arm taken for allow_zeros, False for the other arm
                for x in ast.walk(e):
                    if isinstance(x, ast.IfExp):
                        t = unawait(x.test)
                        neg = isinstance(t, ast.UnaryOp) and isinstance(t.op, ast.Not)
                        if varkey(unawait(t.operand if neg else t)) == "allow_zeros":
                            for arm, pol in ((x.body, not neg), (x.orelse, neg)):
                                for c in ast.walk(arm):
                                    if isinstance(c, ast.Call) and id(c) not in arms:
                                        arms[id(c)] = pol
                for c in ast.walk(e):
                    if isinstance(c, ast.Call) and call_attr(c) in ("find", "find_allow_zeros") and _store_calls(ctx, f, n, (call_attr(c),)):
                        mode = arms.get(id(c))
                        if mode is None:
                            for fa in df_.facts(n):
                                if fa[0] == ("truthy", azk):
                                    mode = fa[1]
                        want = call_attr(c) == "find_allow_zeros"
                        R.check(mode is want, "KIND-find", "%s|mode|%s" % (f.qualname, norm_stmt(c)[:60]),
                                "exact look-up unless allow_zeros, zero fall-backs only with allow_zeros (same rule as for packets read off the wire)",
                                "the store look-up `%s` is %s: it must use the zero fall-backs exactly when the wire match does (allow_zeros), or a stream is handed a parked packet the wire rule would have refused / never finds one it would have accepted"
                                % (norm_stmt(c)[:50], "not decided by allow_zeros" if mode is None else "made on the wrong side of the allow_zeros test"), f.loc(n.ast))
    # after a packet was taken out of the store the look-up is refreshed before the next get (the pair may be exhausted or gone)
    get_nodes = [n for n in g.live_nodes() if _store_calls(ctx, f, n, ("get",))]
    find_nodes = [n for n in g.live_nodes() if _store_calls(ctx, f, n, ("find", "find_allow_zeros"))]
    for gn_ in get_nodes:
        r = g.reach([gn_], avoid=find_nodes, exc=False)
        R.check(not any(x in r for x in get_nodes), "RECHECK", "%s|refresh|%s" % (f.qualname, norm_stmt(gn_.ast)[:50]), "the look-up is repeated after every packet taken from the store",
                "after taking a packet from the store the pump can take another one without looking the pair up again (stale key: an exhausted queue raises, a forgotten pair is a KeyError)", f.loc(gn_.ast))
    # get(): keyed by the pair the look-up returned
    for n in g.live_nodes():
        for c in _store_calls(ctx, f, n, ("get",)):
            sub = "%s|%s" % (f.qualname, norm_stmt(c))
            ok = len(c.args) == 2
            if ok:
                k0, t0 = expr_kind(ctx, f, n, c.args[0])
                k1, t1 = expr_kind(ctx, f, n, c.args[1])
                ok = k0 == Rk and k1 == L
            elif len(c.args) == 1 and isinstance(c.args[0], ast.Starred):
                ok = True
                k0 = k1 = "*"
            R.check(ok, "KIND-get", sub, "store get() keyed by the pair the look-up returned, in (remote, local) order",
                    "store get() is not keyed by the (remote, local) pair returned by the look-up", f.loc(n.ast))
    # clear(): keyed (remote id, local id) like every other store call - the tests use equal ids and cannot tell the two orders apart
    for n in g.live_nodes():
        for c in _store_calls(ctx, f, n, ("clear",)):
            sub = "%s|%s" % (f.qualname, norm_stmt(c))
            byname = {k.arg: k.value for k in c.keywords if k.arg}
            a0 = c.args[0] if len(c.args) >= 1 else byname.get("arg0")
            a1 = c.args[1] if len(c.args) >= 2 else byname.get("arg1")
            ok = a0 is not None and a1 is not None and not any(isinstance(a, ast.Starred) for a in c.args)
            if ok:
                k0, _t0 = expr_kind(ctx, f, n, a0)
                k1, _t1 = expr_kind(ctx, f, n, a1)
                ok = k0 == Rk and k1 == L
            R.check(ok, "KIND-clear", sub, "store clear() keyed (remote id, local id)",
                    "store clear() is not keyed (remote id, local id): with unequal ids it forgets ANOTHER stream's entry (the one whose ids mirror this stream's) and leaves its own", f.loc(n.ast))
    # -- routing of the packet just read ---------------------------------------------------------------------
    wterm = T.term(f, wn, wc)
    puts = [(n, c) for n in g.live_nodes() for c in _store_calls(ctx, f, n, ("put",))]
    R.check(len(puts) == 1, "ROUTE", f.qualname + "|put-sites", "one park site", "expected one `put` site in the pump, found %d" % len(puts), loc)
    store = ctx.pkg.cls("hidden_helpers._AdbPacketStore")
    putm = store.methods.get("put")
    am_nodes = [n for n in g.nodes if n.kind == "test" and any(call_attr(c) == "args_match" for c in node_calls(n))]
    for n, c in puts:
        cs = cg.site(c)
        b = cs.bind(putm) if putm is not None else {}
        want = {"cmd": 0, "arg0": 1, "arg1": 2, "data": 3}
        for p, i in sorted(want.items()):
            t = T.term(f, n, b[p]) if p in b else ("missing",)
            R.check(t == ("proj", wterm, i), "ROUTE", "%s|put|%s" % (f.qualname, p),
                    "parked `%s` is field %d of the packet just read" % (p, i),
                    "a foreign packet is parked with %s = %s instead of field %d of the packet just read (it lands under the wrong stream / with the wrong content)" % (p, show(t), i), f.loc(n.ast))
        R.check(sl in li.held(f, n) and tl in li.held(f, n), "ROUTE", f.qualname + "|put|locks", "parking happens under transport and store lock", None, f.loc(n.ast))
        # governed by NOT args_match(arg0, arg1, ...) of that packet
        ok = False
        # tests on the call itself, or on a local flag whose only definition reaching the test is `flag = ...args_match(..)`
        cands = []
        for tn in am_nodes:
            for c2 in node_calls(tn):
                if call_attr(c2) == "args_match" and len(c2.args) >= 2:
                    tt = unawait(tn.ast.test)
                    inner = tt.operand if isinstance(tt, ast.UnaryOp) and isinstance(tt.op, ast.Not) else tt
                    if unawait(inner) is c2:
                        cands.append((tn, isinstance(tt, ast.UnaryOp), c2, tn))
        for tn in g.live_nodes():
            if tn.kind != "test":
                continue
            tt = unawait(tn.ast.test)
            neg = isinstance(tt, ast.UnaryOp) and isinstance(tt.op, ast.Not)
            nm = tt.operand if neg else tt
            if isinstance(nm, ast.Name):
                d = df.unique_def(tn, nm.id)
                if d is not None and d.kind == "assign" and not d.path and d.value is not None:
                    c2 = unawait(d.value)
                    if isinstance(c2, ast.Call) and call_attr(c2) == "args_match" and len(c2.args) >= 2:
                        cands.append((tn, neg, c2, d.node))
        for tn, pol_true, c2, at in cands:
            a0 = T.term(f, at, c2.args[0])
            a1 = T.term(f, at, c2.args[1])
            if a0 == ("proj", wterm, 1) and a1 == ("proj", wterm, 2):
                lab = "true" if pol_true else "false"
                if n in g.reach_from_edge(tn, lab, avoid=[tn], exc=False) and n not in g.reach_from_edge(tn, "false" if lab == "true" else "true", avoid=[tn], exc=False):
                    ok = True
        mk = _match_keys(f, g, df, T, wterm)
        if not ok and any(fa[0][0] == "truthy" and fa[0][1] in mk and fa[1] is False for fa in df.facts(n)):
            ok = True
        R.check(ok, "ROUTE", f.qualname + "|put|foreign-only", "only packets that do not match the caller's (remote, local) ids are parked",
                "parking is not governed by `not args_match(arg0, arg1, ...)` on the packet just read", f.loc(n.ast))
    # every foreign packet is parked: on the not-match branch the put post-dominates
    for tn in am_nodes:
        pol_true = isinstance(unawait(tn.ast.test), ast.UnaryOp)
        lab = "true" if pol_true else "false"
        starts = [d for d, l in g.succ[tn] if l == lab]
        pn = [n for n, _c in puts]
        r = g.reach(starts, avoid=pn + [tn], exc=False, include_start=True)
        leaves = [x for x in r if x.kind == "withexit" and x.ast is W.ast] + ([g.exit] if g.exit in r else [])
        R.check(not leaves and bool(pn), "ROUTE", f.qualname + "|foreign-always-parked", "every packet for another stream is parked before the lock is released",
                "a packet that belongs to another stream can be dropped without being parked", f.loc(tn.ast))
    # -- returns: the packet as read / as stored ---------------------------------------------------------------
    nret = 0
    for rn in g.live_nodes():
        if rn.kind == "stmt" and isinstance(rn.ast, ast.Return):
            nret += 1
            rt = T.term(f, rn, rn.ast.value)
            sub = "%s|%s@%s" % (f.qualname, norm_stmt(rn.ast), "wire" if wn in [x for x in g.nodes if g.dominates([x], rn)] and g.dominates([wn], rn) else "store")
            ok = rt[0] == "tuple" and len(rt) == 5
            srcs = set()
            if ok:
                for i in range(4):
                    el = rt[1 + i]
                    if el[0] == "proj" and el[2] == i:
                        srcs.add(el[1])
                    else:
                        ok = False
            ok = ok and len(srcs) == 1
            if ok:
                s = next(iter(srcs))
                ok = s == wterm or (s[0] == "call" and s[1].endswith("_AdbPacketStore.get"))
            R.check(ok, "PUMP-ret", sub, "returns (cmd, arg0, arg1, data) of one and the same packet",
                    "the pump returns %s: fields of different packets or reordered fields" % show(rt), f.loc(rn.ast))
            # expected-command guard
            facts = df.facts(rn)
            in_exp = any(fa[0][0] == "in" and fa[1] is True and fa[0][2] == key(ast.Name(id=f.params[1], ctx=ast.Load())) for fa in facts)
            R.check(in_exp, "PUMP-ret", sub + "|expected", "returned only when the command is one the caller expects",
                    "the pump can return a packet whose command the caller did not ask for", f.loc(rn.ast))
            if g.dominates([wn], rn):
                # wire packet: must be a match for the caller's ids
                okm = False
                for tn in am_nodes:
                    pol_true = isinstance(unawait(tn.ast.test), ast.UnaryOp)
                    lab = "false" if pol_true else "true"
                    if rn in g.reach_from_edge(tn, lab, avoid=[tn], exc=False) and rn not in g.reach_from_edge(tn, "true" if lab == "false" else "false", avoid=[tn], exc=False):
                        okm = True
                if not okm and any(fa[0][0] == "truthy" and fa[0][1] in _match_keys(f, g, df, T, wterm) and fa[1] is True for fa in facts):
                    okm = True
                R.check(okm, "PUMP-ret", sub + "|own-stream", "a packet read off the wire is returned only if its ids match the caller's stream",
                        "a packet read off the wire can be returned to a caller whose (remote, local) ids it does not match (cross-talk)", f.loc(rn.ast))
    R.count("PUMP-ret[%s]" % roles.tag, nret, 3)


def _args_match(ctx, R, T):
    f = ctx.pkg.func("hidden_helpers._AdbTransactionInfo.args_match")
    g = ctx.cfg(f)
    env = kind_env(f)
    n_cmp = 0
    for rn in g.live_nodes():
        exprs_ = [e for e in rn.exprs()]
        cmps = []
        for e in exprs_:
            cmps.extend(x for x in ast.walk(e) if isinstance(x, ast.Compare))
        for cmp_ in cmps:
            if len(cmp_.ops) != 1:
                continue
            left = T.term(f, rn, cmp_.left, env)
            right = T.term(f, rn, cmp_.comparators[0], env)
            kl = kind(left)
            if isinstance(cmp_.ops[0], (ast.In, ast.NotIn)) and right[0] in ("tuple", "list"):
                kr = [kind(x) for x in right[1:]]
            elif isinstance(cmp_.ops[0], (ast.Is, ast.IsNot)):
                continue
            else:
                kr = [kind(right)]
            if kl not in (L, Rk):
                continue
            n_cmp += 1
            ok = all(k in (kl, ANY) for k in kr) and any(k == kl for k in kr)
            R.check(ok, "KIND-match", "%s|%s" % (f.qualname, src(cmp_)),
                    "`%s` compares a %s id with the stream's %s id" % (src(cmp_), "local" if kl == L else "remote", "local" if kl == L else "remote"),
                    "`%s` compares a %s id of the packet with %s of the stream: with local id != remote id packets are matched to the wrong stream" % (
                        src(cmp_), "local" if kl == L else "remote", "/".join(kr)), f.loc(rn.ast))
    R.count("KIND-match", n_cmp, 4)
    # decision table: the function is evaluated over the finite set of outcomes of its comparisons (the ids are touched
    # only through comparisons) and must equal  (arg1 matches local) and (remote unknown or arg0 matches remote),
    # where "matches" also accepts 0 when allow_zeros is set
    import itertools
    atoms = ("A1", "A0", "RN", "Z", "Z1", "Z0")
    selfn = f.params[0]

    def atom(e):
        e = unawait(e)
        if isinstance(e, ast.Name) and e.id == "allow_zeros":
            return ("Z", True)
        if isinstance(e, ast.Compare) and len(e.ops) == 1:
            a, b, op = e.left, e.comparators[0], e.ops[0]
            ka, kb = varkey(unawait(a)), varkey(unawait(b))
            pair = {ka, kb}
            pos = isinstance(op, (ast.Eq, ast.Is, ast.In))
            if isinstance(op, (ast.Eq, ast.NotEq)):
                if pair == {"arg1", selfn + ".local_id"}:
                    return ("A1", pos)
                if pair == {"arg0", selfn + ".remote_id"}:
                    return ("A0", pos)
                for nm, at in (("arg1", "Z1"), ("arg0", "Z0")):
                    if (ka == nm and isinstance(b, ast.Constant) and b.value == 0) or (kb == nm and isinstance(a, ast.Constant) and a.value == 0):
                        return (at, pos)
            if isinstance(op, (ast.Is, ast.IsNot)) and ((ka == selfn + ".remote_id" and isinstance(b, ast.Constant) and b.value is None) or (kb == selfn + ".remote_id" and isinstance(a, ast.Constant) and a.value is None)):
                return ("RN", pos)
        return None

    def ev(e, val):
        e = unawait(e)
        if isinstance(e, ast.Constant) and isinstance(e.value, bool):
            return e.value
        if isinstance(e, ast.UnaryOp) and isinstance(e.op, ast.Not):
            r = ev(e.operand, val)
            return None if r is None else (not r)
        if isinstance(e, ast.BoolOp):
            rs = [ev(v, val) for v in e.values]
            if None in rs:
                return None
            return all(rs) if isinstance(e.op, ast.And) else any(rs)
        if isinstance(e, ast.Compare) and len(e.ops) == 1 and isinstance(e.ops[0], (ast.In, ast.NotIn)) and isinstance(e.comparators[0], (ast.Tuple, ast.List, ast.Set)):
            k = varkey(unawait(e.left))
            rs = []
            for x in e.comparators[0].elts:
                sub = atom(ast.Compare(left=e.left, ops=[ast.Eq()], comparators=[x]))
                if sub is None:
                    return None
                rs.append(val[sub[0]] == sub[1])
            r = any(rs)
            return r if isinstance(e.ops[0], ast.In) else (not r)
        a = atom(e)
        if a is not None:
            return val[a[0]] == a[1]
        return None

    def run(stmts, val):
        for st in stmts:
            if isinstance(st, ast.Expr) and isinstance(st.value, ast.Constant):
                continue
            if isinstance(st, ast.Return):
                return ("ret", ev(st.value, val) if st.value is not None else None)
            if isinstance(st, ast.If):
                t = ev(st.test, val)
                if t is None:
                    return ("unknown", src(st.test))
                r = run(st.body if t else st.orelse, val)
                if r is not None:
                    return r
                continue
            return ("unknown", norm_stmt(st))
        return None

    bad = None
    undecidable = None
    n_rows = 0
    for bits in itertools.product([False, True], repeat=len(atoms)):
        val = dict(zip(atoms, bits))
        want = (val["A1"] or (val["Z"] and val["Z1"])) and (val["RN"] or val["A0"] or (val["Z"] and val["Z0"]))
        r = run(f.node.body, val)
        n_rows += 1
        if r is None or r[0] == "unknown" or r[1] is None:
            undecidable = r[1] if r else "falls off the end"
            break
        if bool(r[1]) != bool(want):
            bad = (val, r[1], want)
            break
    if undecidable is not None:
        raise AnalysisError("MATCH-table", "cannot evaluate args_match over its comparisons (%s)" % undecidable)
    R.check(bad is None, "MATCH-table", f.qualname, "args_match equals (arg1 ~ local id) and (remote unknown or arg0 ~ remote id) on all %d outcomes of its comparisons (0 accepted as wildcard only with allow_zeros)" % n_rows,
            "args_match returns %s where the stream-matching rule requires %s, for %s" % (bad[1], bad[2], ", ".join("%s=%s" % kv for kv in sorted(bad[0].items()))) if bad else "", f.loc())


def _nd_park(ctx, R):
    """No packet is dropped when it is parked: put() appends (cmd, data) once to the queue of its own pair for every shape of
    the store (abstract interpretation, sa/absstore.py + sa/storespec.py); a CLSE dropped for a pair without queue is reported
    under a key that names the shape (known finding K1)."""
    from .. import storespec
    cls = ctx.pkg.cls("hidden_helpers._AdbPacketStore")
    R.attempt(storespec.put_spec, ctx, R, cls, "ND-park", clse_drop="finding")


def _fact_str(fa):
    k = fa[0]
    def short(d):
        try:
            return ast.unparse(eval_dump(d))
        except Exception:   # noqa
            return d
    if k[0] == "eq":
        return "%s == %s" % (short(k[1]), short(k[2]))
    if k[0] == "in":
        return "%s in %s" % (short(k[1]), short(k[2]))
    if k[0] == "truthy":
        return short(k[1])
    if k[0] == "is":
        return "%s is %s" % (short(k[1]), short(k[2]))
    if k[0] == "lt":
        return "%s < %s" % (short(k[1]), short(k[2]))
    return str(k)


def eval_dump(d):
    """Rebuild an AST from ast.dump output (only node types from the ast module)."""
    ns = {n: getattr(ast, n) for n in dir(ast) if isinstance(getattr(ast, n), type)}
    node = eval(d, {"__builtins__": {}}, ns)   # noqa: S307 - input is our own ast.dump of parsed source, names restricted to ast classes
    return ast.fix_missing_locations(node)
