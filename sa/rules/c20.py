"""C20 - USB transport honours the transport contract on a conforming libusb backend.

Decided (API conformance rules on UsbTransport): connect() claims the ADB interface after binding the handle, on
every normal path; the read endpoint is the one whose address has the IN direction bit, the write endpoint the
other; bulk_read reads the IN endpoint with the requested size (unchanged) and returns those bytes; bulk_write
writes the whole buffer to the OUT endpoint and returns libusb's count (C15); both pass timeout = int(t*1000), or
int(default*1000) when t is None; usb1.USBError -> UsbReadFailedError / UsbWriteFailedError; use after close hits
the `is None` guard and raises those errors; close() resets the handle in `finally` (C12); AdbDeviceUsb forwards
serial, port_path and the default timeout.  Not decided: behaviour of libusb, whole sessions over it.
HANDLE (typestate): after `<handle>.close()` every path out of the method, exceptional ones included, resets `self._transport` to None;
a failed claimInterface is not swallowed.
"""
import ast
from ..terms import crepr

from ..argrule import arg_rule
from ..loader import AnalysisError
from ..dataflow import key, varkey, unawait
from ..engine import terms
from ..terms import show
from ..util import src, node_calls, call_attr, norm_stmt
from .c12 import handler_completes
from .c18 import _no_redef

LEVEL = "other"


def check(ctx, R):
    T = terms(ctx)
    cls = ctx.pkg.classes.get("transport.usb_transport.UsbTransport")
    if cls is None:
        raise AnalysisError("USB", "transport.usb_transport.UsbTransport not found")
    _connect(ctx, R, T, cls)
    _io(ctx, R, T, cls, "bulk_read", "bulkRead", "_read_endpoint", "UsbReadFailedError")
    _io(ctx, R, T, cls, "bulk_write", "bulkWrite", "_write_endpoint", "UsbWriteFailedError")
    _timeout_ms(ctx, R, T, cls)
    _handle_typestate(ctx, R, cls)
    _interface(ctx, R, T, cls)
    _device(ctx, R, T)
    from .c12 import _transport_close
    _transport_close(ctx, R, only=("transport.usb_transport.UsbTransport",))      # "use after close raises those errors": the guard needs a reset handle
    arg_rule(ctx, R, "usb", "ARG-usb", min_count=3)
    R.assume("usb1 (libusb1) behaves per its documentation: bulkRead(endpoint, length, timeout=ms) returns at most `length` bytes, bulkWrite returns the count")
    R.undecided("behaviour of libusb and whole device sessions over it are outside the source")


def _handle_typestate(ctx, R, cls):
    """A closed libusb handle is never left in `self._transport`: after `<handle>.close()` every path out of the method - exceptions included -
    resets the attribute to None (the `is None` guards of bulk_read / bulk_write / close are what turns use after close into the documented
    errors; a closed handle that is still bound gets used)."""
    n_sites = 0
    for f in cls.methods.values():
        if not f.params:
            continue
        g = ctx.cfg(f)
        selfn = f.params[0]
        hk = selfn + "._transport"
        aliases = {hk}
        for n in g.live_nodes():
            a = n.ast
            if n.kind == "stmt" and isinstance(a, ast.Assign) and len(a.targets) == 1:
                tk, vk = varkey(a.targets[0]), varkey(unawait(a.value))
                if tk == hk and vk and "." not in vk:
                    aliases.add(vk)
                if vk == hk and tk and "." not in tk:
                    aliases.add(tk)
        clears = [n for n in g.nodes if n.kind == "stmt" and isinstance(n.ast, ast.Assign) and any(varkey(t) == hk for t in n.ast.targets)
                  and isinstance(n.ast.value, ast.Constant) and n.ast.value.value is None]
        for n in g.live_nodes():
            for c in node_calls(n):
                if call_attr(c) == "close" and varkey(unawait(c.func.value)) in aliases:
                    n_sites += 1
                    r = g.reach([n], avoid=clears, exc=True)
                    # (resetting the attribute BEFORE closing a local snapshot of the handle is as good: `h = self._transport; self._transport = None; h.close()`)
                    reset_first = bool(clears) and g.dominates(clears, n) and varkey(unawait(c.func.value)) != hk
                    R.check(reset_first or (g.exit not in r and g.raise_exit not in r), "HANDLE", "%s|%s" % (f.qualname, norm_stmt(n.ast)[:50]), "after the handle is closed the attribute is reset on every path out",
                            "%s closes the libusb handle but can leave the method (normally or by an exception) with `self._transport` still bound to it: later calls pass the `is None` guard and use a closed handle" % f.qualname, f.loc(n.ast))
    R.count("HANDLE", n_sites, 1)


def _connect(ctx, R, T, cls):
    f = cls.methods["connect"]
    g = ctx.cfg(f)
    df = ctx.df(f)
    q = f.qualname
    selfn = f.params[0]
    binds = [n for n in g.live_nodes() if n.kind == "stmt" and isinstance(n.ast, ast.Assign) and any(varkey(t) == selfn + "._transport" for t in n.ast.targets)]
    claims = [(n, c) for n in g.live_nodes() for c in node_calls(n) if call_attr(c) == "claimInterface"]
    ok = len(binds) == 1 and len(claims) == 1 and g.dominates(binds, claims[0][0]) and g.dominates([claims[0][0]], g.exit, exc=False)
    R.check(ok, "CLAIM", q + "|claim", "the interface is claimed after the handle is bound, on every normal path", "connect() does not claim the interface on every path after binding the handle", f.loc())
    if len(claims) == 1:
        from ..util import swallowing_handlers
        R.check(not swallowing_handlers(g, claims[0][0]), "CLAIM", q + "|claim-not-swallowed", "a failed claim propagates", "a handler around claimInterface completes normally: connect() succeeds although the interface was not claimed", f.loc(claims[0][0].ast))
    if len(binds) == 1:
        t = T.term(f, binds[0], binds[0].ast.value)
        R.check(t == ("call", ".open", (("attr", ("p", selfn), "_device"),), ()), "CLAIM", q + "|handle", "the handle is the opened device", "the handle bound is %s" % show(t), f.loc(binds[0].ast))
    if len(claims) == 1:
        n, c = claims[0]
        a = T.term(f, n, c.args[0]) if c.args else None
        R.check(a == ("call", ".getNumber", (("attr", ("p", selfn), "_setting"),), ()), "CLAIM", q + "|interface", "the interface claimed is the ADB setting's number", "the interface claimed is %s" % (show(a) if a else "?"), f.loc(n.ast))
        R.check(varkey(unawait(c.func.value)) in (selfn + "._transport", "transport"), "CLAIM", q + "|on-handle", "claimed on the handle just opened", None, f.loc(n.ast), trivial=True)
    # endpoint direction
    for attr, want_dir in (("_read_endpoint", True), ("_write_endpoint", False)):
        asg = [n for n in g.live_nodes() if n.kind == "stmt" and isinstance(n.ast, ast.Assign) and any(varkey(t) == selfn + "." + attr for t in n.ast.targets)]
        # where the values stored come from: through local copies, ignoring the `None` initialisation
        sources = []          # (node where the value is computed, expression)
        why = "expected %s to be assigned (possibly through a local) from an endpoint address" % attr
        ok = bool(asg)

        def trace(node, e, chain, depth=0):
            e = unawait(e)
            if isinstance(e, ast.Constant) and e.value is None:
                return True
            if isinstance(e, ast.Name) and depth < 3:
                ds = list(df.reaching(node, e.id))
                return bool(ds) and all(d.kind == "assign" and not d.path and d.value is not None and trace(d.node, d.value, chain + [node], depth + 1) for d in ds)
            sources.append((node, e, chain + [node]))
            return True
        for a in asg:
            ok = ok and len(a.ast.targets) == 1 and trace(a, a.ast.value, [])
        ok = ok and len(sources) == 1
        if ok:
            dn, e, chain = sources[0]
            addr = T.term(f, dn, e)
            ok = addr[0] == "call" and addr[1] == ".getAddress"
            # governed by address & ENDPOINT_DIR_MASK: at the point where the address is routed to this attribute
            pol = None
            for cn in chain:
                for fa in df.facts(cn):
                    if fa[0][0] == "truthy" and "ENDPOINT_DIR_MASK" in fa[0][1] and "BitAnd" in fa[0][1]:
                        from .c06 import eval_dump
                        e2 = eval_dump(fa[0][1])
                        tt = T.term(f, cn, e2)
                        if tt[0] == "op" and tt[1] == "&" and addr in tt[2:]:
                            pol = fa[1] if pol in (None, fa[1]) else "both"
            ok = ok and pol is want_dir
            why = "%s is assigned under direction-bit %s (IN = device-to-host has the bit set)" % (attr, pol)
        R.check(ok, "ENDPOINT", q + "|" + attr, "%s = the endpoint whose address %s the IN direction bit" % (attr, "has" if want_dir else "lacks"),
                "%s is not the endpoint with the direction bit %s: %s" % (attr, "set" if want_dir else "clear", why), f.loc())


def _io(ctx, R, T, cls, meth, libcall, epattr, exc):
    f = cls.methods[meth]
    g = ctx.cfg(f)
    df = ctx.df(f)
    q = f.qualname
    selfn = f.params[0]
    p1, to = f.params[1], f.params[2]
    _no_redef(ctx, R, f, p1, "USB-io")
    _no_redef(ctx, R, f, to, "USB-io")
    calls = [(n, c) for n in g.live_nodes() for c in node_calls(n) if call_attr(c) in ("bulkRead", "bulkWrite", "interruptRead", "interruptWrite", "controlRead", "controlWrite")]
    R.check(len(calls) == 1 and call_attr(calls[0][1]) == libcall, "USB-io", q + "|one-call", "exactly one %s call" % libcall, "expected exactly one %s call, found %s" % (libcall, [call_attr(c) for _n, c in calls]), f.loc())
    if len(calls) != 1:
        return
    n, c = calls[0]
    ep = T.term(f, n, c.args[0]) if c.args else None
    R.check(ep == ("attr", ("p", selfn), epattr), "USB-io", q + "|endpoint", "%s uses %s" % (meth, epattr), "%s goes to %s instead of self.%s" % (meth, show(ep) if ep else "?", epattr), f.loc(n.ast))
    a1 = T.term(f, n, c.args[1]) if len(c.args) > 1 else None
    R.check(a1 == ("p", p1), "USB-io", q + "|" + p1, "`%s` is passed to libusb unchanged" % p1, "libusb receives %s instead of `%s`" % (show(a1) if a1 else "?", p1), f.loc(n.ast))
    tm = dict((k.arg, k.value) for k in c.keywords).get("timeout", c.args[2] if len(c.args) > 2 else None)
    tt = T.term(f, n, tm) if tm is not None else None
    want = ("call", cls.qualname + "._timeout_ms", (("p", selfn), ("p", to)), ())
    ok = tt == want or (tt is not None and tt[0] in ("call", "phi", "ite") and "_timeout_ms" not in show(tt) and False)
    if not ok and tt is not None:
        # inlined helper: int(t*1000 if t is not None else default*1000)
        ok = _is_ms(tt, ("p", to), ("attr", ("p", selfn), "_default_transport_timeout_s"))
    R.check(ok, "USB-io", q + "|timeout", "timeout passed in milliseconds via _timeout_ms(transport_timeout_s)", "libusb's timeout is %s; expected the transport timeout converted to ms" % (show(tt) if tt else "missing (libusb default 0 = wait forever)"), f.loc(n.ast))
    # None-guard dominates
    hattr = ast.Attribute(value=ast.Name(id=selfn, ctx=ast.Load()), attr="_transport", ctx=ast.Load())
    hk = key(hattr)
    recv = unawait(c.func.value) if isinstance(c.func, ast.Attribute) else None
    if isinstance(recv, ast.Name):
        # a local snapshot of the handle (`handle = self._transport`): the guard must then be on that snapshot
        d = df.unique_def(n, recv.id)
        if d is not None and d.kind == "assign" and not d.path and d.value is not None and key(unawait(d.value)) == hk:
            hk = key(recv)
    nk = key(ast.Constant(value=None))
    guarded = any(fa[0] == ("is",) + tuple(sorted([hk, nk])) and fa[1] is False for fa in df.facts(n)) or any(fa[0] == ("truthy", hk) and fa[1] is True for fa in df.facts(n))
    R.check(guarded, "USB-io", q + "|closed-guard", "use after close is caught by the `is None` guard", "%s dereferences the handle without the `self._transport is None` guard: use after close crashes with AttributeError" % meth, f.loc(n.ast))
    for rn in g.live_nodes():
        if rn.kind == "stmt" and isinstance(rn.ast, ast.Raise) and rn.ast.exc is not None:
            R.check(exc in src(rn.ast.exc), "USB-io", "%s|raise|%s" % (q, norm_stmt(rn.ast)[:50]), "failures surface as %s" % exc, "`%s` is not a %s" % (norm_stmt(rn.ast)[:70], exc), f.loc(rn.ast))
    hs = [h for h in g.nodes if h.kind == "except"]
    ok = len(hs) == 1 and hs[0].ast.type is not None and src(hs[0].ast.type) == "usb1.USBError" and not handler_completes(g, hs[0])
    in_try = any(region == "body" for (_t, region) in n.trys)
    R.check(ok and in_try, "USB-io", q + "|mapping", "usb1.USBError -> %s" % exc, "libusb errors are not (only) mapped to %s (handlers: %s)" % (exc, [src(h.ast.type) if h.ast.type is not None else "bare" for h in hs]), f.loc())
    # return value
    rets = [x for x in g.live_nodes() if x.kind == "stmt" and isinstance(x.ast, ast.Return)]
    for x in rets:
        v = unawait(x.ast.value) if x.ast.value is not None else None
        if isinstance(v, ast.Call) and isinstance(v.func, ast.Name) and v.func.id in ("bytes", "bytearray") and len(v.args) == 1:
            v = unawait(v.args[0])
        okv = v is c
        if not okv and x.ast.value is not None:
            # through a local: the value returned is (bytes of) the result of that very call
            rt = T.term(f, x, x.ast.value)
            ct = T.term(f, n, c)
            okv = rt == ct or (rt[0] == "call" and rt[1] in ("builtins.bytes", "builtins.bytearray") and len(rt[2]) == 1 and rt[2][0] == ct)
        R.check(okv, "USB-io", "%s|%s" % (q, norm_stmt(x.ast)[:50]), "returns libusb's result", "%s returns `%s`, not the result of %s" % (meth, norm_stmt(x.ast)[:60], libcall), f.loc(x.ast))
    R.check(g.exit not in g.reach([g.entry], avoid=rets, exc=True, include_start=True), "USB-io", q + "|no-implicit-none", "never returns None", "%s can finish without a result" % meth, f.loc())


def _is_ms(t, tparam, default):
    """t == int(ite(t is not None, t*1000, default*1000)) in either branch order"""
    if t[0] == "phi":
        a_ = ("call", "builtins.int", (("op", "*", tparam, ("c", 1000)),), ())
        a2_ = ("call", "builtins.int", (("op", "*", ("c", 1000), tparam),), ())
        b_ = ("call", "builtins.int", (("op", "*", default, ("c", 1000)),), ())
        b2_ = ("call", "builtins.int", (("op", "*", ("c", 1000), default),), ())
        alts = set(t[1])
        return len(alts) == 2 and bool(alts & {a_, a2_}) and bool(alts & {b_, b2_})     # which branch when: checked on _timeout_ms itself
    def intmul(x, v):
        return x[0] == "call" and x[1] == "builtins.int" and len(x[2]) == 1 and not x[3] and x[2][0][0] == "op" and x[2][0][1] == "*" and sorted(x[2][0][2:], key=crepr) == sorted([v, ("c", 1000)], key=crepr)
    # int(a if c else b)  ==  int(a) if c else int(b)
    if t[0] == "call" and t[1] == "builtins.int" and len(t[2]) == 1 and t[2][0][0] == "ite":
        x = t[2][0]
        t = ("ite", x[1], ("call", "builtins.int", (x[2],), ()), ("call", "builtins.int", (x[3],), ()))
    if t[0] != "ite":
        return False
    cond = t[1][1] if t[1][0] == "cond" else None
    if cond == ("cmp", tparam, ("c", "IsNot"), ("c", None)):
        return intmul(t[2], tparam) and intmul(t[3], default)
    if cond == ("cmp", tparam, ("c", "Is"), ("c", None)):
        return intmul(t[3], tparam) and intmul(t[2], default)
    return False


def _timeout_ms(ctx, R, T, cls):
    f = cls.methods.get("_timeout_ms")
    if f is None:
        R.ok("USB-ms", cls.qualname + "._timeout_ms", "no helper: conversion checked inline at the call sites", cls.mod.relpath, trivial=True)
        return
    g = ctx.cfg(f)
    df = ctx.df(f)
    rets = [rn for rn in g.live_nodes() if rn.kind == "stmt" and isinstance(rn.ast, ast.Return)]
    tp, dflt = ("p", f.params[1]), ("attr", ("p", f.params[0]), "_default_transport_timeout_s")
    whole = T.inline_return(f, {f.params[0]: ("p", f.params[0]), f.params[1]: ("p", f.params[1])}, 1)
    if _is_ms(whole, tp, dflt) and whole[0] != "phi":
        R.ok("USB-ms", f.qualname + "|conversion", "ms = int(t * 1000), or int(default * 1000) when t is None", f.loc())
        rets = []
    for rn in rets:
        t = T.term(f, rn, rn.ast.value)
        ok = _is_ms(t, tp, dflt) and t[0] != "phi"
        if not ok and len(rets) == 2 and t[0] == "call" and t[1] == "builtins.int" and len(t[2]) == 1 and t[2][0][0] == "op" and t[2][0][1] == "*" and ("c", 1000) in t[2][0][2:]:
            other = [x for x in t[2][0][2:] if x != ("c", 1000)]
            nk = key(ast.Constant(value=None))
            pk = key(ast.Name(id=f.params[1], ctx=ast.Load()))
            isnone = [fa[1] for fa in df.facts(rn) if fa[0] == ("is",) + tuple(sorted([pk, nk]))]
            if other == [tp]:
                ok = isnone == [False]
            elif other == [dflt]:
                ok = isnone == [True]
        R.check(ok, "USB-ms", f.qualname + "|" + norm_stmt(rn.ast)[:40], "ms = int(t * 1000), or int(default * 1000) when t is None", "_timeout_ms returns %s; expected int(t*1000) with the default exactly when t is None" % show(t), f.loc(rn.ast))
    init = cls.methods["__init__"]
    b = {p: ("p", p) for p in init.params[1:]}
    obj = ("new", cls.qualname, tuple(sorted(b.items())))
    d = T.attr(obj, "_default_transport_timeout_s")
    ok = d[0] == "ite" and {d[2], d[3]} == {("p", "default_transport_timeout_s"), ("c", ctx.fold.need("transport.usb_transport", "DEFAULT_TIMEOUT_S", "USB-ms"))}
    R.check(ok, "USB-ms", init.qualname + "|default", "default timeout = the caller's, else DEFAULT_TIMEOUT_S", "the default timeout is %s" % show(d), init.loc())


def _interface(ctx, R, T, cls):
    """The interface that is searched for (and later claimed) is the ADB one: vendor class 0xff, subclass 0x42, protocol 1."""
    mod = cls.mod
    for name, want in (("SUBCLASS", 0x42), ("PROTOCOL", 0x01)):
        ok, v = (False, None)
        try:
            v = ctx.fold.const(mod.name, name)
            ok = True
        except Exception:   # noqa
            pass
        R.check(ok and v == want, "IFACE", "%s.%s" % (mod.name, name), "%s = 0x%02x (ADB interface)" % (name, want), "%s folds to %r, the ADB interface has 0x%02x" % (name, v, want), mod.relpath)
    cl = mod.assigns.get("CLASS", [])
    R.check(len(cl) == 1 and src(cl[0]) == "usb1.CLASS_VENDOR_SPEC", "IFACE", mod.name + ".CLASS", "CLASS = vendor specific", "CLASS is `%s`, the ADB interface is vendor specific" % (src(cl[0]) if cl else "missing"), mod.relpath)
    f = cls.methods.get("find_adb")
    if f is None:
        R.fail("IFACE", cls.qualname + ".find_adb", "find_adb not found", mod.relpath)
        return
    calls = [c for n in ctx.cfg(f).live_nodes() for c in node_calls(n) if call_attr(c) == "interface_matcher"]
    ok = len(calls) == 1 and [src(a) for a in calls[0].args] == ["CLASS", "SUBCLASS", "PROTOCOL"]
    R.check(ok, "IFACE", f.qualname, "find_adb matches (CLASS, SUBCLASS, PROTOCOL) in that order", "find_adb does not search for the interface (CLASS, SUBCLASS, PROTOCOL)", f.loc())
    im = ctx.pkg.funcs.get(mod.name + ".interface_matcher")
    gi = ctx.pkg.funcs.get(mod.name + ".get_interface")
    if im is not None and gi is not None:
        rn = [n for n in ctx.cfg(gi).live_nodes() if n.kind == "stmt" and isinstance(n.ast, ast.Return)]
        okg = len(rn) == 1 and src(rn[0].ast.value).replace(" ", "") == "(setting.getClass(),setting.getSubClass(),setting.getProtocol())"
        R.check(okg, "IFACE", gi.qualname, "a setting is described by (class, subclass, protocol)", "get_interface returns `%s`" % (src(rn[0].ast.value) if rn else "?"), gi.loc())
        asg = [s for s in ast.walk(im.node) if isinstance(s, ast.Assign) and isinstance(s.value, ast.Tuple)]
        oki = any([src(e) for e in s.value.elts] == im.params[:3] for s in asg)
        R.check(oki, "IFACE", im.qualname, "the matcher compares against (clazz, subclass, protocol) in the same order", "interface_matcher does not compare (clazz, subclass, protocol) in order", im.loc())


def _device(ctx, R, T):
    f = ctx.pkg.funcs.get("adb_device.AdbDeviceUsb.__init__")
    if f is None:
        raise AnalysisError("USB-device", "AdbDeviceUsb.__init__ not found")
    g = ctx.cfg(f)
    finds = [(n, c) for n in g.live_nodes() for c in node_calls(n) if call_attr(c) == "find_adb"]
    R.check(len(finds) == 1, "USB-device", f.qualname + "|find", "one find_adb call", "expected one UsbTransport.find_adb call", f.loc())
    from ..util import bind_args
    fa_ = ctx.pkg.funcs.get("transport.usb_transport.UsbTransport.find_adb")
    fparams = [p for p in (fa_.params[1:] if fa_ is not None else ["serial", "port_path", "default_transport_timeout_s"])]
    for n, c in finds:
        bnd = bind_args(c, fparams) or {}
        args = [T.term(f, n, bnd[p]) if p in bnd else None for p in ("serial", "port_path", "default_transport_timeout_s")]
        R.check(args == [("p", "serial"), ("p", "port_path"), ("p", "default_transport_timeout_s")], "USB-device", f.qualname + "|forward", "serial, port_path and the default timeout are forwarded",
                "find_adb receives %s" % [show(a) if a else "?" for a in args], f.loc(n.ast))
    sup = [(n, c) for n in g.live_nodes() for c in node_calls(n) if call_attr(c) == "__init__"]
    R.check(len(sup) == 1 and g.dominates([sup[0][0]], g.exit, exc=False) if sup else False, "USB-device", f.qualname + "|super-call", "the device is initialised with the transport found, on every path",
            "AdbDeviceUsb.__init__ does not call AdbDevice.__init__ exactly once on every path", f.loc())
    base_init = ctx.pkg.funcs.get("adb_device.AdbDevice.__init__")
    bparams = base_init.params[1:] if base_init is not None else ["transport", "default_transport_timeout_s", "banner"]
    for n, c in sup:
        bnd = bind_args(c, bparams) or {}
        a0 = unawait(bnd["transport"]) if "transport" in bnd else None
        d0 = ctx.df(f).unique_def(n, a0.id) if isinstance(a0, ast.Name) else None
        from_find = (d0 is not None and d0.kind == "assign" and finds and unawait(d0.value) is finds[0][1]) or (a0 is not None and finds and a0 is finds[0][1])
        rest = [T.term(f, n, bnd[p]) if p in bnd else None for p in ("default_transport_timeout_s", "banner")]
        ok = bool(from_find) and rest == [("p", "default_transport_timeout_s"), ("p", "banner")]
        R.check(ok, "USB-device", f.qualname + "|super", "the transport found, the default timeout and the banner go to AdbDevice", "AdbDevice.__init__ receives %s" % [src(v) for v in bnd.values()], f.loc(n.ast))
