"""C01 - shell/exec output is exactly what the device wrote, for every chunking.

Decided: (1) consume-exactly-once pairing on the drain generator: every payload delivered by the read expecting
exactly {CLSE, WRTE} is yielded once, unmodified, before the next read, nothing is yielded for CLSE and the loop is
left only on CLSE; (2) _service returns JOIN(b'', G) and, when decoding, DECODE(JOIN(b'', G), utf8, backslashreplace)
- decode applied once, outside the join; (3) _streaming_service yields the items of G unchanged or each decoded on its
own; (4) the public wrappers pass the service name, the utf-8 encoded command and the decode flag; the stream is
opened for b'<service>:<command>' and drained by (1); (5) stream isolation is by id comparison in the pump (C06).
Not decided: the decoded text values (bytes.decode is trusted).
Always-delivers: none of the wrappers / generators on the way (shell .. _streaming_command, the drain) can end normally without having opened
the stream and read from it (no early return for a special input).
"""
import ast

from ..argrule import arg_rule
from ..loader import AnalysisError
from ..dataflow import key, varkey, unawait
from ..engine import terms
from ..roles import all_roles
from ..terms import show
from ..util import src, node_calls, call_attr, norm_stmt, fold_cmd_list
from .c04 import callee_nodes
from .c15 import loop_nodes, loop_exit_edges

LEVEL = "other"

UTF8 = ("utf8", "utf-8", "UTF-8", "utf_8")
HANDLER = "backslashreplace"


def yields_of(g):
    out = []
    for n in g.live_nodes():
        for e in n.exprs():
            for x in ast.walk(e):
                if isinstance(x, (ast.Yield, ast.YieldFrom)):
                    out.append((n, x))
    return out


def delivers_always(g, ys):
    """Every normal path through the generator passes one of its yield sites (for a yield inside a loop: the head of that loop) - i.e. there is
    no early return that ends the generator without having looked at the stream."""
    pts = [yn.loops[-1] if yn.loops else yn for yn, _yx in ys]
    return bool(pts) and g.exit not in g.reach([g.entry], avoid=pts, exc=False, include_start=True)


def is_decode(t, inner):
    """t == inner.decode('utf8', 'backslashreplace')  (positional or errors= keyword)"""
    if t[0] != "call" or t[1] != ".decode" or not t[2] or t[2][0] != inner:
        return False
    args = list(t[2][1:])
    kws = dict(t[3])
    enc = args[0] if args else kws.get("encoding")
    err = args[1] if len(args) > 1 else kws.get("errors")
    return enc is not None and enc[0] == "c" and enc[1] in UTF8 and err == ("c", HANDLER)


def _items_of(t, acc=None, depth=0):
    """the iterated sources S of every ("item", S) inside a term"""
    acc = set() if acc is None else acc
    if isinstance(t, tuple) and depth < 40:
        if len(t) == 2 and t[0] == "item" and isinstance(t[1], tuple):
            acc.add(t[1])
        else:
            for x in t:
                if isinstance(x, tuple):
                    _items_of(x, acc, depth + 1)
    return acc


def _subst_item(t, S, depth=0):
    if not isinstance(t, tuple) or depth > 40:
        return t
    if t == ("item", S):
        return ("p", "\0elt")
    return tuple(_subst_item(x, S, depth + 1) if isinstance(x, tuple) else x for x in t)


def check(ctx, R):
    T = terms(ctx)
    for roles in all_roles(ctx):
        _drain(ctx, R, roles, T)
        _service(ctx, R, roles, T)
        _streaming_service(ctx, R, roles, T)
        _wrappers(ctx, R, roles, T)
    # (5) stream isolation: "nothing the device wrote on another stream ever appears in the result" rests on the pump
    # matching packets by (remote id, local id); the same rule instances as in C06 are evaluated here
    from ..locks import LockInfo
    from .c06 import _pump as pump_rules, _args_match as args_match_rules
    for roles in all_roles(ctx):
        pump_rules(ctx, R, roles, LockInfo(ctx, roles), T)
    args_match_rules(ctx, R, T)
    from .c19 import store_lifetime_rules
    store_lifetime_rules(ctx, R)      # a parked packet (incl. the stream's CLSE) must stay retrievable until the stream is closed
    # "all transport read fragmentations": the payloads come out of the read-exactly primitive and the packet reader (same instances as C03)
    from .c03 import _read_exact as read_exact_rules, _packet_reader as packet_reader_rules
    for roles in all_roles(ctx):
        read_exact_rules(ctx, R, roles, T)
        packet_reader_rules(ctx, R, roles, T)
    # two live streams with one local id would see each other's output: id allocation (same instances as C14)
    from .c14 import id_rules
    id_rules(ctx, R)
    arg_rule(ctx, R, "shell", "ARG-shell", min_count=10)
    R.assume("bytes.join / bytes.decode(errors='backslashreplace') behave as documented (the latter never raises)")
    R.undecided("the UTF-8 result values themselves (library semantics, trusted)")


def _drain(ctx, R, roles, T):
    f = roles.dev["_read_until_close"]
    ru = roles.dev["_read_until"]
    g = ctx.cfg(f)
    df = ctx.df(f)
    q = f.qualname
    reads = callee_nodes(ctx, f, ru)
    R.count("CEO-drain[%s]" % roles.tag, len(reads), 1)
    if len(reads) != 1:
        R.fail("CEO-drain", q + "|reads", "the drain generator must read at exactly one site, found %d" % len(reads), f.loc())
        return
    pn, pc = reads[0]
    exp = fold_cmd_list(T, f, pn, ctx.cg.site(pc).bind(ru).get(ru.call_params[0]))
    R.check(exp is not None and set(exp) == {b"CLSE", b"WRTE"}, "CEO-drain", q + "|expected", "the drain reads exactly {CLSE, WRTE}",
            "the drain awaits %s; anything but exactly {CLSE, WRTE} either yields foreign payloads (e.g. OKAY's) as output or cannot see the close" % (sorted(exp) if exp else exp,), f.loc(pn.ast))
    if not pn.loops:
        R.fail("CEO-drain", q + "|loop", "the read is not inside a loop: only the first chunk is delivered", f.loc(pn.ast))
        return
    head = pn.loops[-1]
    from ..util import always_reached
    R.check(always_reached(g, head) and always_reached(g, pn, head) if head.kind == "iter" else g.dominates([pn], g.exit, exc=False), "CEO-drain", q + "|always-reads",
            "the drain ends only after reading (no return before the first read)", "the drain generator can end without reading from the stream (an early return): the output is empty and the stream is left open on the device side", f.loc(pn.ast))
    pt = T.term(f, pn, pc)
    ys = yields_of(g)
    R.check(len(ys) == 1, "CEO-drain", q + "|one-yield", "one yield site", "the drain generator has %d yield sites; each payload must be yielded exactly once" % len(ys), f.loc())
    if len(ys) != 1:
        return
    yn, yx = ys[0]
    yt = T.term(f, yn, yx.value) if isinstance(yx, ast.Yield) and yx.value is not None else ("none",)
    R.check(yt == ("proj", pt, 1), "CEO-drain", q + "|yield-payload", "the value yielded is the payload just read, unmodified",
            "the drain yields %s instead of the payload of the packet just read (sliced / transformed / stale value)" % show(yt), f.loc(yn.ast))
    # sentinel test on the command of the same read
    tests = []
    for tn in g.live_nodes():
        if tn.kind == "test":
            t = unawait(tn.ast.test)
            if isinstance(t, ast.Compare) and len(t.ops) == 1 and isinstance(t.ops[0], (ast.Eq, ast.NotEq)):
                a, b = T.term(f, tn, t.left), T.term(f, tn, t.comparators[0])
                for x, y in ((a, b), (b, a)):
                    if x == ("proj", pt, 0) and y[0] == "c" and y[1] in (b"CLSE", b"WRTE"):
                        is_clse = (y[1] == b"CLSE") == isinstance(t.ops[0], ast.Eq)
                        tests.append((tn, "true" if is_clse else "false"))     # label of the CLSE edge
    if len(tests) != 1:
        R.fail("CEO-drain", q + "|sentinel", "expected one test of the delivered command against CLSE, found %d" % len(tests), f.loc())
        return
    tn, clse_lab = tests[0]
    wrte_lab = "false" if clse_lab == "true" else "true"
    R.check(g.dominates([pn], tn) and tn.loops == pn.loops, "CEO-drain", q + "|test-after-read", "the command is tested after each read", None, f.loc(tn.ast))
    # WRTE edge: exactly one yield before the next read / any exit
    starts = [d for d, l in g.succ[tn] if l == wrte_lab]
    r = g.reach(starts, avoid=[yn], exc=False, include_start=True)
    exits = [d for (_m, d, _l) in loop_exit_edges(g, head)]
    skipped = pn in r or g.exit in r or any(x in r for x in exits)
    R.check(not skipped, "CEO-drain", q + "|yield-every-wrte", "every delivered WRTE payload is yielded before the next read",
            "a delivered WRTE payload can be skipped (a path from the command test back to the read / out of the loop avoids the yield): output bytes are lost", f.loc(yn.ast))
    again = g.reach([yn], avoid=[pn], exc=False)
    R.check(yn not in again, "CEO-drain", q + "|yield-once", "a payload is yielded once", "a payload can be yielded twice without a new read", f.loc(yn.ast))
    # CLSE edge: nothing yielded
    rc = g.reach_from_edge(tn, clse_lab, avoid=[pn], exc=False)
    R.check(yn not in rc, "CEO-drain", q + "|no-yield-on-clse", "nothing is yielded for the CLSE packet", "the CLSE packet's payload can be yielded as output", f.loc(yn.ast))
    # the loop is left (normally) only on CLSE
    for (m, d, l) in loop_exit_edges(g, head):
        have = set(df.facts(m)) | df.edge_facts(m, l)
        on_clse = m in rc or (m is tn and l == clse_lab)
        R.check(on_clse and m not in g.reach_from_edge(tn, wrte_lab, avoid=[pn], exc=False), "CEO-drain", "%s|exit|%s" % (q, norm_stmt(m.ast) if m.ast is not None else m.kind),
                "the drain loop is left only after the device's CLSE", "the drain loop can be left at `%s` before the device closed the stream: output is truncated" % (norm_stmt(m.ast) if m.ast is not None else m.kind), f.loc(m.ast))
    # same stream object throughout
    arg = ctx.cg.site(pc).bind(ru).get("adb_info")
    R.check(arg is not None and varkey(unawait(arg)) in f.params, "CEO-drain", q + "|stream", "reads the stream it was given", None, f.loc(pn.ast))


def _service(ctx, R, roles, T):
    f = roles.dev["_service"]
    sc = roles.dev["_streaming_command"]
    g = ctx.cfg(f)
    df = ctx.df(f)
    q = f.qualname
    selfn = f.params[0]
    G = ("call", sc.qualname, (("p", selfn), ("p", "service"), ("p", "command"), ("p", "transport_timeout_s"), ("p", "read_timeout_s"), ("p", "timeout_s")), ())
    J = ("JOIN", ("c", b""), G)
    n = 0
    dk = key(ast.Name(id="decode", ctx=ast.Load()))
    for rn in g.live_nodes():
        if rn.kind == "stmt" and isinstance(rn.ast, ast.Return):
            n += 1
            t = T.term(f, rn, rn.ast.value) if rn.ast.value is not None else ("none",)
            facts = df.facts(rn)
            dec = any(fa[0] == ("truthy", dk) and fa[1] is True for fa in facts)
            nodec = any(fa[0] == ("truthy", dk) and fa[1] is False for fa in facts)
            sub = "%s|%s" % (q, "decode" if dec else ("raw" if nodec else "any"))
            if dec:
                R.check(is_decode(t, J), "TERM-join", sub, "decode=True: DECODE(JOIN(b'', chunks), utf8, backslashreplace) - decoded once, as a whole",
                        "with decode=True _service returns %s; expected the whole concatenation decoded once with utf8/backslashreplace" % show(t), f.loc(rn.ast))
            elif nodec:
                R.check(t == J, "TERM-join", sub, "decode=False: JOIN(b'', chunks)", "with decode=False _service returns %s, expected b''.join(all chunks)" % show(t), f.loc(rn.ast))
            else:
                R.fail("TERM-join", sub + "|" + norm_stmt(rn.ast), "a return of _service is not governed by the decode flag: %s" % show(t), f.loc(rn.ast))
    R.check(n == 2, "TERM-join", q + "|returns", "one return per decode mode", "_service has %d returns, expected one per decode mode" % n, f.loc())


def _streaming_service(ctx, R, roles, T):
    f = roles.dev["_streaming_service"]
    sc = roles.dev["_streaming_command"]
    g = ctx.cfg(f)
    df = ctx.df(f)
    q = f.qualname
    selfn = f.params[0]
    G = ("call", sc.qualname, (("p", selfn), ("p", "service"), ("p", "command"), ("p", "transport_timeout_s"), ("p", "read_timeout_s"), ("c", None)), ())
    dk = key(ast.Name(id="decode", ctx=ast.Load()))
    ys = yields_of(g)
    seen = set()
    for yn, yx in ys:
        if isinstance(yx, ast.YieldFrom):
            t = T.term(f, yn, yx.value)
        else:
            t = T.term(f, yn, yx.value) if yx.value is not None else ("none",)
            # `for x in S: yield x`  ->  the iterated S (only the identity loop is accepted)
            if t[0] == "item" and yn.loops and len(loop_nodes(g, yn.loops[-1])) == 2:
                t = t[1]
            elif yn.loops and len(loop_nodes(g, yn.loops[-1])) == 2 and _items_of(t):
                # `for x in S: yield E(x)` (the loop does nothing else)  ->  the same as yielding from (E(x) for x in S)
                srcs = _items_of(t)
                if len(srcs) == 1:
                    S = next(iter(srcs))
                    t = ("map", _subst_item(t, S), S, ())
                else:
                    t = ("per-item", t)
            else:
                t = ("per-item", t)
        facts = df.facts(yn)
        dec = any(fa[0] == ("truthy", dk) and fa[1] is True for fa in facts)
        nodec = any(fa[0] == ("truthy", dk) and fa[1] is False for fa in facts)
        if dec:
            seen.add("decode")
            ok = t[0] == "map" and t[2] == G and not t[3] and is_decode(t[1], ("p", "\0elt"))
            R.check(ok, "TERM-stream", q + "|decode", "decode=True: each chunk decoded on its own with utf8/backslashreplace, in order",
                    "with decode=True streaming yields %s; expected each chunk of the stream decoded with utf8/backslashreplace" % show(t), f.loc(yn.ast))
        elif nodec:
            seen.add("raw")
            R.check(t == G, "TERM-stream", q + "|raw", "decode=False: chunks yielded unchanged, in order", "with decode=False streaming yields %s, expected the chunks unchanged" % show(t), f.loc(yn.ast))
        else:
            R.fail("TERM-stream", q + "|" + norm_stmt(yn.ast), "a yield of _streaming_service is not governed by the decode flag", f.loc(yn.ast))
    R.check(delivers_always(g, ys), "TERM-stream", q + "|always", "the generator ends only after delivering the stream", "_streaming_service can end without yielding from the stream (an early return): the output is silently empty", f.loc())
    R.check(seen == {"decode", "raw"}, "TERM-stream", q + "|modes", "both decode modes yield", "_streaming_service does not yield in both decode modes (%s)" % sorted(seen), f.loc())


def _wrappers(ctx, R, roles, T):
    dev = roles.dev
    svc, ssvc, sc = dev["_service"], dev["_streaming_service"], dev["_streaming_command"]
    enc = lambda: ("call", ".encode", (("p", "command"), ("c", "utf8")), ())
    table = [("shell", svc, b"shell", "enc", ("p", "decode")), ("exec_out", svc, b"exec", "enc", ("p", "decode")),
             ("root", svc, b"root", ("c", b""), ("c", False)), ("streaming_shell", ssvc, b"shell", "enc", ("p", "decode"))]
    for name, target, service, cmd, dec in table:
        f = dev[name]
        g = ctx.cfg(f)
        sites = callee_nodes(ctx, f, target)
        sub = f.qualname
        if len(sites) != 1:
            R.fail("TERM-wrap", sub + "|calls", "%s must call %s exactly once, found %d sites" % (name, target.name, len(sites)), f.loc())
            continue
        n, c = sites[0]
        if name == "streaming_shell":
            R.check(delivers_always(g, yields_of(g)), "TERM-wrap", sub + "|always", "ends only after delivering the stream", "%s can end without yielding from the service (an early return): the output is silently empty" % name, f.loc())
        else:
            R.check(g.dominates([n], g.exit, exc=False), "TERM-wrap", sub + "|always", "returns normally only after running the service", "%s can return normally without running the service (an early return)" % name, f.loc())
        b = ctx.cg.site(c).bind(target)
        st = T.term(f, n, b["service"]) if "service" in b else None
        R.check(st == ("c", service), "TERM-wrap", sub + "|service", "service name %r" % service, "%s opens service %s, expected %r" % (name, show(st) if st else "?", service), f.loc(n.ast))
        ct = T.term(f, n, b["command"]) if "command" in b else None
        okc = False
        if cmd == "enc":
            okc = ct is not None and ct[0] == "call" and ct[1] == ".encode" and ct[2][0] == ("p", "command") and (len(ct[2]) == 1 or (ct[2][1][0] == "c" and ct[2][1][1] in UTF8)) and not ct[3]
        else:
            okc = ct == cmd
        R.check(okc, "TERM-wrap", sub + "|command", "command passed utf-8 encoded, whole", "%s passes command %s" % (name, show(ct) if ct else "?"), f.loc(n.ast))
        dt = T.term(f, n, b["decode"]) if "decode" in b else None
        if dt is None and "decode" in target.defaults:
            okd, v = ctx.fold.try_eval(target.defaults["decode"], target.mod, {})
            dt = ("c", v) if okd else None
        R.check(dt == dec, "TERM-wrap", sub + "|decode", "decode flag forwarded", "%s passes decode=%s, expected %s" % (name, show(dt) if dt else "?", show(dec)), f.loc(n.ast))
        if name in ("shell", "exec_out"):
            rets = [rn for rn in g.live_nodes() if rn.kind == "stmt" and isinstance(rn.ast, ast.Return)]
            ok = len(rets) == 1 and rets[0].ast.value is not None and unawait(rets[0].ast.value) is c
            R.check(ok, "TERM-wrap", sub + "|returns", "returns the service result unchanged", "%s does not return the result of _service unchanged" % name, f.loc())
        if name == "streaming_shell":
            ys = yields_of(g)
            ok = len(ys) == 1
            if ok:
                yn, yx = ys[0]
                t = T.term(f, yn, yx.value)
                ct_ = T.term(f, n, c)
                ok = (isinstance(yx, ast.YieldFrom) and t == ct_) or (isinstance(yx, ast.Yield) and t == ("item", ct_) and len(loop_nodes(g, yn.loops[-1])) == 2 if yn.loops else False)
            R.check(ok, "TERM-wrap", sub + "|yields", "yields the items of the streaming service unchanged", "streaming_shell does not pass the streamed items through unchanged", f.loc())
    # _streaming_command: open b'<service>:<command>' then drain that stream
    f = sc
    g = ctx.cfg(f)
    opens = callee_nodes(ctx, f, dev["_open"])
    drains = callee_nodes(ctx, f, dev["_read_until_close"])
    if len(opens) != 1 or len(drains) != 1:
        R.fail("TERM-wrap", f.qualname + "|shape", "_streaming_command must open once and drain once", f.loc())
        return
    on, oc = opens[0]
    R.check(g.dominates([on], g.exit, exc=False) and delivers_always(g, yields_of(g)), "TERM-wrap", f.qualname + "|always", "ends only after opening the stream and draining it",
            "_streaming_command can end without opening / draining the stream (an early return): the output is silently empty", f.loc())
    b = ctx.cg.site(oc).bind(dev["_open"])
    dt = T.term(f, on, b.get("destination")) if b.get("destination") is not None else None
    R.check(dt == ("CONCAT", ("p", "service"), ("c", b":"), ("p", "command")), "TERM-wrap", f.qualname + "|destination", "destination = service + b':' + command",
            "the stream is opened for %s, expected b'<service>:<command>'" % (show(dt) if dt else "?"), f.loc(on.ast))
    dn, dc = drains[0]
    ys = yields_of(g)
    arg = ctx.cg.site(dc).bind(dev["_read_until_close"]).get("adb_info")
    df = ctx.df(f)
    d = df.unique_def(dn, varkey(unawait(arg))) if arg is not None and varkey(unawait(arg)) else None
    own = (d is not None and d.node is on) or (arg is not None and unawait(arg) is oc) or (arg is not None and T.term(f, dn, arg) == T.term(f, on, oc))
    R.check(own, "TERM-wrap", f.qualname + "|drains-own", "drains the stream it opened", "_streaming_command drains a different stream than the one it opened", f.loc(dn.ast))
    ok = len(ys) == 1
    if ok:
        yn, yx = ys[0]
        t = T.term(f, yn, yx.value)
        dtm = T.term(f, dn, dc)
        ok = (isinstance(yx, ast.YieldFrom) and t == dtm) or (isinstance(yx, ast.Yield) and t == ("item", dtm) and yn.loops and len(loop_nodes(g, yn.loops[-1])) == 2)
    R.check(ok, "TERM-wrap", f.qualname + "|yields", "yields every drained chunk unchanged", "_streaming_command does not pass the drained chunks through unchanged", f.loc())
