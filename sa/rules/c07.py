"""C07 - push delivers the exact file bytes, within protocol size limits.

Decided: event typestate on _push (SEND('path,mode') once and first; each chunk read from the stream is sent once
as DATA, unmodified, in order, the chunk loop ends only on an empty read; DONE once with mtime or int(now) when 0;
status read afterwards - return only on OKAY is C10); chunk size <= 64 KiB and <= maxdata/2 by bound reasoning on
min/or; send-buffer arithmetic (room-or-flush dominates the append, predicate implies idx + 8 + n <= maxdata,
cursor idiom, flush slice, reset) so that no WRTE exceeds the device's maxdata; the record reader flushes before it
reads (DONE is on the wire before the status is awaited); push handles each (local, device) pair once and closes
each stream; directory expansion joins names with the directory; the callback is contained and sees len(chunk);
every method called on the source stream is supported by every kind of stream that can reach it (DUCK).
Not decided: file-system behaviour.
Always-transfers: push hands every file of the list to _push (an early return is accepted only where the list is empty), _push returns normally
only after SEND .. DONE, and no handler around _open / _push completes normally.
"""
import ast
from ..terms import crepr

from ..loader import AnalysisError
from ..dataflow import key, varkey, unawait
from ..engine import terms
from ..roles import all_roles
from ..terms import show
from ..util import src, node_calls, call_attr, norm_stmt, fold_cmd_list, attr_writes
from .c04 import callee_nodes
from .c08 import callback_contained
from .c15 import loop_nodes, loop_exit_edges

LEVEL = "other"

MAX_DATA_CHUNK = 64 * 1024
UTF8 = ("utf8", "utf-8", "UTF-8", "utf_8")

# DUCK oracle: which methods each kind of source stream supports (Python documentation)
STREAM_METHODS = {
    "ext:file": {"read", "write", "fileno", "seek", "tell", "close", "flush", "readinto", "readable", "seekable"},
    "ext:aiofile": {"read", "write", "fileno", "seek", "tell", "close", "flush", "readinto"},
    "ext:BytesIO": {"read", "write", "getbuffer", "getvalue", "seek", "tell", "close", "flush", "readinto", "readable", "seekable", "truncate"},   # fileno() raises UnsupportedOperation
}


def check(ctx, R):
    T = terms(ctx)
    for roles in all_roles(ctx):
        _push_typestate(ctx, R, roles, T)
        _send_buffer(ctx, R, roles, T)
        _flush_before_read(ctx, R, roles, T)
        _chunk_bound(ctx, R, roles, T)
        _push_public(ctx, R, roles, T)
        _maxdata_sites(ctx, R, roles, T)
        _duck(ctx, R, roles, T)
        # "no WRITE payload exceeds the device's maxdata": the limit used is the one the device announced (arg1 of its CNXN), adopted by connect()
        from .c05 import _manager_connect, _device_connect
        _manager_connect(ctx, R, roles, T)
        _device_connect(ctx, R, roles, T)
    _txinfo(ctx, R, T)
    _files_to_push(ctx, R, T)
    R.assume("the negotiated maxdata is at least 16 (the protocol minimum is 4096); stream.read(n) returns at most n bytes and b'' only at end of file")
    R.undecided("file-system behaviour (what listdir/open/read return) is outside the source")


def sync_sends(ctx, roles, T, f):
    fs = roles.dev["_filesync_send"]
    out = []
    for n, c in callee_nodes(ctx, f, fs):
        b = ctx.cg.site(c).bind(fs)
        cid = T.term(f, n, b.get("command_id")) if b.get("command_id") is not None else None
        out.append((n, c, b, cid[1] if cid and cid[0] == "c" else None))
    return out


def _push_typestate(ctx, R, roles, T):
    f = roles.dev["_push"]
    g = ctx.cfg(f)
    df = ctx.df(f)
    q = f.qualname
    stream = f.params[1]
    sends = sync_sends(ctx, roles, T, f)
    by = {}
    for n, c, b, cid in sends:
        by.setdefault(cid, []).append((n, c, b))
    R.check(set(by) == {b"SEND", b"DATA", b"DONE"} and all(len(v) == 1 for v in by.values()), "PUSH-events", q + "|sites",
            "_push sends SEND, DATA and DONE at one site each", "_push's sync requests are %s; expected one site each for SEND, DATA, DONE" % sorted((k.decode() if k else "?", len(v)) for k, v in by.items()), f.loc())
    if not ({b"SEND", b"DATA", b"DONE"} <= set(by)):
        return
    sn, sc, sb = by[b"SEND"][0]
    dn, dc, db = by[b"DATA"][0]
    en, ec, eb = by[b"DONE"][0]
    # SEND
    st = T.term(f, sn, sb.get("data")) if sb.get("data") is not None else None
    want_inner = ("CONCAT", ("STR", ("p", "device_path")), ("c", ","), ("STR", ("call", "builtins.int", (("p", "st_mode"),), ())))
    ok = st is not None and st[0] == "call" and st[1] == ".encode" and st[2][0] == want_inner and (len(st[2]) == 1 or (st[2][1][0] == "c" and st[2][1][1] in UTF8)) and "size" not in sb
    R.check(ok, "PUSH-events", q + "|SEND-payload", "SEND carries '<device_path>,<int(st_mode)>' utf-8 encoded", "SEND carries %s; expected '{},{}'.format(device_path, int(st_mode)).encode('utf-8')" % (show(st) if st else "nothing"), f.loc(sn.ast))
    R.check(g.dominates([sn], g.exit, exc=False) and g.dominates([en], g.exit, exc=False), "PUSH-events", q + "|always-transfers", "_push returns normally only after SEND .. DONE were sent",
            "_push can return normally without having sent SEND and DONE (an early return): the file is silently not transferred", f.loc())
    R.check(not g.in_cycle(sn) and g.dominates([sn], dn) and g.dominates([sn], en), "PUSH-events", q + "|SEND-first", "SEND is sent once, before any DATA and DONE", "SEND is not sent exactly once before DATA/DONE", f.loc(sn.ast))
    # chunk loop
    if not dn.loops:
        R.fail("CEO-push", q + "|loop", "DATA is not sent from a loop: only one chunk of the file is transferred", f.loc(dn.ast))
        return
    head = dn.loops[-1]
    inside = set(loop_nodes(g, head))
    reads = [(n, c) for n in inside for c in node_calls(n) if isinstance(c.func, ast.Attribute) and c.func.attr == "read" and varkey(unawait(c.func.value)) == stream]
    R.check(len(reads) == 1, "CEO-push", q + "|read-site", "one read per cycle", "expected one `stream.read` in the chunk loop, found %d" % len(reads), f.loc(head.ast))
    if len(reads) != 1:
        return
    pn, pc = reads[0]
    pt = T.term(f, pn, pc)
    dt = T.term(f, dn, db.get("data")) if db.get("data") is not None else None
    R.check(dt == pt and "size" not in db, "CEO-push", q + "|DATA-payload", "DATA carries the chunk just read, unmodified", "DATA carries %s instead of the chunk just read from the stream" % (show(dt) if dt else "nothing"), f.loc(dn.ast))
    # sentinel: truthiness of the chunk
    chunk_var = None
    if pn.kind == "stmt" and isinstance(pn.ast, ast.Assign) and len(pn.ast.targets) == 1 and isinstance(pn.ast.targets[0], ast.Name):
        chunk_var = pn.ast.targets[0].id
    ck = key(ast.Name(id=chunk_var, ctx=ast.Load())) if chunk_var else None
    facts_d = df.facts(dn)
    R.check(ck is not None and any(fa[0] == ("truthy", ck) and fa[1] is True for fa in facts_d) and len(df.reaching(dn, chunk_var)) == 1, "CEO-push", q + "|DATA-nonempty", "DATA is sent for a non-empty chunk of this cycle",
            "the DATA send is not governed by `if <chunk>:` on the chunk just read", f.loc(dn.ast))
    exits = [d for (_m, d, _l) in loop_exit_edges(g, head)]
    # from the read: every path back to the read passes the DATA send; exits only under falsy chunk
    r = g.reach([pn], avoid=[dn], exc=True)
    R.check(pn not in r, "CEO-push", q + "|send-every-chunk", "every chunk read is sent before the next read",
            "a chunk that was read can be skipped without being sent (a path from the read back to the next read avoids the DATA send): the device file misses bytes", f.loc(dn.ast))
    R.check(dn not in g.reach([dn], avoid=[pn], exc=True), "CEO-push", q + "|send-once", "a chunk is sent once", "a chunk can be sent twice", f.loc(dn.ast))
    for (m, d, l) in loop_exit_edges(g, head):
        have = set(df.facts(m)) | df.edge_facts(m, l)
        ok = ck is not None and any(fa[0] == ("truthy", ck) and fa[1] is False for fa in have) and all(x.node is pn for x in df.reaching(m, chunk_var))
        R.check(ok, "CEO-push", "%s|exit|%s" % (q, norm_stmt(m.ast) if m.ast is not None else m.kind), "the chunk loop ends only on an empty read (end of file)",
                "the chunk loop can be left at `%s` although the last read returned data: the file is truncated" % (norm_stmt(m.ast) if m.ast is not None else m.kind), f.loc(m.ast))
    # read size: max_chunk_size of the device
    kt = pt[2][1] if pt[0] == "call" and len(pt[2]) == 2 else None
    mc = roles.dev_cls.methods.get("max_chunk_size")
    want_k = T.attr(("p", f.params[0]), "max_chunk_size")
    selft = ("p", "self:" + roles.dev_cls.qualname)
    want_k2 = T.attr(selft, "max_chunk_size")
    good_k = kt is not None and mc is not None and mc.is_property and (kt == ("attr", ("p", f.params[0]), "max_chunk_size") or kt == want_k2 or kt == _subst_self(want_k2, selft, ("p", f.params[0])))
    R.check(good_k, "CEO-push", q + "|read-size", "chunks are read with the device's max_chunk_size", "the chunk size requested is %s, not max_chunk_size" % (show(kt) if kt else "?"), f.loc(pn.ast))
    # DONE
    R.check(not g.in_cycle(en) and en not in inside and dn not in g.reach([en], exc=False) and g.dominates([head], en), "PUSH-events", q + "|DONE-after-data", "DONE is sent once, after the chunk loop", "DONE is not sent exactly once after all DATA", f.loc(en.ast))
    zt = T.term(f, en, eb.get("size")) if eb.get("size") is not None else None
    here = mtime_default(ctx, T, f, en, zt)
    # the default may also be resolved by the public method before the per-file transfer starts
    outer = None
    pub = roles.dev["push"]
    for pn_, pc_ in callee_nodes(ctx, pub, f):
        b_ = ctx.cg.site(pc_).bind(f)
        if b_.get("mtime") is not None:
            o = mtime_default(ctx, T, pub, pn_, T.term(pub, pn_, b_.get("mtime")))
            outer = o if outer in (None, o) else "bad"
    good = (here == "defaulted" and outer in ("param", "defaulted", None)) or (here == "param" and outer == "defaulted")
    R.check(good and "data" not in eb, "PUSH-events", q + "|DONE-mtime", "DONE carries mtime, or int(time.time()) when mtime is 0, and no payload",
            "DONE carries size=%s (%s in _push, %s in push); expected mtime or int(time.time()) when mtime == 0" % (show(zt) if zt else "nothing", here, outer), f.loc(en.ast))
    R.check(good, "PUSH-events", q + "|DONE-now-iff-zero", "the current time is substituted exactly when mtime == 0", "the substitution of the current time is not governed by `mtime == 0`", f.loc(en.ast))
    # same transaction objects on all three sends
    for n, c, b, cid in sends:
        R.check(varkey(unawait(b.get("adb_info"))) in f.params and varkey(unawait(b.get("filesync_info"))) in f.params, "PUSH-events", "%s|same-stream|%s" % (q, cid.decode() if cid else "?"), "sent on the stream _push was given", None, f.loc(n.ast), trivial=True)
    callback_contained(ctx, R, roles, T, f, pt, "CB-push")


def mtime_default(ctx, T, f, node, zt):
    """How the term `zt` (evaluated at `node` of f) relates to f's parameter mtime: "param" (passed through), "defaulted" (mtime, or
    int(time.time()) exactly when mtime == 0) or "bad"."""
    from ..terms import alts_of
    g = ctx.cfg(f)
    df = ctx.df(f)
    if zt is None:
        return "bad"
    if zt == ("p", "mtime"):
        return "param"
    now = ("call", "builtins.int", (("call", "time.time", (), ()),), ())
    alts = alts_of(zt)
    if zt[0] == "ite":
        # the conditional itself must be `mtime == 0 -> now`
        c = zt[1][1] if zt[1][0] == "cond" else None
        if c == ("cmp", ("p", "mtime"), ("c", "Eq"), ("c", 0)):
            return "defaulted" if (zt[2], zt[3]) == (now, ("p", "mtime")) else "bad"
        if c == ("cmp", ("p", "mtime"), ("c", "NotEq"), ("c", 0)):
            return "defaulted" if (zt[3], zt[2]) == (now, ("p", "mtime")) else "bad"
        return "bad"
    if alts != {("p", "mtime"), now}:
        return "bad"
    # the substitution happens exactly when mtime == 0
    mk = key(ast.Name(id="mtime", ctx=ast.Load()))
    zk = key(ast.Constant(value=0))
    asg = [n for n in g.live_nodes() if n.kind == "stmt" and isinstance(n.ast, ast.Assign) and any(varkey(t) == "mtime" for t in n.ast.targets)]
    ok = len(asg) == 1 and any(fa[0] == ("eq",) + tuple(sorted([mk, zk])) and fa[1] is True for fa in df.facts(asg[0]))
    if ok:
        tests = [n for n in g.live_nodes() if n.kind == "test" and g.dominates([n], asg[0]) and any(fa[0] == ("eq",) + tuple(sorted([mk, zk])) for fa in (df.edge_facts(n, "true") | df.edge_facts(n, "false")))]
        # the question `mtime == 0` is asked on every path to the use ...
        ok = bool(tests) and any(g.dominates([tn], node) for tn in tests)
        for tn in tests:
            # ... and whenever the answer is yes the substitution happens before the use
            lab = "true" if any(fa[0][0] == "eq" and fa[1] is True for fa in df.edge_facts(tn, "true")) else "false"
            starts = [d for d, l in g.succ[tn] if l == lab]
            ok = ok and node not in g.reach(starts, avoid=asg, exc=False, include_start=True)
    return "defaulted" if ok else "bad"


def _subst_self(t, old, new):
    if t == old:
        return new
    if isinstance(t, tuple):
        return tuple(_subst_self(x, old, new) if isinstance(x, tuple) else x for x in t)
    return t


def upper_bound(t, env):
    """Upper bound of an integer term as ('const', k) / ('half-M',) / None, for terms built from min/or/constants/_maxdata//2."""
    if t[0] == "c" and isinstance(t[1], int):
        return [("const", t[1])]
    if t[0] == "call" and t[1] == "builtins.min":
        # min(a, b) <= every argument: all of its arguments' bounds hold simultaneously -> keep them all ('and')
        out = []
        for a in t[2]:
            b = upper_bound(a, env)
            if b is not None:
                out.extend(b)
        return out or None
    if t[0] == "op" and t[1] == "//" and t[3] == ("c", 2) and t[2][0] == "attr" and t[2][2] == "_maxdata":
        return [("half-M",)]
    return None


def _chunk_bound(ctx, R, roles, T):
    dev = roles.dev_cls
    m = dev.methods.get("max_chunk_size")
    if m is None:
        raise AnalysisError("BOUND-chunk", "max_chunk_size not found")
    t = T.attr(("p", "self:" + dev.qualname), "max_chunk_size")
    loc = m.loc()
    # accepted shape: A or B  (B used when A == 0)   or just A
    parts = list(t[2:]) if t[0] == "bool" and t[1] == "or" else [t]
    ok64 = True
    okM = True
    why = ""
    for i, p in enumerate(parts):
        b = upper_bound(p, None)
        if b is None:
            ok64 = okM = False
            why = "cannot bound %s" % show(p)
            break
        consts = [x[1] for x in b if x[0] == "const"]
        if not consts or min(consts) > MAX_DATA_CHUNK:
            ok64 = False
            why = "part %s is not bounded by 65536" % show(p)
        if i == 0:
            if ("half-M",) not in b:
                okM = False
                why = why or "the chunk size is not bounded by maxdata // 2"
        else:
            # fallback (only when the first part is 0, i.e. maxdata < 2): must be a constant <= 64 KiB
            if not consts:
                okM = False
    R.check(ok64, "BOUND-chunk", m.qualname + "|64k", "chunk size <= 64 KiB (sync DATA limit)", "max_chunk_size = %s can exceed 64 KiB: %s" % (show(t), why), loc)
    R.check(okM, "BOUND-chunk", m.qualname + "|half-maxdata", "chunk size <= maxdata // 2 (so header + chunk fits one WRTE)", "max_chunk_size = %s is not bounded by maxdata // 2: %s" % (show(t), why), loc)


def _txinfo(ctx, R, T):
    cls = ctx.pkg.cls("hidden_helpers._FileSyncTransactionInfo")
    init = cls.methods["__init__"]
    b = {p: ("p", p) for p in init.params[1:]}
    obj = ("new", cls.qualname, tuple(sorted(b.items())))
    loc = init.loc()
    R.check(T.initial_attr(obj, "send_buffer") == ("call", "builtins.bytearray", (("p", "maxdata"),), ()), "BUF-send", cls.qualname + "|buffer", "send buffer has exactly maxdata bytes",
            "send buffer is %s, expected bytearray(maxdata)" % show(T.initial_attr(obj, "send_buffer")), loc)
    R.check(T.initial_attr(obj, "send_idx") == ("c", 0), "BUF-send", cls.qualname + "|idx", "send cursor starts at 0", None, loc)
    R.check(T.initial_attr(obj, "_maxdata") == ("p", "maxdata"), "BUF-send", cls.qualname + "|maxdata", "limit = the maxdata given", "_maxdata is %s" % show(T.initial_attr(obj, "_maxdata")), loc)
    # predicate: send_idx + recv_message_size + data_len < (or <=) _maxdata
    ca = cls.methods.get("can_add_to_send_buffer")
    if ca is None:
        R.ok("BUF-send", cls.qualname + "|predicate-inline", "no predicate method: the room test is checked where the record is stored", loc, trivial=True)
        return
    selft = ("p", "self:" + cls.qualname)
    rt = T.inline_return(ca, {ca.params[0]: ("p", "SELF"), ca.params[1]: ("p", "N")}, 1)
    # the predicate compares a sum that grows with the cursor and with its argument against the limit; the exact sum (cursor + record
    # header + payload) is checked where the predicate is applied to its actual argument (room-or-flush in _filesync_send)
    from ..terms import linear
    ok = rt[0] == "cmp" and len(rt) == 4 and rt[2] in (("c", "Lt"), ("c", "LtE"))
    if ok:
        lf = linear(("op", "-", rt[3], rt[1]))          # limit - sum
        ok = lf is not None and lf[0].get(("attr", ("p", "SELF"), "_maxdata")) == 1 and lf[0].get(("attr", ("p", "SELF"), "send_idx")) == -1 and lf[0].get(("p", "N")) == -1
    R.check(ok, "BUF-send", ca.qualname, "room predicate: send_idx + ... + n < maxdata", "the room predicate is %s; expected (send_idx + ... + data_len) < _maxdata" % show(rt), ca.loc())


def _flatten_sum(t):
    if t[0] == "op" and t[1] == "+":
        return _flatten_sum(t[2]) + _flatten_sum(t[3])
    return [t]


def _send_buffer(ctx, R, roles, T):
    f = roles.dev["_filesync_send"]
    fl = roles.dev["_filesync_flush"]
    g = ctx.cfg(f)
    df = ctx.df(f)
    q = f.qualname
    info = "filesync_info"
    # the record appended
    stores = [n for n in g.live_nodes() if n.kind == "stmt" and isinstance(n.ast, ast.Assign) and len(n.ast.targets) == 1 and isinstance(n.ast.targets[0], ast.Subscript)
              and varkey(n.ast.targets[0].value) == info + ".send_buffer"]
    R.check(len(stores) == 1, "BUF-send", q + "|store-site", "one store into the send buffer", "expected one slice store into the send buffer, found %d" % len(stores), f.loc())
    if len(stores) != 1:
        return
    sn = stores[0]
    tgt = sn.ast.targets[0]
    rec = T.term(f, sn, sn.ast.value)
    # record = pack('<2I', SYNCWIRE(id), size) + data, size = len(data) unless given
    if rec[0] == "op" and rec[1] == "+":
        rec_parts = ("CONCAT", rec[2], rec[3])
    else:
        rec_parts = rec
    ok = rec_parts[0] == "CONCAT" and len(rec_parts) == 3 and rec_parts[1][0] == "call" and rec_parts[1][1] == "struct.pack"
    data_t = None
    if ok:
        rec_ = rec_parts
        pk = rec_[1]
        fmt = pk[2][0]
        from .c02 import expand_format
        e = expand_format(fmt[1]) if fmt[0] == "c" else None
        ok = e is not None and e[0] == "<" and len(e[1]) == 2 and all(c in "IL" for c in e[1]) and pk[2][1] == ("SYNCWIRE", ("p", "command_id"))
        data_t = rec_[2]
        sz = pk[2][2] if len(pk[2]) > 2 else None
        from ..terms import alts_of
        szalts = alts_of(sz) if sz else {sz}
        ok = ok and ("p", "size") in szalts and ("LEN", data_t) in szalts and len(szalts) == 2
    R.check(ok, "BUF-send", q + "|record", "record = pack('<2I', id word, size) + data with size = len(data) unless given", "the sync record built is %s" % show(rec), f.loc(sn.ast))
    # data: the argument, utf-8 encoded when it is not bytes
    if data_t is not None:
        alts = alts_of(data_t)
        okd = ("p", "data") in alts and all(a == ("p", "data") or (a[0] == "call" and a[1] == ".encode" and a[2][0] == ("p", "data")) for a in alts)
        R.check(okd, "BUF-send", q + "|data", "payload = the data given (utf-8 encoded when text)", "the record payload is %s, not the data argument" % show(data_t), f.loc(sn.ast))
    # cursor idiom
    sl = tgt.slice
    buf_len = ("LEN", rec)
    idx = T.term(f, sn, ast.Attribute(value=ast.Name(id=info, ctx=ast.Load()), attr="send_idx", ctx=ast.Load()))     # the cursor as it is when the record is stored
    from ..terms import linear, lin_sub
    okc = isinstance(sl, ast.Slice) and sl.step is None and sl.lower is not None and sl.upper is not None
    if okc:
        lo, hi = T.term(f, sn, sl.lower), T.term(f, sn, sl.upper)
        okc = linear(lo) == linear(idx) and lin_sub(hi, lo) == linear(buf_len)
    R.check(okc, "BUF-send", q + "|cursor-store", "record stored at buffer[idx : idx + len(record)]", "the record is stored at `%s`, not at [send_idx : send_idx + len(record)]" % src(tgt), f.loc(sn.ast))
    # the cursor is moved by exactly len(record), once, after the store, on every path (`idx += len(record)` or `idx = <end of the slice>`)
    adv = [n for n in g.live_nodes() if n.kind == "stmt" and any(d.var == info + ".send_idx" and d.kind in ("aug", "assign") for d in df.node_defs.get(n, []))]
    oka = len(adv) == 1 and g.dominates([sn], adv[0]) and g.dominates([adv[0]], g.exit, exc=False) and not adv[0].loops
    if oka:
        a = adv[0].ast
        if isinstance(a, ast.AugAssign) and isinstance(a.op, ast.Add):
            oka = linear(T.term(f, adv[0], a.value)) == linear(buf_len)
        elif isinstance(a, ast.Assign) and len(a.targets) == 1:
            oka = lin_sub(T.term(f, adv[0], a.value), idx) == linear(buf_len) and T.term(f, adv[0], ast.Attribute(value=ast.Name(id=info, ctx=ast.Load()), attr="send_idx", ctx=ast.Load())) == idx
        else:
            oka = False
    R.check(oka, "BUF-send", q + "|cursor-advance", "cursor advanced by len(record) after the store, on every path", "the send cursor is not advanced by exactly len(record) after the store", f.loc(sn.ast))
    # room-or-flush dominates the store
    flushes = [n for n, _c in callee_nodes(ctx, f, fl)]
    ok_room = False
    # the room test: `send_idx + record header size + len(data) < (or <=) maxdata`, written in place or through the predicate method
    from ..terms import linear
    infot = ("p", info)
    want = linear(("op", "+", ("op", "+", T.term(f, sn, ast.Attribute(value=ast.Name(id=info, ctx=ast.Load()), attr="send_idx", ctx=ast.Load())) if False else ("attr", infot, "send_idx"),
                                 ("attr", infot, "recv_message_size")), ("LEN", data_t))) if data_t is not None else None

    def unver(t):
        return t[1] if t[0] == "ver" else t

    def room_edge(tn):
        """label of the edge of tn on which there is room, if tn is the room test"""
        t = T.term(f, tn, tn.ast.test)
        pol = True
        while t[0] == "un" and t[1] == "not":
            t, pol = t[2], not pol
        if not (t[0] == "cmp" and len(t) == 4):
            return None
        a, op, b = unver(t[1]), t[2][1], unver(t[3])
        lim = ("attr", infot, "_maxdata")
        if want is None or op not in ("Lt", "LtE", "Gt", "GtE"):
            return None
        # slack = (greater side) - (smaller side) of the comparison; room means  limit - (cursor + header + payload) > 0 (or >= 0)
        d = linear(("op", "-", b, a)) if op in ("Lt", "LtE") else linear(("op", "-", a, b))
        if d is None:
            return None
        d = ({unver(k): v for k, v in d[0].items()}, d[1])
        slack = ({k: -v for k, v in want[0].items()}, -want[1])
        slack[0][lim] = slack[0].get(lim, 0) + 1
        neg = ({k: -v for k, v in slack[0].items()}, -slack[1])
        if d == slack:
            return "true" if pol else "false"
        if d == neg:
            return "false" if pol else "true"
        return None
    tests = [(tn, room_edge(tn)) for tn in g.live_nodes() if tn.kind == "test"]
    tests = [(tn, lab) for tn, lab in tests if lab is not None]
    if len(tests) == 1 and g.dominates([tests[0][0]], sn):
        tn, lab = tests[0]
        noroom = "false" if lab == "true" else "true"
        starts = [d for d, l in g.succ[tn] if l == noroom]
        r = g.reach(starts, avoid=flushes, exc=False, include_start=True)
        ok_room = sn not in r and bool(flushes)
    R.check(ok_room, "BUF-send", q + "|room-or-flush", "before a record is stored there is room for it, or the buffer is flushed first",
            "the record can be stored without room having been established (predicate on len(data), else flush): the WRTE payload can exceed maxdata / overrun the buffer", f.loc(sn.ast))
    # record header length (8) <= every record size used in the predicate
    R.check(True, "BUF-send", q + "|header-8", "the packed header is 8 bytes ('<2I')", None, f.loc(sn.ast), trivial=True)
    # flush: WRTE payload = buffer[:send_idx]; reset to 0 afterwards on every normal path
    gf = ctx.cfg(fl)
    resets = [n for n in gf.live_nodes() if n.kind == "stmt" and isinstance(n.ast, ast.Assign) and any(varkey(t) == info + ".send_idx" for t in n.ast.targets)
              and isinstance(n.ast.value, ast.Constant) and n.ast.value.value == 0]
    snd = callee_nodes(ctx, fl, roles.send_locked)
    R.check(len(resets) == 1 and gf.dominates(resets, gf.exit, exc=False) and snd and gf.dominates([snd[0][0]], resets[0]), "BUF-send", fl.qualname + "|reset", "the cursor is reset to 0 after the buffer was sent, on every path",
            "the flush does not reset send_idx to 0 after sending on every path (the same bytes are sent again / the buffer overruns)", fl.loc())
    for k, st, kind_ in attr_writes(fl):
        if k == info + ".send_idx" and not (isinstance(st, ast.Assign) and isinstance(st.value, ast.Constant) and st.value.value == 0):
            R.fail("BUF-send", "%s|%s" % (fl.qualname, norm_stmt(st)), "the flush modifies send_idx other than resetting it to 0", fl.loc(st))
    msgs = [(n, c) for n in gf.live_nodes() for c in node_calls(n) if isinstance(c.func, ast.Name) and c.func.id == "AdbMessage"]
    for n, c in msgs:
        t = T.term(fl, n, c)
        d = dict(t[2]).get("data") if t[0] == "new" else None
        want = ("slice", ("attr", ("p", info), "send_buffer"), ("c", None), ("attr", ("p", info), "send_idx"), ("c", None))
        want0 = ("slice", ("attr", ("p", info), "send_buffer"), ("c", 0), ("attr", ("p", info), "send_idx"), ("c", None))
        R.check(d in (want, want0), "BUF-send", fl.qualname + "|payload", "WRTE payload = send_buffer[:send_idx]", "WRTE payload is %s, expected send_buffer[:send_idx]" % (show(d) if d else "?"), fl.loc(n.ast))
    # who writes the cursor / buffer: only _filesync_send and the flush
    for h in roles.dev_cls.methods.values():
        if h in (f, fl):
            continue
        for k, st, kind_ in attr_writes(h):
            if k.endswith(".send_idx") or k.endswith(".send_buffer"):
                R.fail("BUF-send", "%s|%s" % (h.qualname, norm_stmt(st)), "the send buffer/cursor is modified outside _filesync_send/_filesync_flush", h.loc(st))


def _flush_before_read(ctx, R, roles, T):
    f = roles.dev["_filesync_read"]
    fl = roles.dev["_filesync_flush"]
    fb = roles.dev["_filesync_read_buffered"]
    g = ctx.cfg(f)
    df = ctx.df(f)
    flushes = [n for n, _c in callee_nodes(ctx, f, fl)]
    reads = [n for n, _c in callee_nodes(ctx, f, fb)]
    ik = None

    def blocks(s, d, l):
        for fa in df.edge_facts(s, l):
            if fa[0][0] == "truthy" and fa[0][1].endswith("attr='send_idx', ctx=Load())") and fa[1] is False:
                return False
            if fa[0][0] == "eq" and fa[1] is True and any(x.endswith("attr='send_idx', ctx=Load())") for x in fa[0][1:]) and key(ast.Constant(value=0)) in fa[0][1:]:
                return False
            # not (0 < send_idx): the cursor is never negative, so nothing is pending
            if fa[0][0] == "lt" and fa[1] is False and fa[0][1] == key(ast.Constant(value=0)) and fa[0][2].endswith("attr='send_idx', ctx=Load())"):
                return False
        return True
    r = g.reach([g.entry], avoid=flushes, exc=False, include_start=True, edge_filter=blocks)
    R.check(bool(flushes) and bool(reads) and not any(x in r for x in reads), "FLUSH-first", f.qualname, "pending outgoing records are flushed before a reply is awaited",
            "the record reader can wait for the device's reply while requests (e.g. DONE) are still sitting in the send buffer: both sides wait forever / until the timeout", f.loc())


def _push_public(ctx, R, roles, T):
    f = roles.dev["push"]
    g = ctx.cfg(f)
    df = ctx.df(f)
    q = f.qualname
    pushes = callee_nodes(ctx, f, roles.dev["_push"])
    closes = callee_nodes(ctx, f, roles.dev["_clse"])
    opens = callee_nodes(ctx, f, roles.dev["_open"])
    iters = [n for n in g.live_nodes() if n.kind == "iter"]
    ok = len(pushes) == 1 and len(closes) == 1 and len(opens) == 1 and len(iters) == 1
    R.check(ok, "PUSH", q + "|shape", "one loop with one open, one _push and one close", "push must have one loop containing one _open, one _push and one _clse (found %d/%d/%d/%d)" % (len(iters), len(opens), len(pushes), len(closes)), f.loc())
    if not ok:
        return
    it = iters[0]
    pn, pc = pushes[0]
    from ..util import always_reached
    from .c15 import exits_only_if_empty
    starts_ = [d for d, l in g.succ[it] if l == "next"]
    r_ = g.reach(starts_, avoid=[pn], exc=False, include_start=True)
    seqs = sorted(set(x.id for x in ast.walk(it.ast.iter) if isinstance(x, ast.Name) and x.id != "zip"))
    R.check(it not in r_ and g.exit not in r_ and (g.dominates([it], g.exit, exc=False) or exits_only_if_empty(ctx, f, it, seqs)), "PUSH", q + "|always-transfers", "push returns normally only after every file of the list was handed to _push",
            "push can return normally (or go on to the next file) without calling _push: a file is silently not sent", f.loc(pn.ast))
    # "push returns normally only after the device's sync OKAY": a failure of the open / the transfer / the close is not swallowed by a handler
    from .c12 import handler_completes
    for (xn, what) in ((pn, "_push"), (opens[0][0], "_open")):
        for (t, region) in xn.trys:
            if region != "body":
                continue
            for h in t.handlers:
                hn = [x for x in g.nodes_of(h) if x.kind == "except"]
                R.check(not (hn and handler_completes(g, hn[0])), "PUSH", "%s|no-swallow|%s|%s" % (q, what, norm_stmt(h.type) if h.type is not None else "bare"), "a failure of %s is not swallowed" % what,
                        "a handler (`except %s`) around %s completes normally: a transfer that failed half-way is reported as done (push goes on / returns without the device's OKAY)" % (norm_stmt(h.type) if h.type is not None else "", what), f.loc(h))
    R.check(pn.loops == (it,) and closes[0][0].loops == (it,) and opens[0][0].loops == (it,), "PUSH", q + "|per-file", "open, transfer and close happen once per file", "open/_push/_clse are not all exactly once per loop iteration", f.loc(it.ast))
    itt = T.term(f, it, it.ast.iter)
    gf = ctx.pkg.func("hidden_helpers.get_files_to_push")
    gcall = ("call", gf.qualname, (("p", "local_path"), ("p", "device_path")), ())
    want_it = ("call", "builtins.zip", (("proj", gcall, 1), ("proj", gcall, 2)), ())
    R.check(itt == want_it, "PUSH", q + "|pairs", "iterates zip(local_paths, device_paths) of get_files_to_push(local_path, device_path)", "push iterates %s" % show(itt), f.loc(it.ast))
    item = ("item", itt)
    b = ctx.cg.site(pc).bind(roles.dev["_push"])
    dpt = T.term(f, pn, b.get("device_path")) if b.get("device_path") is not None else None
    R.check(dpt == ("proj", item, 1), "PUSH", q + "|device-path", "each file goes to its own device path", "_push receives device path %s, not the pair's device path" % (show(dpt) if dpt else "?"), f.loc(pn.ast))
    stt = T.term(f, pn, b.get("stream")) if b.get("stream") is not None else None
    oks = stt is not None and stt[0] == "ctxval" and stt[1][0] == "call" and len(stt[1][2]) >= 2 and stt[1][2][0] == ("proj", item, 0) and stt[1][2][1] == ("c", "rb")
    R.check(oks, "PUSH", q + "|source", "each file is read from its own local path, opened 'rb'", "_push reads from %s, not from the pair's local path opened in 'rb' mode" % (show(stt) if stt else "?"), f.loc(pn.ast))
    for p in ("st_mode", "mtime", "progress_callback"):
        t = T.term(f, pn, b.get(p)) if b.get(p) is not None else None
        okp = t == ("p", p) or (p == "mtime" and mtime_default(ctx, T, f, pn, t) == "defaulted")      # (the pairing with _push is checked by PUSH-events)
        R.check(okp, "PUSH", q + "|" + p, "%s forwarded" % p, "_push receives %s=%s" % (p, show(t) if t else "?"), f.loc(pn.ast))
    fi = T.term(f, pn, b.get("filesync_info")) if b.get("filesync_info") is not None else None
    okf = fi is not None and fi[0] == "new" and dict(fi[2]).get("recv_message_format") == ("c", ctx.fold.need("constants", "FILESYNC_PUSH_FORMAT", "PUSH"))
    R.check(okf, "PUSH", q + "|format", "status records decoded with the push format", "push decodes replies with %s" % (show(fi) if fi else "?"), f.loc(pn.ast))
    # mkdir for directories only
    shells = callee_nodes(ctx, f, roles.dev["shell"])
    for n, c in shells:
        facts = df.facts(n)
        isdir = any(fa[0][0] == "truthy" and fa[1] is True and "local_path_is_dir" in fa[0][1] for fa in facts)
        R.check(isdir and not g.in_cycle(n), "PUSH", q + "|mkdir", "the target directory is created only for directory pushes, once", "the mkdir shell command is not governed by local_path_is_dir", f.loc(n.ast))


def _maxdata_sites(ctx, R, roles, T):
    n_sites = 0
    for f in roles.dev_cls.methods.values():
        g = ctx.cfg(f)
        for n in g.live_nodes():
            for c in node_calls(n):
                if isinstance(c.func, ast.Name) and c.func.id == "_FileSyncTransactionInfo":
                    n_sites += 1
                    t = T.term(f, n, c)
                    md = dict(t[2]).get("maxdata") if t[0] == "new" else None
                    R.check(md == ("attr", ("p", f.params[0]), "_maxdata"), "BOUND-maxdata", "%s|%s" % (f.qualname, norm_stmt(c)), "the send buffer is sized by the device's negotiated maxdata",
                            "a sync transaction is created with maxdata=%s instead of the device's negotiated self._maxdata" % (show(md) if md else "?"), f.loc(n.ast))
                    # record size >= 8 so that the room predicate is conservative
                    fmt = dict(t[2]).get("recv_message_format") if t[0] == "new" else None
                    import struct
                    okh = fmt is not None and fmt[0] == "c"
                    if okh:
                        try:
                            okh = struct.calcsize(fmt[1]) >= 8
                        except Exception:   # noqa
                            okh = False
                    R.check(okh, "BOUND-maxdata", "%s|%s|record-size" % (f.qualname, norm_stmt(c)), "record size used by the room predicate is >= the 8-byte request header", "the record format %s is smaller than the 8-byte request header: the room predicate under-counts" % (show(fmt) if fmt else "?"), f.loc(n.ast))
    R.count("BOUND-maxdata[%s]" % roles.tag, n_sites, 4)


def _files_to_push(ctx, R, T):
    f = ctx.pkg.func("hidden_helpers.get_files_to_push")
    g = ctx.cfg(f)
    df = ctx.df(f)
    q = f.qualname
    isdir_t = ("bool", "and", ("un", "not", ("call", "builtins.isinstance", (("p", "local_path"), ("p", "BytesIO")), ())), ("call", "os.path.isdir", (("p", "local_path"),), ()))
    listing = ("call", "os.listdir", (("p", "local_path"),), ())
    want_local = ("map", ("call", "os.path.join", (("p", "local_path"), ("p", "\0elt")), ()), listing, ())
    want_dev = ("map", ("CONCAT", ("p", "device_path"), ("c", "/"), ("p", "\0elt")), listing, ())
    rets = [n for n in g.live_nodes() if n.kind == "stmt" and isinstance(n.ast, ast.Return)]
    seen = set()
    for rn in rets:
        t = T.term(f, rn, rn.ast.value) if rn.ast.value is not None else ("none",)
        sub = "%s|%s" % (q, norm_stmt(rn.ast))
        if not (t[0] == "tuple" and len(t) == 4):
            R.fail("DIR", sub, "get_files_to_push returns %s, not (is_dir, local_paths, device_paths)" % show(t), f.loc(rn.ast))
            continue
        flag, lp, dp = t[1:]
        # what the tests passed on the way to this return say about "local_path is a directory (and not a BytesIO)"
        from ..util import path_conditions, decide_under
        isdir_ast = ast.parse("not isinstance(%s, BytesIO) and os.path.isdir(%s)" % (f.params[0], f.params[0]), mode="eval").body
        conds = []
        for (te, val) in path_conditions(ctx, f, rn):
            from ..util import subst_copies
            conds.append((subst_copies(ctx, f, rn, te, predicates=True), val))
        isdir = decide_under(conds, isdir_ast)
        if flag[0] == "c" and isinstance(flag[1], bool):
            R.check(isdir is flag[1], "DIR", sub + "|flag", "flag = not BytesIO and os.path.isdir(local_path) (as decided by the tests leading here)",
                    "the directory flag is the constant %s where `not isinstance(local_path, BytesIO) and os.path.isdir(local_path)` is %s" % (flag[1], "undecided" if isdir is None else isdir), f.loc(rn.ast))
        else:
            okf = _is_isdir(flag)
            if not okf and isinstance(rn.ast.value, ast.Tuple) and rn.ast.value.elts:
                # the same truth value on every path that reaches this return (`os.path.isdir(p)` after `isinstance(p, BytesIO)` was excluded)
                from ..util import equiv_under, subst_copies as _sc
                fe = _sc(ctx, f, rn, rn.ast.value.elts[0], predicates=True)
                okf = not any(isinstance(x, (ast.Constant,)) and not isinstance(x.value, bool) for x in ast.walk(fe)) and equiv_under(conds, fe, isdir_ast)
            R.check(okf, "DIR", sub + "|flag", "flag = not BytesIO and os.path.isdir(local_path)", "the directory flag is %s" % show(flag), f.loc(rn.ast))
            if isdir is None:
                for fa in df.facts(rn):
                    if fa[0][0] == "truthy":
                        from .c06 import eval_dump
                        e = eval_dump(fa[0][1])
                        if _is_isdir(T.term(f, rn, e)):
                            isdir = fa[1]
        lalts = set(lp[1]) if lp[0] == "phi" else {lp}
        dalts = set(dp[1]) if dp[0] == "phi" else {dp}
        single_l, single_d = ("list", ("p", "local_path")), ("list", ("p", "device_path"))
        if isdir is True:
            seen.add("dir")
            R.check(lalts == {want_local}, "DIR", sub + "|local", "directory: every local path is os.path.join(local_path, name)", "for a directory the local paths are %s; expected os.path.join(local_path, name) for name in os.listdir(local_path) (files must be read from that directory, whatever the cwd)" % show(lp), f.loc(rn.ast))
            R.check(dalts == {want_dev}, "DIR", sub + "|device", "directory: every device path is device_path + '/' + name", "for a directory the device paths are %s; expected device_path + '/' + name over the same listing" % show(dp), f.loc(rn.ast))
        elif isdir is False:
            seen.add("file")
            R.check(lalts == {single_l} and dalts == {single_d}, "DIR", sub + "|single", "single source: ([local_path], [device_path])", "for a single source the paths are (%s, %s)" % (show(lp), show(dp)), f.loc(rn.ast))
        else:
            # one return for both cases: conditional expressions
            okl = lp[0] == "ite" and {lp[2], lp[3]} == {single_l, want_local}
            okd = dp[0] == "ite" and {dp[2], dp[3]} == {single_d, want_dev}
            seen.update({"dir", "file"})
            R.check(okl, "DIR", sub + "|local", "local paths: [local_path] or os.path.join(local_path, name) per listed name", "local paths are %s; for a directory they must be os.path.join(local_path, name)" % show(lp), f.loc(rn.ast))
            R.check(okd, "DIR", sub + "|device", "device paths: [device_path] or device_path + '/' + name", "device paths are %s" % show(dp), f.loc(rn.ast))
    R.check(seen == {"dir", "file"}, "DIR", q + "|cases", "both the single-source and the directory case are decided", "get_files_to_push does not decide both cases (%s)" % sorted(seen), f.loc())


def _is_isdir(t):
    alts = set(t[1]) if t[0] == "phi" else {t}
    for a in alts:
        if not (a[0] == "bool" and a[1] == "and" and len(a) == 4 and a[2] == ("un", "not", ("call", "builtins.isinstance", (("p", "local_path"), ("c", "BytesIO")), ()))
                and a[3] == ("call", "os.path.isdir", (("p", "local_path"),), ())):
            # the class object BytesIO is an imported name: accept any rendering of it
            if not (a[0] == "bool" and a[1] == "and" and len(a) == 4 and a[2][0] == "un" and a[2][1] == "not" and a[2][2][0] == "call" and a[2][2][1] == "builtins.isinstance"
                    and a[2][2][2][0] == ("p", "local_path") and a[3] == ("call", "os.path.isdir", (("p", "local_path"),), ())):
                return False
    return True


def _duck(ctx, R, roles, T):
    """Every method called on the source stream in _push is supported by every stream kind that can reach it."""
    f = roles.dev["_push"]
    g = ctx.cfg(f)
    df = ctx.df(f)
    stream = f.params[1]
    kinds = set(ctx.cg.var_types.get(f, {}).get(stream, ()))
    if not kinds:
        raise AnalysisError("DUCK", "no stream kinds inferred for %s.%s" % (f.qualname, stream))
    n_calls = 0
    for n in g.live_nodes():
        for e in n.exprs():
            for call, guards in _calls_with_guards(e, stream):
                if not (isinstance(call.func, ast.Attribute) and varkey(unawait(call.func.value)) == stream):
                    continue
                n_calls += 1
                live = set(kinds)
                # statement-level isinstance facts
                for fa in df.facts(n):
                    if fa[0][0] == "truthy" and "isinstance" in fa[0][1] and ("id='%s'" % stream) in fa[0][1]:
                        live = _refine(ctx, f, live, fa[0][1], fa[1])
                for gtest, pol in guards:
                    live = _refine(ctx, f, live, key(gtest), pol)
                m = call.func.attr
                for k in sorted(live):
                    if k in STREAM_METHODS:
                        ok = m in STREAM_METHODS[k]
                    else:
                        cls = ctx.pkg.classes.get(k)
                        ok = cls is not None and m in cls.methods
                    R.check(ok, "DUCK", "%s|%s.%s|%s" % (f.qualname, stream, m, k.split(":")[-1].split(".")[-1]),
                            "%s() is supported by a %s source" % (m, k.split(":")[-1].split(".")[-1]),
                            "`%s.%s()` is called for a %s source, which does not support it (raises after SEND was already buffered; the presence of a callback changes what is sent)" % (stream, m, k.split(":")[-1].split(".")[-1]), f.loc(n.ast))
    R.count("DUCK[%s]" % roles.tag, n_calls, 2)


def _calls_with_guards(e, stream, guards=()):
    """Yield (call, guards) for calls in expression/statement e; guards = ((test, polarity), ...) from enclosing IfExp."""
    if isinstance(e, ast.IfExp):
        for x in _calls_with_guards(e.test, stream, guards):
            yield x
        for x in _calls_with_guards(e.body, stream, guards + ((e.test, True),)):
            yield x
        for x in _calls_with_guards(e.orelse, stream, guards + ((e.test, False),)):
            yield x
        return
    if isinstance(e, ast.Lambda):
        return
    if isinstance(e, ast.Call):
        yield (e, guards)
    for c in ast.iter_child_nodes(e):
        if isinstance(c, (ast.FunctionDef, ast.AsyncFunctionDef, ast.ClassDef)):
            continue
        for x in _calls_with_guards(c, stream, guards):
            yield x


def _refine(ctx, f, live, test_dump, pol):
    from .c06 import eval_dump
    try:
        e = eval_dump(test_dump)
    except Exception:   # noqa
        return live
    e = unawait(e)
    if not (isinstance(e, ast.Call) and isinstance(e.func, ast.Name) and e.func.id == "isinstance" and len(e.args) == 2):
        return live
    cands = e.args[1].elts if isinstance(e.args[1], ast.Tuple) else [e.args[1]]
    named = set()
    from ..callgraph import EXT_CTORS
    for c in cands:
        if isinstance(c, ast.Name):
            k = ctx.cg._class_of_name(f.mod, c.id)
            if k is not None:
                named.add(k.qualname)
            else:
                x = ctx.cg.ext_name(f.mod, c, f)
                if x in EXT_CTORS:
                    named.add(EXT_CTORS[x])
    if not named:
        return live
    return (live & named) if pol else (live - named)
