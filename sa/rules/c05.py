"""C05 - the CNXN/AUTH handshake follows the ADB authentication state machine.

Typestate over the CFG of the I/O manager's connect() with events SEND(cmd, a0, a1, data-term), READ(expected) ->
(cmd, arg0, maxdata, token), SIGN, CALLBACK, RETURN, RAISE: first packet CNXN(0x01000000, 1 MiB, host::banner NUL)
after transport.connect; every return is (True, maxdata of the latest read) with the command's value set reduced to
{CNXN}; no keys -> DeviceAuthError before the loop; the loop iterates the rsa_keys parameter itself, checks the
challenge type, signs the token of the latest read with the loop key, sends AUTH(2, 0, signature) and reads once per
key, continues only while the answer is not CNXN; the callback is outside the loop, reachable only after the keys are
exhausted, guarded by `is not None`, before AUTH(3, 0, pubkey(rsa_keys[0]) NUL); the auth timeout is installed
between that send and the final READ({CNXN}).  Device side: availability / maxdata bookkeeping.
Not decided: signature validity (C17), device choices.
HS-atomic: closing, clearing, transport.connect and the whole handshake are ONE critical section of the transport lock (nothing else reaches the new
connection before the CNXN); the public key is padded into a new object, never in place.
"""
import ast

from ..argrule import arg_rule
from ..loader import AnalysisError
from ..dataflow import key, varkey, unawait
from ..engine import terms
from ..roles import all_roles
from ..terms import show
from ..util import src, node_calls, call_attr, norm_stmt, attr_writes, fold_cmd_list
from .c06 import eval_dump
from .c15 import loop_nodes

LEVEL = "other"

VERSION = 0x01000000
MAXDATA = 1024 * 1024
AUTH_TOKEN, AUTH_SIGNATURE, AUTH_RSAPUBLICKEY = 1, 2, 3


class Ev(object):
    def __init__(self, kind, node, call=None, **kw):
        self.kind = kind
        self.node = node
        self.call = call
        self.__dict__.update(kw)


def events(ctx, roles, T, f):
    g = ctx.cfg(f)
    df = ctx.df(f)
    cg = ctx.cg
    out = []
    for n in g.live_nodes():
        for c in node_calls(n):
            cs = cg.site(c)
            if cs is not None and roles.send_primitive in cs.callees:
                arg = cs.bind(roles.send_primitive).get(roles.send_primitive.call_params[0])
                mt = T.term(f, n, arg) if arg is not None else ("missing",)
                out.append(Ev("SEND", n, c, msg=dict(mt[2]) if mt[0] == "new" else None, mterm=mt))
            elif cs is not None and roles.connect_reader in cs.callees:
                exp = fold_cmd_list(T, f, n, cs.bind(roles.connect_reader).get(roles.connect_reader.call_params[0]))
                binds = {}
                if n.kind == "stmt" and isinstance(n.ast, ast.Assign) and unawait(n.ast.value) is c and len(n.ast.targets) == 1 and isinstance(n.ast.targets[0], (ast.Tuple, ast.List)):
                    names = [varkey(t) for t in n.ast.targets[0].elts]
                    for i, t in enumerate(n.ast.targets[0].elts):
                        k = varkey(t)
                        if k and k != "_" and names.count(k) == 1:      # a name bound twice in one unpacking is a throw-away
                            binds[i] = k
                out.append(Ev("READ", n, c, expected=exp, binds=binds, term=T.term(f, n, c)))
            elif isinstance(c.func, ast.Attribute) and c.func.attr == "Sign":
                out.append(Ev("SIGN", n, c))
            elif isinstance(c.func, ast.Name) and c.func.id == "auth_callback" and "auth_callback" in f.params:
                out.append(Ev("CALLBACK", n, c))
            elif isinstance(c.func, ast.Attribute) and c.func.attr == "connect" and varkey(unawait(c.func.value)) == f.params[0] + "._transport":
                out.append(Ev("TCONNECT", n, c))
        if n.kind == "stmt" and isinstance(n.ast, ast.Return):
            out.append(Ev("RETURN", n))
        if n.kind == "stmt" and isinstance(n.ast, ast.Raise):
            out.append(Ev("RAISE", n))
    return out


def origin_defs(df, node, var, depth=0):
    """Reaching definitions of var at node, with plain copies (`x = y`) replaced by the definitions of what they copy."""
    out = set()
    for d in df.reaching(node, var):
        v = unawait(d.value) if d.kind == "assign" and d.value is not None and not d.path else None
        if isinstance(v, ast.Name) and depth < 4:
            out |= origin_defs(df, d.node, v.id, depth + 1)
        else:
            out.add(d)
    return out


def value_set(ctx, f, node, var, reads):
    """Possible commands of `var` at node: union of the expected sets of the READs defining it, refined by must-facts."""
    df = ctx.df(f)
    ds = origin_defs(df, node, var)
    vals = set()
    for d in ds:
        r = [e for e in reads if e.node is d.node and e.binds.get(0) == d.var and d.path == (0,)]
        if not r or r[0].expected is None:
            return None
        vals |= set(r[0].expected)
    vk = key(ast.Name(id=var, ctx=ast.Load()))
    for fa in df.facts(node):
        if fa[0][0] == "eq" and vk in fa[0][1:]:
            other = fa[0][2] if fa[0][1] == vk else fa[0][1]
            ok, v = ctx.fold.try_eval(eval_dump(other), f.mod, {})
            if ok and isinstance(v, bytes):
                if fa[1]:
                    vals &= {v}
                else:
                    vals -= {v}
    return vals


def fact_const_eq(ctx, f, node, var, const, polarity=True):
    df = ctx.df(f)
    vk = key(ast.Name(id=var, ctx=ast.Load()))
    for fa in df.facts(node):
        if fa[0][0] == "eq" and vk in fa[0][1:] and fa[1] is polarity:
            other = fa[0][2] if fa[0][1] == vk else fa[0][1]
            ok, v = ctx.fold.try_eval(eval_dump(other), f.mod, {})
            if ok and v == const and type(v) is type(const):
                return True
    return False


def check(ctx, R):
    T = terms(ctx)
    for roles in all_roles(ctx):
        _manager_connect(ctx, R, roles, T)
        _connect_reader(ctx, R, roles, T)
        _device_connect(ctx, R, roles, T)
        # "connect() first sends CNXN": nothing else reaches the new connection before it - reset, connect and handshake are one critical section
        from ..locks import LockInfo
        from .c12 import one_critical_section
        one_critical_section(ctx, R, roles, LockInfo(ctx, roles), "HS-atomic")
    arg_rule(ctx, R, "auth", "ARG-auth", min_count=4)
    R.assume("the signer objects implement Sign/GetPublicKey as documented (C17 checks the shipped ones)")
    R.undecided("that a signature is accepted depends on key material and the device; device choices are run-time")


def _manager_connect(ctx, R, roles, T):
    f = roles.io_connect
    g = ctx.cfg(f)
    df = ctx.df(f)
    evs = events(ctx, roles, T, f)
    sends = [e for e in evs if e.kind == "SEND"]
    reads = [e for e in evs if e.kind == "READ"]
    signs = [e for e in evs if e.kind == "SIGN"]
    cbs = [e for e in evs if e.kind == "CALLBACK"]
    rets = [e for e in evs if e.kind == "RETURN"]
    raises = [e for e in evs if e.kind == "RAISE"]
    tconn = [e for e in evs if e.kind == "TCONNECT"]
    q = f.qualname
    loc = f.loc()
    R.count("HS-sends[%s]" % roles.tag, len(sends), 3)
    R.count("HS-reads[%s]" % roles.tag, len(reads), 3)

    def cmd_of(e):
        return e.msg.get("command")[1] if e.msg and e.msg.get("command", ("?",))[0] == "c" else None

    # 1. CNXN first
    cn = [e for e in sends if cmd_of(e) == b"CNXN"]
    if len(cn) != 1:
        R.fail("HS-cnxn", q + "|sites", "connect() must send CNXN at exactly one site, found %d" % len(cn), loc)
        return
    s0 = cn[0]
    m = s0.msg
    banner = f.params[1] if len(f.params) > 1 else "banner"
    R.check(m.get("arg0") == ("c", VERSION), "HS-cnxn", q + "|version", "CNXN.arg0 = 0x01000000", "CNXN.arg0 is %s, protocol version must be 0x01000000" % show(m.get("arg0")), f.loc(s0.node.ast))
    R.check(m.get("arg1") == ("c", MAXDATA), "HS-cnxn", q + "|maxdata", "CNXN.arg1 = 1 MiB host maxdata", "CNXN.arg1 is %s, expected 1048576" % show(m.get("arg1")), f.loc(s0.node.ast))
    R.check(m.get("data") == ("CONCAT", ("c", b"host::"), ("p", banner), ("c", b"\0")), "HS-cnxn", q + "|banner", "CNXN payload = b'host::' + banner + NUL",
            "CNXN payload is %s, expected CONCAT(b'host::', banner, b'\\0')" % show(m.get("data")), f.loc(s0.node.ast))
    R.check(len(tconn) == 1 and g.dominates([tconn[0].node], s0.node), "HS-cnxn", q + "|after-connect", "CNXN is sent after transport.connect", None, f.loc(s0.node.ast))
    for e in sends + reads:
        if e is not s0:
            R.check(g.dominates([s0.node], e.node), "HS-cnxn", "%s|first|%s" % (q, norm_stmt(e.node.ast)), "CNXN precedes `%s`" % norm_stmt(e.node.ast),
                    "`%s` can happen before CNXN was sent" % norm_stmt(e.node.ast), f.loc(e.node.ast))
    R.check(not s0.node.loops, "HS-cnxn", q + "|once", "CNXN is sent once", "CNXN is sent inside a loop", f.loc(s0.node.ast))
    # the loop over keys
    iters = [n for n in g.live_nodes() if n.kind == "iter"]
    if len(iters) != 1:
        R.fail("HS-loop", q + "|loops", "connect() must contain exactly one loop over the keys, found %d for-loops" % len(iters), loc)
        return
    it = iters[0]
    inloop = set(n for n in g.nodes if n is it or it in n.loops)     # lexical membership: arms that return/raise from inside the loop count as loop code here
    itt = T.term(f, it, it.ast.iter)
    R.check(itt == ("p", "rsa_keys"), "HS-loop", q + "|iterates-keys", "the loop iterates the rsa_keys parameter itself (in the caller's order, each key once)",
            "the loop iterates %s, not the rsa_keys parameter in order" % show(itt), f.loc(it.ast))
    keyvar = varkey(it.ast.target)
    # 2. returns
    for e in rets:
        rn = e.node
        sub = "%s|%s@%s" % (q, norm_stmt(rn.ast), "loop" if rn in inloop else ("tail" if g.dominates([it], rn) else "head"))
        v = rn.ast.value
        okshape = isinstance(v, ast.Tuple) and len(v.elts) == 2 and isinstance(v.elts[0], ast.Constant) and v.elts[0].value is True and isinstance(v.elts[1], ast.Name)
        R.check(okshape, "HS-return", sub + "|shape", "returns (True, maxdata)", "connect() returns `%s`, not (True, <maxdata>)" % src(v) if v is not None else "connect() returns None", f.loc(rn.ast))
        if not okshape:
            continue
        mv = v.elts[1].id
        ds = origin_defs(df, rn, mv)
        rk = [r for r in reads if any(d.node is r.node and d.path == (2,) for d in ds)]
        ok = len(ds) == 1 and len(rk) == 1
        R.check(ok, "HS-return", sub + "|maxdata", "maxdata is field 2 (arg1) of one device reply", "the maxdata returned is not field 2 (arg1) of a single device reply (%s)" % sorted(repr(d) for d in ds), f.loc(rn.ast))
        if not ok:
            continue
        rk = rk[0]
        for rj in reads:
            if rj is not rk and rn in g.reach([rj.node], avoid=[rk.node], exc=False):
                R.fail("HS-return", sub + "|latest", "a later reply (`%s`) is read before returning, but the maxdata of an earlier reply is adopted" % norm_stmt(rj.node.ast), f.loc(rn.ast))
        cv = rk.binds.get(0)
        vs = value_set(ctx, f, rn, cv, reads) if cv else (set(rk.expected) if rk.expected is not None else None)
        R.check(vs == {b"CNXN"}, "HS-return", sub + "|iff-cnxn", "success is reported only when the device's latest answer is CNXN",
                "connect() can report success although the device's latest answer may be %s" % (sorted(vs) if vs is not None else "unknown"), f.loc(rn.ast))
    R.check(g.exit not in g.reach([g.entry], avoid=[e.node for e in rets], exc=False, include_start=True), "HS-return", q + "|explicit", "no implicit return", "connect() can fall off its end (returns None)", loc)
    # 3. no keys
    r0 = [r for r in reads if not r.node.loops and not g.dominates([it], r.node)]
    R.check(len(r0) == 1 and r0[0].expected is not None and set(r0[0].expected) == {b"AUTH", b"CNXN"}, "HS-first-reply", q, "the reply to CNXN may be AUTH or CNXN",
            "the first reply is awaited with %s, expected {AUTH, CNXN}" % ([r.expected for r in r0]), loc)
    facts_it = df.facts(it)
    has_keys = any(fa[0] == ("truthy", key(ast.Name(id="rsa_keys", ctx=ast.Load()))) and fa[1] is True for fa in facts_it)
    R.check(has_keys, "HS-nokeys", q + "|guard", "the key loop is entered only with a non-empty key list", "the key loop can be entered without the `not rsa_keys` guard", f.loc(it.ast))
    dae = [e for e in raises if e.node.ast.exc is not None and "DeviceAuthError" in src(e.node.ast.exc)]
    okd = False
    for e in dae:
        fa = df.facts(e.node)
        nokeys = any(x[0] == ("truthy", key(ast.Name(id="rsa_keys", ctx=ast.Load()))) and x[1] is False for x in fa)
        cv = r0[0].binds.get(0) if r0 else None
        vs = value_set(ctx, f, e.node, cv, reads) if cv else None
        if nokeys and vs == {b"AUTH"} and not e.node.loops:
            okd = True
    R.check(okd, "HS-nokeys", q + "|raises", "challenged without keys -> DeviceAuthError (only then)", "no `raise DeviceAuthError` governed by (no keys, device answered AUTH)", loc)
    # 5./6./7. per-iteration protocol
    lsigns = [e for e in signs if e.node in inloop]
    lsends = [e for e in sends if e.node in inloop]
    lreads = [e for e in reads if e.node in inloop]
    R.check(len(lsigns) == 1 and len(signs) == 1, "HS-iter", q + "|one-sign", "one signature per key", "expected exactly one Sign() per iteration, found %d (of %d)" % (len(lsigns), len(signs)), f.loc(it.ast))
    R.check(len(lsends) == 1, "HS-iter", q + "|one-send", "one AUTH send per key", "expected exactly one send per iteration, found %d" % len(lsends), f.loc(it.ast))
    R.check(len(lreads) == 1, "HS-iter", q + "|one-read", "one reply read per key", "expected exactly one read per iteration, found %d" % len(lreads), f.loc(it.ast))
    if len(lsigns) == 1 and len(lsends) == 1 and len(lreads) == 1:
        sg, sd, rd = lsigns[0], lsends[0], lreads[0]
        for e in (sg, sd, rd):
            R.check(e.node.loops == (it,), "HS-iter", "%s|not-nested|%s" % (q, e.kind), "%s happens once per key" % e.kind, "%s is inside a nested loop (more than once per key)" % e.kind, f.loc(e.node.ast))
        R.check(g.dominates([sg.node], sd.node) and g.dominates([sd.node], rd.node), "HS-iter", q + "|order", "sign, send, read", "per-key order is not sign -> send -> read", f.loc(sg.node.ast))
        # every completed iteration (back edge) passed all three
        body_start = [d for d, l in g.succ[it] if l == "next"]
        for e in (sg, sd, rd):
            r = g.reach(body_start, avoid=[e.node], exc=False, include_start=True)
            R.check(it not in r, "HS-iter", "%s|every-iteration|%s" % (q, e.kind), "every iteration performs %s" % e.kind, "an iteration can finish without %s (a key is skipped silently)" % e.kind, f.loc(e.node.ast))
        # receiver of Sign is the loop variable; operand is the freshest token
        recv = sg.call.func.value
        R.check(varkey(unawait(recv)) == keyvar and len(df.reaching(sg.node, keyvar)) == 1, "HS-iter", q + "|sign-key", "the challenge is signed with the loop's key",
                "Sign() is called on `%s`, not on the loop variable `%s`" % (src(recv), keyvar), f.loc(sg.node.ast))
        tok = sg.call.args[0] if sg.call.args else None
        tv = varkey(unawait(tok)) if tok is not None else None
        ds = origin_defs(df, sg.node, tv) if tv else set()
        fresh = bool(ds) and all(any(d.node is r.node and d.path == (3,) for r in reads) for d in ds)
        for rj in reads:
            if sg.node in g.reach([rj.node], avoid=[r.node for r in reads if r is not rj], exc=False):
                if not any(d.node is rj.node for d in ds):
                    fresh = False
        R.check(fresh and len(sg.call.args) == 1, "HS-iter", q + "|fresh-token", "the token signed is the payload of the latest device reply",
                "the token signed (`%s`) is not the payload (field 3) of the latest reply: a stale challenge is signed" % (src(tok) if tok is not None else "?"), f.loc(sg.node.ast))
        # challenge type check dominates the signature
        a0v = None
        for r in reads:
            if r.binds.get(1):
                a0v = r.binds[1]
        okt = a0v is not None and fact_const_eq(ctx, f, sg.node, a0v, AUTH_TOKEN, True)
        ds1 = origin_defs(df, sg.node, a0v) if a0v else set()
        okt = okt and all(any(d.node is r.node and d.path == (1,) for r in reads) for d in ds1)
        R.check(okt, "HS-iter", q + "|token-type", "a challenge is signed only if its arg0 is AUTH_TOKEN (latest reply)",
                "Sign() can run although the latest reply's arg0 was not checked to be AUTH_TOKEN", f.loc(sg.node.ast))
        ire = [e for e in raises if e.node in inloop and e.node.ast.exc is not None and "InvalidResponseError" in src(e.node.ast.exc)]
        R.check(any(a0v and fact_const_eq(ctx, f, e.node, a0v, AUTH_TOKEN, False) for e in ire), "HS-iter", q + "|token-type-raises", "non-token challenge -> InvalidResponseError",
                "no `raise InvalidResponseError` under `arg0 != AUTH_TOKEN` in the key loop", f.loc(it.ast))
        # AUTH signature message
        m = sd.msg or {}
        sigt = T.term(f, sg.node, sg.call)
        R.check(m.get("command") == ("c", b"AUTH") and m.get("arg0") == ("c", AUTH_SIGNATURE) and m.get("arg1") == ("c", 0), "HS-iter", q + "|auth-sig-fields",
                "AUTH(SIGNATURE=2, 0, ...)", "signature message is %s, expected AUTH(2, 0, signature)" % show(sd.mterm), f.loc(sd.node.ast))
        R.check(m.get("data") == sigt, "HS-iter", q + "|auth-sig-data", "payload is the signature just computed", "AUTH payload is %s, not the signature just computed" % show(m.get("data")), f.loc(sd.node.ast))
        R.check(rd.expected is not None and set(rd.expected) == {b"AUTH", b"CNXN"}, "HS-iter", q + "|reply-set", "reply may be CNXN or AUTH", "per-key reply awaited with %s" % (rd.expected,), f.loc(rd.node.ast))
        # continue with the next key only when the reply is not CNXN
        cv = rd.binds.get(0)
        if cv:
            vk = key(ast.Name(id=cv, ctx=ast.Load()))

            def consistent(s, d, l, vk=vk):
                for fa in df.edge_facts(s, l):
                    if fa[0][0] == "eq" and vk in fa[0][1:]:
                        other = fa[0][2] if fa[0][1] == vk else fa[0][1]
                        ok, v = ctx.fold.try_eval(eval_dump(other), f.mod, {})
                        if ok and v == b"CNXN" and fa[1] is False:
                            return False
                        if ok and isinstance(v, bytes) and v != b"CNXN" and fa[1] is True:
                            return False
                return True
            r = g.reach([rd.node], exc=False, edge_filter=consistent)
            tail_sends = [e.node for e in sends if e.node not in inloop and e is not s0]
            R.check(it not in r and not any(x in r for x in tail_sends), "HS-iter", q + "|stop-at-first-accepted",
                    "when the device answers CNXN no further key or the public key is offered",
                    "after the device accepted a signature (CNXN) the handshake can go on with another key / the public key", f.loc(rd.node.ast))
    # 8. callback and public key
    tail = [e for e in sends if e.node not in inloop and e is not s0]
    R.check(len(tail) == 1, "HS-pubkey", q + "|sites", "one public-key send after the loop", "expected one send after the key loop, found %d" % len(tail), loc)
    R.check(len(cbs) == 1, "HS-callback", q + "|sites", "one callback call site", "expected exactly one auth_callback call site, found %d" % len(cbs), loc)
    exhausted_only = lambda n: n not in g.reach([g.entry], exc=False, include_start=True, edge_filter=lambda s, d, l: not (s is it and l == "exhausted"))
    if len(cbs) == 1:
        cb = cbs[0]
        R.check(not cb.node.loops, "HS-callback", q + "|outside-loop", "callback is outside every loop (at most once)", "the auth callback is invoked inside a loop (once per key)", f.loc(cb.node.ast))
        R.check(exhausted_only(cb.node), "HS-callback", q + "|after-exhaustion", "callback reachable only after every key was rejected",
                "the auth callback can be invoked before all keys were tried", f.loc(cb.node.ast))
        nk = key(ast.Constant(value=None))
        ck = key(ast.Name(id="auth_callback", ctx=ast.Load()))
        guarded = any((fa[0] == ("is",) + tuple(sorted([ck, nk])) and fa[1] is False) or (fa[0] == ("truthy", ck) and fa[1] is True) for fa in df.facts(cb.node))
        R.check(guarded, "HS-callback", q + "|none-guard", "callback guarded by `is not None`", "the auth callback is called without checking it is not None", f.loc(cb.node.ast))
        R.check(len(cb.call.args) == 1, "HS-callback", q + "|arg", "callback receives the manager", None, f.loc(cb.node.ast), trivial=True)
    if len(tail) == 1:
        pk = tail[0]
        m = pk.msg or {}
        R.check(exhausted_only(pk.node) and not pk.node.loops, "HS-pubkey", q + "|after-exhaustion", "public key offered only after every key was rejected, once",
                "the public key can be offered before all keys were tried", f.loc(pk.node.ast))
        R.check(m.get("command") == ("c", b"AUTH") and m.get("arg0") == ("c", AUTH_RSAPUBLICKEY) and m.get("arg1") == ("c", 0), "HS-pubkey", q + "|fields",
                "AUTH(RSAPUBLICKEY=3, 0, ...)", "public-key message is %s, expected AUTH(3, 0, key)" % show(pk.mterm), f.loc(pk.node.ast))
        d = m.get("data")
        okd = d is not None and d[0] == "CONCAT" and len(d) == 3 and d[2] == ("c", b"\0")
        if okd:
            from ..terms import alts_of
            alts = alts_of(d[1])
            for a in alts:
                inner = a
                if a[0] == "call" and a[1] in ("builtins.bytearray", "builtins.bytes") and a[2]:
                    inner = a[2][0]
                if not (inner[0] == "call" and inner[1] == ".GetPublicKey" and inner[2] == (("proj", ("p", "rsa_keys"), 0),)):
                    okd = False
        # the key object belongs to the signer: appending the NUL in place (`pubkey += b'\0'`) would extend the signer's own bytearray, and the next
        # connect() would offer `key\0\0`
        inplace = []
        for n_ in g.live_nodes():
            if n_.kind == "stmt" and isinstance(n_.ast, ast.AugAssign) and isinstance(n_.ast.target, ast.Name):
                tv = T.term(f, n_, ast.Name(id=n_.ast.target.id, ctx=ast.Load()))
                from ..terms import alts_of as _alts
                if any(a_[0] == "call" and a_[1] == ".GetPublicKey" for a_ in _alts(tv)):
                    inplace.append(n_)
            elif n_.kind == "stmt":
                for c_ in node_calls(n_):
                    if isinstance(c_.func, ast.Attribute) and c_.func.attr in ("extend", "append", "insert") and isinstance(c_.func.value, ast.Name):
                        tv = T.term(f, n_, c_.func.value)
                        from ..terms import alts_of as _alts
                        if any(a_[0] == "call" and a_[1] == ".GetPublicKey" for a_ in _alts(tv)):
                            inplace.append(n_)
        R.check(not inplace, "HS-pubkey", q + "|not-in-place", "the signer's key object is not modified in place", "the object GetPublicKey() returned is extended in place (`%s`): a bytearray key of the signer grows by a NUL with every attempt" % (norm_stmt(inplace[0].ast)[:60] if inplace else ""), f.loc(inplace[0].ast) if inplace else loc)
        R.check(okd, "HS-pubkey", q + "|payload", "payload = public key of rsa_keys[0] + NUL", "public-key payload is %s, expected GetPublicKey(rsa_keys[0]) + NUL" % show(d), f.loc(pk.node.ast))
        if len(cbs) == 1:
            cb = cbs[0]
            R.check(pk.node in g.reach([cb.node], exc=False) and cb.node not in g.reach([pk.node], exc=False), "HS-callback", q + "|before-pubkey", "callback runs before the public key is offered",
                    "the auth callback does not run before the public key is sent", f.loc(cb.node.ast))
        # 9. auth timeout between the send and the final read
        fr = [r for r in reads if r.node not in inloop and g.dominates([pk.node], r.node)]
        R.check(len(fr) == 1 and fr[0].expected == (b"CNXN",), "HS-pubkey", q + "|final-read", "after the public key only CNXN is awaited", "after offering the public key the manager awaits %s" % ([r.expected for r in fr]), loc)
        ws = [n for n in g.live_nodes() if n.kind == "stmt" and isinstance(n.ast, ast.Assign) and any((varkey(t) or "").endswith(".transport_timeout_s") for t in n.ast.targets)]
        okw = len(ws) == 1 and len(fr) == 1 and g.dominates([pk.node], ws[0]) and g.dominates([ws[0]], fr[0].node) and isinstance(ws[0].ast.value, ast.Name) and ws[0].ast.value.id == "auth_timeout_s"
        R.check(okw, "HS-pubkey", q + "|auth-timeout", "the wait for the user's confirmation uses auth_timeout_s (installed after the send, before the read)",
                "auth_timeout_s is not installed between the public-key send and the final read", loc)


def _connect_reader(ctx, R, roles, T):
    f = roles.connect_reader
    g = ctx.cfg(f)
    df = ctx.df(f)
    rd = [(n, c) for n in g.live_nodes() for c in node_calls(n) if ctx.cg.site(c) is not None and roles.packet_reader in ctx.cg.site(c).callees]
    if len(rd) != 1:
        R.fail("HS-reader", f.qualname + "|reads", "connect-time reader must read packets at one site", f.loc())
        return
    pt = T.term(f, rd[0][0], rd[0][1])
    expp = f.params[1]
    for rn in g.live_nodes():
        if rn.kind == "stmt" and isinstance(rn.ast, ast.Return):
            rt = T.term(f, rn, rn.ast.value)
            ok = rt == ("tuple",) + tuple(("proj", pt, i) for i in range(4)) or rt == pt      # field by field, or the packet tuple itself
            R.check(ok, "HS-reader", "%s|%s" % (f.qualname, norm_stmt(rn.ast)), "returns the packet as read", "connect-time reader returns %s" % show(rt), f.loc(rn.ast))
            inexp = any(fa[0][0] == "in" and fa[1] is True and fa[0][2] == key(ast.Name(id=expp, ctx=ast.Load())) for fa in df.facts(rn))
            R.check(inexp, "HS-reader", "%s|%s|expected" % (f.qualname, norm_stmt(rn.ast)), "only an expected command is returned (stray packets are skipped)",
                    "the connect-time reader can return a packet whose command was not expected", f.loc(rn.ast))


def _device_connect(ctx, R, roles, T):
    f = roles.dev["connect"]
    g = ctx.cfg(f)
    selfn = f.params[0]
    mc = [(n, c) for n in g.live_nodes() for c in node_calls(n) if ctx.cg.site(c) is not None and roles.io_connect in ctx.cg.site(c).callees]
    if len(mc) != 1:
        R.fail("HS-device", f.qualname + "|delegates", "device connect() must call the manager once", f.loc())
        return
    n, c = mc[0]
    st = n.ast
    mt = T.term(f, n, c)
    df = ctx.df(f)
    # every store to _available / _maxdata after the attempt holds element 0 / 1 of the manager's result
    stored = {"_available": [], "_maxdata": []}
    for x in g.live_nodes():
        for d in df.node_defs.get(x, []):
            for attr in stored:
                if d.var == selfn + "." + attr and d.kind in ("assign", "aug"):
                    stored[attr].append((x, d))
    from .c13 import is_unavailable_value
    falses = [x for (x, d) in stored["_available"] if d.kind == "assign" and not d.path and d.value is not None and is_unavailable_value(roles.dev_cls, d.value)]
    results = {}
    for attr, idx in (("_available", 0), ("_maxdata", 1)):
        good = []
        for (x, d) in stored[attr]:
            if x in falses:
                continue
            vt = T._def_term(f, d, d.var, {}, 0, x)
            if vt == ("proj", mt, idx) and (x is n or g.dominates([n], x)):
                good.append(x)
            else:
                R.fail("HS-device", "%s|%s" % (f.qualname, norm_stmt(x.ast)), "%s is set from %s, not from element %d of the manager's connect() result" % (attr, show(vt), idx), f.loc(x.ast))
        results[attr] = good
    ok = len(results["_available"]) == 1 and len(results["_maxdata"]) == 1 and all(g.dominates([x], g.exit, exc=False) for x in results["_available"] + results["_maxdata"])
    R.check(ok, "HS-device", f.qualname + "|adopts", "the manager's (connected, maxdata) is stored in (_available, _maxdata), in that order",
            "the manager's result is not stored as (_available, _maxdata) = (result[0], result[1]) exactly once on every path", f.loc(st))
    # "whenever connect() raises the device is left unavailable": the flag is cleared before the attempt, on every path
    R.check(bool(falses) and g.dominates(falses, n), "HS-device", f.qualname + "|unavailable-first", "the device is marked unavailable before the connection attempt (a raising connect() leaves it unavailable)",
            "availability is not cleared before the connection attempt on every path: after a successful connect(), a later connect() that raises leaves available == True", f.loc(n.ast))
    # maxdata writers
    for m in roles.dev_cls.methods.values():
        for k, s, kind_ in attr_writes(m):
            if k == m.params[0] + "._maxdata":
                if m.name == "__init__":
                    okv, v = ctx.fold.try_eval(s.value, m.mod, {}) if isinstance(s, ast.Assign) else (False, None)
                    R.check(okv and isinstance(v, int), "HS-device", m.qualname + "|maxdata-init", "maxdata starts at a protocol constant", None, m.loc(s))
                elif m is not f:
                    R.fail("HS-device", "%s|%s" % (m.qualname, norm_stmt(s)), "_maxdata is modified outside connect(): later pushes no longer use the device's negotiated limit", m.loc(s))
    # banner forwarded; returns the flag
    b = ctx.cg.site(c).bind(roles.io_connect)
    bt = T.term(f, n, b.get("banner")) if b.get("banner") is not None else None
    R.check(bt is not None and bt[0] in ("attr", "phi", "call", "c") and "_banner" in show(bt), "HS-device", f.qualname + "|banner", "the device's banner is what CNXN announces", "connect() passes %s as banner" % (show(bt) if bt else "?"), f.loc(n.ast))
    for rn in g.live_nodes():
        if rn.kind == "stmt" and isinstance(rn.ast, ast.Return):
            rv = unawait(rn.ast.value) if rn.ast.value is not None else None
            if isinstance(rv, ast.Attribute) and isinstance(rv.value, ast.Name) and f.params and rv.value.id == f.params[0] and f.cls is not None:
                # `return self.available`: a property of this class that just hands out one attribute is that attribute here
                pm = ctx.pkg.find_method(f.cls, rv.attr)
                if pm is not None and pm.is_property:
                    pb = [b for b in pm.node.body if not (isinstance(b, ast.Expr) and isinstance(b.value, ast.Constant))]
                    if len(pb) == 1 and isinstance(pb[0], ast.Return) and isinstance(pb[0].value, ast.Attribute) and isinstance(pb[0].value.value, ast.Name) and pb[0].value.value.id == pm.params[0]:
                        rv = ast.copy_location(ast.Attribute(value=ast.Name(id=f.params[0], ctx=ast.Load()), attr=pb[0].value.attr, ctx=ast.Load()), rv)
                        ast.fix_missing_locations(rv)
            rt = T.term(f, rn, rv) if rv is not None else None
            okr = rt == ("proj", mt, 0) and g.dominates([n], rn) and all(g.dominates([x], rn) for x in results["_available"])
            R.check(okr, "HS-device", "%s|%s" % (f.qualname, norm_stmt(rn.ast)),
                    "connect() returns the availability it just stored", "connect() returns `%s`" % norm_stmt(rn.ast), f.loc(rn.ast))
