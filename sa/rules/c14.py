"""C14 - stream ids are non-zero, 32-bit and unique among live streams.

Decided: the id counter is touched only under its dedicated lock (guarded-by); the increment, the wrap test and
the read that becomes the stream's local id are inside ONE `with` body (so two concurrent opens cannot observe the
same value); interval analysis of the critical section shows the captured value lies in [1, 2^32-1], inductively
(counter starts at a constant in [0, 2^32-1], every critical section re-establishes [1, 2^32-1]); OPEN carries
exactly that value.  Not decided: uniqueness across a complete 2^32 wrap while a stream is still open.
"""
import ast

from ..loader import AnalysisError
from ..dataflow import key, varkey, unawait, vars_in
from ..engine import terms
from ..locks import LockInfo, rule_guarded_by, GUARDED_BY_DEV
from ..roles import all_roles
from ..terms import show
from ..util import src, node_calls, call_attr, norm_stmt, attr_writes, own_calls

LEVEL = "other"

LO, HI = 1, (1 << 32) - 1


def _interval_region(ctx, f, g, region_nodes, entry_node, var, start):
    """Forward interval analysis of `var` over the nodes of a with-region.  Returns {node: (lo, hi) at node entry}."""
    fold = ctx.fold
    IN = {entry_node: start}
    work = [entry_node]
    iters = 0
    OUTE = {}
    while work and iters < 500:
        iters += 1
        n = work.pop(0)
        cur = IN[n]
        if cur is None:
            continue
        lo, hi = cur
        # transfer
        a = n.ast
        if n.kind == "stmt" and isinstance(a, ast.AugAssign) and varkey(a.target) == var:
            ok, v = fold.try_eval(a.value, f.mod, {})
            if ok and isinstance(v, int) and isinstance(a.op, ast.Add):
                lo, hi = lo + v, hi + v
            elif ok and isinstance(v, int) and isinstance(a.op, ast.Sub):
                lo, hi = lo - v, hi - v
            else:
                lo, hi = float("-inf"), float("inf")
        elif n.kind == "stmt" and isinstance(a, ast.Assign) and any(varkey(t) == var for t in a.targets):
            ok, v = fold.try_eval(a.value, f.mod, {})
            if ok and isinstance(v, int):
                lo, hi = v, v
            else:
                # x = x + 1 / x = (x + 1) % M  / x = x % M + 1
                r = _arith(ctx, f, a.value, var, (lo, hi))
                lo, hi = r if r is not None else (float("-inf"), float("inf"))
        elif n.kind == "stmt" and isinstance(a, (ast.Assign, ast.AugAssign, ast.Delete)):
            for d in ctx.df(f).node_defs.get(n, []):
                if d.var == var and d.kind != "base":
                    lo, hi = float("-inf"), float("inf")
        for d, l in g.succ[n]:
            if d not in region_nodes or l == "exc":
                continue
            nlo, nhi = lo, hi
            if n.kind == "test" and l in ("true", "false"):
                r = _refine(ctx, f, n.ast.test, var, (lo, hi), l == "true")
                if r is None:
                    continue    # branch infeasible
                nlo, nhi = r
            old = IN.get(d)
            new = (nlo, nhi) if old is None else (min(old[0], nlo), max(old[1], nhi))
            if new != old:
                IN[d] = new
                work.append(d)
        OUTE[n] = (lo, hi)
    return IN, OUTE


def _arith(ctx, f, e, var, iv):
    e = unawait(e)
    if varkey(e) == var:
        return iv
    ok, v = ctx.fold.try_eval(e, f.mod, {})
    if ok and isinstance(v, int):
        return (v, v)
    if isinstance(e, ast.BinOp):
        a = _arith(ctx, f, e.left, var, iv)
        b = _arith(ctx, f, e.right, var, iv)
        if a is None or b is None:
            return None
        if isinstance(e.op, ast.Add):
            return (a[0] + b[0], a[1] + b[1])
        if isinstance(e.op, ast.Sub):
            return (a[0] - b[1], a[1] - b[0])
        if isinstance(e.op, ast.Mod) and b[0] == b[1] and b[0] > 0:
            if a[0] >= 0 and a[1] < b[0]:
                return a
            return (0, b[0] - 1)
        if isinstance(e.op, ast.BitAnd) and b[0] == b[1] and b[0] >= 0:
            return (0, b[0])
    if isinstance(e, ast.IfExp):
        t = _refine(ctx, f, e.test, var, iv, True)
        o = _refine(ctx, f, e.test, var, iv, False)
        parts = []
        if t is not None:
            r = _arith(ctx, f, e.body, var, t)
            if r is None:
                return None
            parts.append(r)
        if o is not None:
            r = _arith(ctx, f, e.orelse, var, o)
            if r is None:
                return None
            parts.append(r)
        if parts:
            return (min(p[0] for p in parts), max(p[1] for p in parts))
    return None


def _refine(ctx, f, test, var, iv, pol):
    """Interval of var on the branch where `test` has truth value pol; None if infeasible; unchanged if unknown."""
    lo, hi = iv
    t = unawait(test)
    if isinstance(t, ast.UnaryOp) and isinstance(t.op, ast.Not):
        return _refine(ctx, f, t.operand, var, iv, not pol)
    if isinstance(t, ast.Compare) and len(t.ops) == 1:
        a, b, op = t.left, t.comparators[0], type(t.ops[0])
        flip = {ast.Lt: ast.Gt, ast.Gt: ast.Lt, ast.LtE: ast.GtE, ast.GtE: ast.LtE, ast.Eq: ast.Eq, ast.NotEq: ast.NotEq}
        if varkey(unawait(b)) == var and op in flip:
            a, b, op = b, a, flip[op]
        if varkey(unawait(a)) == var:
            ok, k = ctx.fold.try_eval(b, f.mod, {})
            if ok and isinstance(k, int):
                if not pol:
                    op = {ast.Lt: ast.GtE, ast.Gt: ast.LtE, ast.LtE: ast.Gt, ast.GtE: ast.Lt, ast.Eq: ast.NotEq, ast.NotEq: ast.Eq}.get(op)
                if op is ast.Eq:
                    return (k, k) if lo <= k <= hi else None
                if op is ast.NotEq:
                    if lo == hi == k:
                        return None
                    if lo == k:
                        return (lo + 1, hi)
                    if hi == k:
                        return (lo, hi - 1)
                    return (lo, hi)
                if op is ast.Lt:
                    return (lo, min(hi, k - 1)) if lo <= k - 1 else None
                if op is ast.LtE:
                    return (lo, min(hi, k)) if lo <= k else None
                if op is ast.Gt:
                    return (max(lo, k + 1), hi) if hi >= k + 1 else None
                if op is ast.GtE:
                    return (max(lo, k), hi) if hi >= k else None
    return (lo, hi)


def check(ctx, R):
    id_rules(ctx, R)
    R.assume("threading.Lock / asyncio.Lock provide mutual exclusion for the `with` body")
    R.undecided("uniqueness across a complete 2^32 wrap with a stream still open (needs the number of opens, a run-time quantity)")


def id_rules(ctx, R):
    from ..locks import rule_lock_objects
    T = terms(ctx)
    for roles in all_roles(ctx):
        rule_lock_objects(ctx, R, roles, LockInfo(ctx, roles))
        li = LockInfo(ctx, roles)
        dev = roles.dev_cls
        rule_guarded_by(ctx, R, roles, li, GUARDED_BY_DEV, dev, rule="LOCK-guard")
        f = roles.dev["_open"]
        g = ctx.cfg(f)
        df = ctx.df(f)
        selfn = f.params[0]
        var = selfn + "._local_id"
        lock = (dev.qualname, "_local_id_lock")
        # writers of the counter: constructor (constant) and the allocation function only
        for m in dev.methods.values():
            for k, st, kind in attr_writes(m):
                if k == m.params[0] + "._local_id":
                    if m.name == "__init__":
                        ok, v = ctx.fold.try_eval(st.value, m.mod, {}) if isinstance(st, ast.Assign) else (False, None)
                        R.check(ok and isinstance(v, int) and 0 <= v <= HI, "ID-init", "%s|%s" % (m.qualname, norm_stmt(st)),
                                "counter starts at a constant in [0, 2^32-1]", "counter initial value is not a constant in [0, 2^32-1]", m.loc(st))
                    elif m is not f:
                        R.fail("ID-writers", "%s|%s" % (m.qualname, norm_stmt(st)), "the id counter is modified outside the allocation critical section", m.loc(st))
        # the with-region
        wnodes = [n for n in g.nodes if n.kind == "with" and li.lock_of_with(f, n) == lock]
        if len(wnodes) != 1:
            R.fail("ID-section", f.qualname + "|regions", "expected exactly one critical section on the id lock in %s, found %d" % (f.name, len(wnodes)), f.loc())
            continue
        W = wnodes[0]
        region = set(n for n in g.nodes if W in n.withs)
        incs = [n for n in region if any(d.var == var and d.kind in ("aug", "assign") for d in df.node_defs.get(n, []))]
        R.check(bool(incs), "ID-section", f.qualname + "|advance", "the counter is advanced inside the critical section", "the counter is not advanced inside the critical section", f.loc(W.ast))
        outside = [n for n in g.nodes if n not in region and n is not g.entry and any(d.var == var and d.kind in ("aug", "assign") for d in df.node_defs.get(n, []))]
        for n in outside:
            R.fail("ID-section", "%s|%s" % (f.qualname, norm_stmt(n.ast)), "the counter is modified outside the critical section", f.loc(n.ast))
        # capture: the transaction object's local id reads the counter inside the same region
        caps = []
        for n in g.live_nodes():
            for c in node_calls(n):
                if isinstance(c.func, ast.Name) and c.func.id == "_AdbTransactionInfo":
                    caps.append((n, c))
        if len(caps) != 1:
            R.fail("ID-section", f.qualname + "|capture", "expected one transaction object per open, found %d" % len(caps), f.loc())
            continue
        cn, cc = caps[0]
        lid = cc.args[0] if cc.args else next((k.value for k in cc.keywords if k.arg == "local_id"), None)
        reads_counter = lid is not None and var in vars_in(lid)
        if reads_counter:
            R.check(cn in region, "ID-section", f.qualname + "|capture-inside",
                    "the id is captured into the transaction object inside the same critical section as the increment",
                    "the id is read from the counter outside the critical section that incremented it: two concurrent opens can capture the same id", f.loc(cn.ast))
            cap_expr_is_counter = varkey(unawait(lid)) == var
        else:
            # captured through a local variable assigned inside the region
            k = varkey(unawait(lid)) if lid is not None else None
            d = df.unique_def(cn, k) if k else None
            ok = d is not None and d.kind == "assign" and d.node in region and varkey(unawait(d.value)) == var
            R.check(ok, "ID-section", f.qualname + "|capture-inside", "the id is copied from the counter inside the critical section",
                    "the transaction object's local id (`%s`) is not a copy of the counter taken inside the critical section" % (src(lid) if lid is not None else "?"), f.loc(cn.ast))
            cap_expr_is_counter = ok
            if ok:
                cn = d.node
        # interval analysis
        first = [d for d, l in g.succ[W] if l == "next"]
        if not first:
            raise AnalysisError("ID-interval", "empty critical section")
        IN, OUT = _interval_region(ctx, f, g, region, first[0], var, (0, HI))
        at_cap = IN.get(cn)
        if cap_expr_is_counter and at_cap is not None:
            R.check(LO <= at_cap[0] and at_cap[1] <= HI, "ID-interval", f.qualname + "|captured",
                    "captured id lies in [%d, %d] given a counter in [0, 2^32-1] on entry" % (at_cap[0], at_cap[1]),
                    "the captured id can be %s (interval [%s, %s]); it must stay in [1, 2^32-1]" % ("0" if at_cap[0] <= 0 else ">= 2^32", at_cap[0], at_cap[1]), f.loc(cn.ast))
        else:
            R.fail("ID-interval", f.qualname + "|captured", "cannot bound the captured id", f.loc(cn.ast))
        # at region exit the invariant is re-established (induction over opens)
        exits = [n for n in region if any(d not in region and l != "exc" for d, l in g.succ[n])]
        for n in exits:
            o = OUT.get(n)
            if o is None:
                continue
            R.check(0 <= o[0] and o[1] <= HI, "ID-interval", "%s|exit:%s" % (f.qualname, norm_stmt(n.ast) if n.ast is not None else n.kind),
                    "counter in [%s, %s] when the section is left (inductive)" % o,
                    "counter can leave the section as [%s, %s], outside [0, 2^32-1]: the next open is not covered" % o, f.loc(n.ast))
        # OPEN carries that value
        opens = []
        for n in g.live_nodes():
            for c in node_calls(n):
                if isinstance(c.func, ast.Name) and c.func.id == "AdbMessage":
                    t = T.term(f, n, c)
                    b = dict(t[2]) if t[0] == "new" else {}
                    if b.get("command") == ("c", b"OPEN"):
                        opens.append((n, c, b))
        R.check(len(opens) == 1, "ID-open", f.qualname + "|open-site", "one OPEN construction site", "expected one OPEN construction site, found %d" % len(opens), f.loc())
        for n, c, b in opens:
            a0 = c.args[1] if len(c.args) > 1 else None
            k = varkey(unawait(a0)) if a0 is not None else None
            obj = k.rsplit(".", 1)[0] if k and k.endswith(".local_id") else None
            d = df.unique_def(n, obj) if obj else None
            ok = d is not None and d.kind == "assign" and any(cc is x for x in node_calls(d.node))
            R.check(ok, "ID-open", f.qualname + "|open-arg0", "OPEN.arg0 is the local id of the transaction object created in the critical section",
                    "OPEN.arg0 (`%s`) is not the id captured in the critical section" % (src(a0) if a0 is not None else "?"), f.loc(n.ast))
