"""C14 - stream ids are non-zero, 32-bit and unique among live streams.

Decided: the id counter is touched only under its dedicated lock (guarded-by); the increment, the wrap test and
the read that becomes the stream's local id are inside ONE `with` body (so two concurrent opens cannot observe the
same value); interval analysis of the critical section shows the captured value lies in [1, 2^32-1], inductively
(counter starts at a constant in [0, 2^32-1], every critical section re-establishes [1, 2^32-1]); OPEN carries
exactly that value.  Not decided: uniqueness across a complete 2^32 wrap while a stream is still open.
"""
import ast

from ..loader import AnalysisError
from ..dataflow import key, varkey, unawait, vars_in
from ..engine import terms
from ..locks import LockInfo, rule_guarded_by, GUARDED_BY_DEV
from ..roles import all_roles
from ..terms import show
from ..util import src, node_calls, call_attr, norm_stmt, attr_writes, own_calls

LEVEL = "other"

LO, HI = 1, (1 << 32) - 1


INF = float("inf")
TOPIV = (-INF, INF)


def _interval_region(ctx, f, g, region_nodes, entry_node, var, start):
    """Forward interval analysis over the nodes of a with-region for the counter `var` and every local assigned inside the
    region.  Returns ({node: env at node entry}, {node: env after node}); env maps variable keys to (lo, hi)."""
    fold = ctx.fold
    df = ctx.df(f)
    IN = {entry_node: {var: start}}
    work = [entry_node]
    iters = 0
    OUTE = {}
    while work and iters < 2000:
        iters += 1
        n = work.pop(0)
        env = dict(IN[n])
        a = n.ast
        if n.kind == "stmt" and isinstance(a, ast.AugAssign) and varkey(a.target):
            k = varkey(a.target)
            cur = env.get(k)
            rhs = _arith(ctx, f, a.value, env)
            if cur is not None and rhs is not None and isinstance(a.op, ast.Add):
                env[k] = (cur[0] + rhs[0], cur[1] + rhs[1])
            elif cur is not None and rhs is not None and isinstance(a.op, ast.Sub):
                env[k] = (cur[0] - rhs[1], cur[1] - rhs[0])
            else:
                env[k] = TOPIV
        elif n.kind == "stmt" and isinstance(a, ast.Assign) and len(a.targets) == 1 and varkey(a.targets[0]):
            r = _arith(ctx, f, a.value, env)
            env[varkey(a.targets[0])] = r if r is not None else TOPIV
        elif n.kind == "stmt":
            for d in df.node_defs.get(n, []):
                if d.kind != "base" and d.var in env:
                    env[d.var] = TOPIV
        # anything the node may modify through calls
        for d in df.node_defs.get(n, []):
            if d.kind not in ("base", "assign", "aug") and d.var in env:
                env[d.var] = TOPIV
        for d, l in g.succ[n]:
            if d not in region_nodes or l == "exc":
                continue
            nenv = env
            if n.kind == "test" and l in ("true", "false"):
                nenv = _refine(ctx, f, n.ast.test, env, l == "true")
                if nenv is None:
                    continue    # branch infeasible
            old = IN.get(d)
            if old is None:
                new = dict(nenv)
            else:
                new = {}
                for k in set(old) & set(nenv):
                    new[k] = (min(old[k][0], nenv[k][0]), max(old[k][1], nenv[k][1]))
            if new != old:
                IN[d] = new
                if d not in work:
                    work.append(d)
        OUTE[n] = env
    return IN, OUTE


def _arith(ctx, f, e, env):
    """Interval of an integer expression under env (None: unknown)."""
    e = unawait(e)
    k = varkey(e)
    if k and k in env:
        return env[k]
    ok, v = ctx.fold.try_eval(e, f.mod, {})
    if ok and isinstance(v, int) and not isinstance(v, bool):
        return (v, v)
    if isinstance(e, ast.Attribute) and isinstance(e.value, ast.Name) and f.cls is not None and f.params and e.value.id in (f.params[0], f.cls.name) and e.attr in f.cls.class_assigns:
        # a class-level constant (`_MAX_LOCAL_ID = 2**32 - 1`) that no method assigns
        if not any(k == m.params[0] + "." + e.attr for m in f.cls.methods.values() if m.params for k, _st, _kind in attr_writes(m)):
            ok, v = ctx.fold.try_eval(f.cls.class_assigns[e.attr], f.mod, {})
            if ok and isinstance(v, int) and not isinstance(v, bool):
                return (v, v)
    if isinstance(e, ast.BinOp):
        a = _arith(ctx, f, e.left, env)
        b = _arith(ctx, f, e.right, env)
        if a is None or b is None:
            return None
        if isinstance(e.op, ast.Add):
            return (a[0] + b[0], a[1] + b[1])
        if isinstance(e.op, ast.Sub):
            return (a[0] - b[1], a[1] - b[0])
        if isinstance(e.op, ast.Mod) and b[0] == b[1] and b[0] > 0:
            if a[0] >= 0 and a[1] < b[0]:
                return a
            return (0, b[0] - 1)
        if isinstance(e.op, ast.BitAnd) and b[0] == b[1] and b[0] >= 0:
            return (0, b[0])
    if isinstance(e, ast.IfExp):
        t = _refine(ctx, f, e.test, env, True)
        o = _refine(ctx, f, e.test, env, False)
        parts = []
        if t is not None:
            r = _arith(ctx, f, e.body, t)
            if r is None:
                return None
            parts.append(r)
        if o is not None:
            r = _arith(ctx, f, e.orelse, o)
            if r is None:
                return None
            parts.append(r)
        if parts:
            return (min(p[0] for p in parts), max(p[1] for p in parts))
    if isinstance(e, ast.Call) and isinstance(e.func, ast.Name) and e.func.id in ("max", "min") and len(e.args) == 2 and not e.keywords:
        a = _arith(ctx, f, e.args[0], env)
        b = _arith(ctx, f, e.args[1], env)
        if a is not None and b is not None:
            fn = max if e.func.id == "max" else min
            return (fn(a[0], b[0]), fn(a[1], b[1]))
    return None


def _refine(ctx, f, test, env, pol):
    """env on the branch where `test` has truth value pol; None if infeasible; unchanged if the test says nothing usable."""
    t = unawait(test)
    if isinstance(t, ast.UnaryOp) and isinstance(t.op, ast.Not):
        return _refine(ctx, f, t.operand, env, not pol)
    if isinstance(t, ast.BoolOp) and ((isinstance(t.op, ast.And) and pol) or (isinstance(t.op, ast.Or) and not pol)):
        cur = env
        for v in t.values:
            cur = _refine(ctx, f, v, cur, pol)
            if cur is None:
                return None
        return cur
    if isinstance(t, ast.Compare) and len(t.ops) == 1:
        a, b, op = t.left, t.comparators[0], type(t.ops[0])
        flip = {ast.Lt: ast.Gt, ast.Gt: ast.Lt, ast.LtE: ast.GtE, ast.GtE: ast.LtE, ast.Eq: ast.Eq, ast.NotEq: ast.NotEq}
        # x + c OP k  ==  x OP k - c   (and c + x, x - c)
        def shift(e):
            e = unawait(e)
            if isinstance(e, ast.BinOp) and isinstance(e.op, (ast.Add, ast.Sub)):
                for x, y, sign in ((e.left, e.right, 1), (e.right, e.left, 1) if isinstance(e.op, ast.Add) else (None, None, 0)):
                    if x is None:
                        continue
                    kx = varkey(unawait(x))
                    okc, cv = ctx.fold.try_eval(y, f.mod, {})
                    if kx and kx in env and okc and isinstance(cv, int) and not isinstance(cv, bool):
                        return x, (cv if isinstance(e.op, ast.Add) else -cv)
            return None
        delta = 0
        sa, sb = shift(a), shift(b)
        if sa is not None and not (varkey(unawait(b)) in env if varkey(unawait(b)) else False):
            a, delta = sa
        elif sb is not None and not (varkey(unawait(a)) in env if varkey(unawait(a)) else False):
            b, delta = sb
        ka, kb = varkey(unawait(a)), varkey(unawait(b))
        if not (ka and ka in env) and kb and kb in env and op in flip:
            a, b, op, ka = b, a, flip[op], kb
        if ka and ka in env and op in flip:
            lo, hi = env[ka]
            r = _arith(ctx, f, b, env)
            if r is not None and r[0] == r[1] and r[0] not in (INF, -INF):
                k = r[0] - delta
                if not pol:
                    op = {ast.Lt: ast.GtE, ast.Gt: ast.LtE, ast.LtE: ast.Gt, ast.GtE: ast.Lt, ast.Eq: ast.NotEq, ast.NotEq: ast.Eq}.get(op)
                new = (lo, hi)
                if op is ast.Eq:
                    new = (k, k) if lo <= k <= hi else None
                elif op is ast.NotEq:
                    if lo == hi == k:
                        new = None
                    elif lo == k:
                        new = (lo + 1, hi)
                    elif hi == k:
                        new = (lo, hi - 1)
                elif op is ast.Lt:
                    new = (lo, min(hi, k - 1)) if lo <= k - 1 else None
                elif op is ast.LtE:
                    new = (lo, min(hi, k)) if lo <= k else None
                elif op is ast.Gt:
                    new = (max(lo, k + 1), hi) if hi >= k + 1 else None
                elif op is ast.GtE:
                    new = (max(lo, k), hi) if hi >= k else None
                if new is None:
                    return None
                out = dict(env)
                out[ka] = new
                return out
    return env


def _equal_to_counter(ctx, f, g, region_nodes, entry_node, var):
    """Must-analysis: which variables are known to hold the same value as the counter (at node entry / after the node)."""
    df = ctx.df(f)
    IN = {entry_node: frozenset()}
    OUT = {}
    work = [entry_node]
    while work:
        n = work.pop(0)
        cur = set(IN[n])
        a = n.ast
        handled = False
        if n.kind == "stmt" and isinstance(a, ast.Assign) and len(a.targets) == 1:
            tk, vk = varkey(a.targets[0]), varkey(unawait(a.value))
            if tk == var and vk:
                cur = {vk}            # counter = x
                handled = True
            elif tk and vk == var:
                cur.add(tk)           # x = counter
                handled = True
            elif tk and vk and vk in cur and tk != var:
                cur.add(tk)           # y = x, x == counter
                handled = True
        if not handled:
            for d in df.node_defs.get(n, []):
                if d.kind == "base":
                    continue
                if d.var == var:
                    cur = set()
                else:
                    cur.discard(d.var)
        OUT[n] = frozenset(cur)
        for d, l in g.succ[n]:
            if d not in region_nodes or l == "exc":
                continue
            old = IN.get(d)
            new = frozenset(cur) if old is None else (old & frozenset(cur))
            if new != old:
                IN[d] = new
                if d not in work:
                    work.append(d)
    return IN, OUT


def check(ctx, R):
    id_rules(ctx, R)
    R.assume("threading.Lock / asyncio.Lock provide mutual exclusion for the `with` body")
    R.undecided("uniqueness across a complete 2^32 wrap with a stream still open (needs the number of opens, a run-time quantity)")


def id_rules(ctx, R):
    from ..locks import rule_lock_objects
    T = terms(ctx)
    for roles in all_roles(ctx):
        rule_lock_objects(ctx, R, roles, LockInfo(ctx, roles))
        li = LockInfo(ctx, roles)
        dev = roles.dev_cls
        rule_guarded_by(ctx, R, roles, li, GUARDED_BY_DEV, dev, rule="LOCK-guard")
        f = roles.dev["_open"]
        g = ctx.cfg(f)
        df = ctx.df(f)
        selfn = f.params[0]
        var = selfn + "._local_id"
        lock = (dev.qualname, "_local_id_lock")
        # writers of the counter: constructor (constant) and the allocation function only
        for m in dev.methods.values():
            for k, st, kind in attr_writes(m):
                if k == m.params[0] + "._local_id":
                    if m.name == "__init__":
                        ok, v = ctx.fold.try_eval(st.value, m.mod, {}) if isinstance(st, ast.Assign) else (False, None)
                        R.check(ok and isinstance(v, int) and 0 <= v <= HI, "ID-init", "%s|%s" % (m.qualname, norm_stmt(st)),
                                "counter starts at a constant in [0, 2^32-1]", "counter initial value is not a constant in [0, 2^32-1]", m.loc(st))
                    elif m is not f:
                        R.fail("ID-writers", "%s|%s" % (m.qualname, norm_stmt(st)), "the id counter is modified outside the allocation critical section", m.loc(st))
        # the with-region
        wnodes = [n for n in g.nodes if n.kind == "with" and li.lock_of_with(f, n) == lock]
        if len(wnodes) != 1:
            R.fail("ID-section", f.qualname + "|regions", "expected exactly one critical section on the id lock in %s, found %d" % (f.name, len(wnodes)), f.loc())
            continue
        W = wnodes[0]
        region = set(n for n in g.nodes if W in n.withs)
        incs = [n for n in region if any(d.var == var and d.kind in ("aug", "assign") for d in df.node_defs.get(n, []))]
        R.check(bool(incs), "ID-section", f.qualname + "|advance", "the counter is advanced inside the critical section", "the counter is not advanced inside the critical section", f.loc(W.ast))
        outside = [n for n in g.nodes if n not in region and n is not g.entry and any(d.var == var and d.kind in ("aug", "assign") for d in df.node_defs.get(n, []))]
        for n in outside:
            R.fail("ID-section", "%s|%s" % (f.qualname, norm_stmt(n.ast)), "the counter is modified outside the critical section", f.loc(n.ast))
        # capture: the id handed to the transaction object
        caps = []
        for n in g.live_nodes():
            for c in node_calls(n):
                if isinstance(c.func, ast.Name) and c.func.id == "_AdbTransactionInfo":
                    caps.append((n, c))
        if len(caps) != 1:
            R.fail("ID-section", f.qualname + "|capture", "expected one transaction object per open, found %d" % len(caps), f.loc())
            continue
        cn, cc = caps[0]
        lid = cc.args[0] if cc.args else next((k.value for k in cc.keywords if k.arg == "local_id"), None)
        lk = varkey(unawait(lid)) if lid is not None else None
        first = [d for d, l in g.succ[W] if l == "next"]
        if not first:
            raise AnalysisError("ID-interval", "empty critical section")
        IN, OUT = _interval_region(ctx, f, g, region, first[0], var, (0, HI))
        EQI, EQO = _equal_to_counter(ctx, f, g, region, first[0], var)
        exits = [n for n in region if any(d not in region and l != "exc" for d, l in g.succ[n])]
        # (a) the value captured is the counter's value as the section leaves it, read while the lock is held:
        #     either the counter itself read inside the section, or a local that equals the counter at every exit of the section
        if lk == var:
            inside_ok = cn in region and not any(any(d.var == var and d.kind != "base" for d in df.node_defs.get(m, [])) for m in g.reach([cn], exc=False) if m in region)
            why = "the id is read from the counter outside the critical section that incremented it: two concurrent opens can capture the same id"
            if cn in region and not inside_ok:
                why = "the counter is modified again after the id was captured"
        elif lk and "." not in lk:
            local_defs = df.reaching(cn, lk)
            inside_ok = bool(local_defs) and all(d.node in region for d in local_defs) and bool(exits) and all(lk in EQO.get(x, ()) for x in exits)
            why = "the transaction object's local id (`%s`) is not the value the counter holds when the critical section is left (a copy taken inside it)" % src(lid)
        else:
            inside_ok = False
            why = "the transaction object's local id (`%s`) is neither the counter nor a local copy of it" % (src(lid) if lid is not None else "?")
        R.check(inside_ok, "ID-section", f.qualname + "|capture-inside",
                "the id captured is the counter's value of this critical section (read under the lock)", why, f.loc(cn.ast))
        # (b) interval of the captured value
        at = None
        if inside_ok and lk == var:
            at = (IN.get(cn) or {}).get(var)
        elif inside_ok:
            ivs = [(OUT.get(x) or {}).get(var) for x in exits]
            at = None if any(v is None for v in ivs) or not ivs else (min(v[0] for v in ivs), max(v[1] for v in ivs))
        if at is not None:
            R.check(LO <= at[0] and at[1] <= HI, "ID-interval", f.qualname + "|captured",
                    "captured id lies in [%s, %s] given a counter in [0, 2^32-1] on entry" % (at[0], at[1]),
                    "the captured id can be %s (interval [%s, %s]); it must stay in [1, 2^32-1]" % ("0" if at[0] <= 0 else ">= 2^32", at[0], at[1]), f.loc(cn.ast))
        else:
            R.fail("ID-interval", f.qualname + "|captured", "cannot bound the captured id", f.loc(cn.ast))
        # (c) the section cannot be crossed without writing the counter (every open advances it)
        writes = [n for n in region if any(d.var == var and d.kind != "base" for d in df.node_defs.get(n, []))]
        crossed = any(x in g.reach(first, avoid=writes, exc=False, include_start=True) for x in exits if x not in writes) if writes else True
        R.check(not crossed, "ID-section", f.qualname + "|advance-every-path", "every pass through the critical section writes the counter",
                "the critical section can be left without the counter having been advanced: the next open reuses the id", f.loc(W.ast))
        # at region exit the invariant is re-established (induction over opens)
        for n in exits:
            o = (OUT.get(n) or {}).get(var)
            if o is None:
                continue
            R.check(0 <= o[0] and o[1] <= HI, "ID-interval", "%s|exit:%s" % (f.qualname, norm_stmt(n.ast) if n.ast is not None else n.kind),
                    "counter in [%s, %s] when the section is left (inductive)" % o,
                    "counter can leave the section as [%s, %s], outside [0, 2^32-1]: the next open is not covered" % o, f.loc(n.ast))
        # OPEN carries that value
        opens = []
        for n in g.live_nodes():
            for c in node_calls(n):
                if isinstance(c.func, ast.Name) and c.func.id == "AdbMessage":
                    t = T.term(f, n, c)
                    b = dict(t[2]) if t[0] == "new" else {}
                    if b.get("command") == ("c", b"OPEN"):
                        opens.append((n, c, b))
        R.check(len(opens) == 1, "ID-open", f.qualname + "|open-site", "one OPEN construction site", "expected one OPEN construction site, found %d" % len(opens), f.loc())
        for n, c, b in opens:
            from ..util import arg_of
            a0 = arg_of(c, 1, "arg0")
            ok = a0 is not None and same_id_as_captured(ctx, f, n, a0, cn, cc, lid)
            R.check(ok, "ID-open", f.qualname + "|open-arg0", "OPEN.arg0 is the local id of the transaction object created in the critical section",
                    "OPEN.arg0 (`%s`) is not the id captured in the critical section" % (src(a0) if a0 is not None else "?"), f.loc(n.ast))


def same_id_as_captured(ctx, f, n, a0, cn, cc, lid):
    """Is expression a0 (evaluated at node n) the id that was handed to the transaction object built by call cc at node cn?
    Accepted: `<that object>.local_id`, or the same local variable with the same reaching definitions as at the capture (shared
    state such as the counter itself is not accepted: another thread may have advanced it in between)."""
    df = ctx.df(f)

    def follow(node, e):
        e = unawait(e)
        for _ in range(4):
            if not isinstance(e, ast.Name):
                break
            d = df.unique_def(node, e.id)
            if d is None or d.kind != "assign" or d.path or d.value is None:
                break
            v = unawait(d.value)
            if isinstance(v, ast.Name) or (isinstance(v, ast.Attribute) and v.attr == "local_id"):
                node, e = d.node, v
            else:
                break
        return node, e
    n0, e0 = follow(n, a0)
    k = varkey(e0)
    if k and k.endswith(".local_id"):
        d = df.unique_def(n0, k.rsplit(".", 1)[0])
        return d is not None and d.kind == "assign" and any(cc is x for x in node_calls(d.node))
    if isinstance(e0, ast.Name) and lid is not None:
        n1, e1 = follow(cn, lid)
        if isinstance(e1, ast.Name) and e1.id == e0.id:
            return df.reaching(n0, e0.id) == df.reaching(n1, e1.id) and bool(df.reaching(n0, e0.id))
    return False
