"""C13 - nothing is sent unless connected; availability tracks the connection truthfully.

History-free guard dominance: in every public operation of the device class the must-fact "device is available"
(and "device_path is non-empty" for path operations) holds at every node that can reach transport I/O or opens a
local file; the availability flag has a closed set of writers (constructor False, close False first, connect False
before the attempt then the manager's result, which is the constant True).
"""
import ast

from ..loader import AnalysisError, walk_own
from ..dataflow import key, varkey, unawait
from ..roles import all_roles, reaches_io
from ..util import src, node_calls, call_attr, norm_stmt, attr_writes

LEVEL = "other"

OPEN_EXT = ("builtins.open", "aiofiles.open", "io.open", "os.open", "os.makedirs", "os.mkdir", "os.remove", "os.rename",
            "tempfile.NamedTemporaryFile", "tempfile.mkstemp", "shutil.copy", "shutil.move")


def is_unavailable_value(dev_cls, e):
    """`False` - or `None` when the public `available` property converts the flag with bool(), so that users still see False."""
    e = unawait(e)
    if not isinstance(e, ast.Constant):
        return False
    if e.value is False:
        return True
    if e.value is None:
        m = dev_cls.methods.get("available")
        if m is not None and m.is_property:
            body = [s for s in m.node.body if not (isinstance(s, ast.Expr) and isinstance(s.value, ast.Constant))]
            v = body[0].value if len(body) == 1 and isinstance(body[0], ast.Return) else None
            return isinstance(v, ast.Call) and isinstance(v.func, ast.Name) and v.func.id == "bool" and len(v.args) == 1
    return False


def _avail_exprs(R_, dev_cls, self_name):
    """Expressions that denote the availability flag inside a method: self._available and properties returning it."""
    out = []
    flag = None
    for name, m in dev_cls.methods.items():
        if m.is_property:
            body = [s for s in m.node.body if not (isinstance(s, ast.Expr) and isinstance(s.value, ast.Constant))]
            v = body[0].value if len(body) == 1 and isinstance(body[0], ast.Return) else None
            if isinstance(v, ast.Call) and isinstance(v.func, ast.Name) and v.func.id == "bool" and len(v.args) == 1 and not v.keywords:
                v = v.args[0]              # `return bool(self._flag)`: the property is true exactly when the flag is truthy
            if isinstance(v, ast.Attribute) and isinstance(v.value, ast.Name) and v.value.id == m.params[0] and name == "available":
                flag = v.attr
                out.append(name)
    return flag, out


def check(ctx, R):
    rio = reaches_io(ctx)
    for roles in all_roles(ctx):
        dev = roles.dev_cls
        tag = roles.tag
        flag, props = _avail_exprs(R, dev, "self")
        if flag is None:
            raise AnalysisError("GUARD", "%s: property `available` returning a flag attribute not found" % dev.qualname)
        R.ok("GUARD-prop", dev.qualname + ".available", "`available` returns self.%s" % flag, dev.methods["available"].loc(), trivial=True)

        # -- who may write the flag --------------------------------------------------------------
        writers = {}
        for f in ctx.pkg.funcs.values():
            for k, st, kind in attr_writes(f):
                if k.split(".")[-1] == flag and (f.cls is None or f.cls.qualname != dev.qualname) and f.mod is roles.mod:
                    R.fail("WMC-avail", "%s|%s" % (f.qualname, norm_stmt(st)), "availability flag written outside the device class", f.loc(st))
                if f.cls is not None and f.cls.qualname == dev.qualname and k == f.params[0] + "." + flag:
                    writers.setdefault(f.name, []).append((f, st))
        allowed = {"__init__", "close", "connect"}
        for name, lst in sorted(writers.items()):
            for f, st in lst:
                if name not in allowed:
                    R.fail("WMC-avail", "%s|%s" % (f.qualname, norm_stmt(st)),
                           "`%s` is written in %s; only the constructor, close() and connect() may change availability" % (flag, name), f.loc(st))
        for name in sorted(allowed):
            if name not in writers:
                R.fail("WMC-avail", "%s.%s" % (dev.qualname, name), "%s no longer maintains the availability flag" % name, dev.mod.relpath)
        # __init__: constant False
        for f, st in writers.get("__init__", []):
            good = isinstance(st, ast.Assign) and is_unavailable_value(dev, st.value)
            R.check(good, "AVAIL-init", "%s|%s" % (f.qualname, norm_stmt(st)), "a new device starts unavailable", "a new device does not start unavailable", f.loc(st))
        # close: flag = False dominates the manager close (and everything that reaches I/O)
        f = roles.dev["close"]
        g = ctx.cfg(f)
        falses = [n for n in g.nodes if n.kind == "stmt" and isinstance(n.ast, ast.Assign) and any(varkey(t) == f.params[0] + "." + flag for t in n.ast.targets)
                  and is_unavailable_value(dev, n.ast.value)]
        others = [st for (_f, st) in writers.get("close", []) if not (isinstance(st, ast.Assign) and is_unavailable_value(dev, st.value))]
        for st in others:
            R.fail("AVAIL-close", "%s|%s" % (f.qualname, norm_stmt(st)), "close() writes something other than False to the availability flag", f.loc(st))
        ionodes = _io_nodes(ctx, f, rio)
        R.check(bool(falses) and all(g.dominates(falses, n) for n in ionodes) and g.dominates(falses, g.exit, exc=False), "AVAIL-close", f.qualname,
                "close() marks the device unavailable before it touches the transport, on every path",
                "close() does not mark the device unavailable before closing the transport on every path", f.loc())
        # connect: False before the attempt; afterwards only the manager's result
        f = roles.dev["connect"]
        g = ctx.cfg(f)
        df = ctx.df(f)
        selfn = f.params[0]
        falses = [n for n in g.nodes if n.kind == "stmt" and isinstance(n.ast, ast.Assign) and any(varkey(t) == selfn + "." + flag for t in n.ast.targets)
                  and is_unavailable_value(dev, n.ast.value)]
        mgr_nodes = [n for n in g.nodes if any(roles.io_connect in (ctx.cg.site(c).callees if ctx.cg.site(c) else []) for c in node_calls(n))]
        R.check(len(mgr_nodes) == 1, "AVAIL-connect", f.qualname + "|manager-call", "connect() delegates to the I/O manager exactly once",
                "connect() does not call the I/O manager's connect exactly once (%d call sites)" % len(mgr_nodes), f.loc())
        if mgr_nodes:
            R.check(bool(falses) and g.dominates(falses, mgr_nodes[0]), "AVAIL-connect", f.qualname + "|false-first",
                    "the device is marked unavailable before the connection attempt (so a raising connect leaves it unavailable)",
                    "the device is not marked unavailable before the connection attempt: a failed connect() can leave available == True", f.loc(mgr_nodes[0].ast))
            # no write of a non-False value before the manager call
            for (wf, st) in writers.get("connect", []):
                nodes = g.nodes_of(st)
                for n in nodes:
                    if n in falses:
                        continue
                    is_result = n is mgr_nodes[0] and _tuple_pos(n.ast, selfn + "." + flag) == 0
                    if not is_result and g.dominates([mgr_nodes[0]], n):
                        # through a temporary: the value stored is element 0 of the manager's result
                        from ..engine import terms as _terms
                        T_ = _terms(ctx)
                        mcall = [c for c in node_calls(mgr_nodes[0]) if ctx.cg.site(c) is not None and roles.io_connect in ctx.cg.site(c).callees][0]
                        for d in df.node_defs.get(n, []):
                            if d.var == selfn + "." + flag and d.kind == "assign":
                                is_result = T_._def_term(f, d, d.var, {}, 0, n) == ("proj", T_.term(f, mgr_nodes[0], mcall), 0)
                    R.check(is_result, "AVAIL-connect", "%s|%s" % (f.qualname, norm_stmt(st)),
                            "availability is taken from the manager's result (first element)",
                            "availability is set from something other than the first element of the manager's connect() result", f.loc(st))
        # the manager's connect returns the constant True first
        mc = roles.io_connect
        mg = ctx.cfg(mc)
        nret = 0
        for n in mg.live_nodes():
            if n.kind == "stmt" and isinstance(n.ast, ast.Return):
                nret += 1
                v = n.ast.value
                good = isinstance(v, ast.Tuple) and len(v.elts) == 2 and isinstance(v.elts[0], ast.Constant) and v.elts[0].value is True
                R.check(good, "AVAIL-mgr-true", "%s|%s" % (mc.qualname, norm_stmt(n.ast)), "manager connect() returns (True, maxdata)",
                        "manager connect() returns something other than (True, maxdata)", mc.loc(n.ast))
        R.check(mg.exit not in mg.reach([mg.entry], avoid=[n for n in mg.nodes if n.kind == "stmt" and isinstance(n.ast, ast.Return)], exc=False, include_start=True),
                "AVAIL-mgr-true", mc.qualname + "|falls-off", "manager connect() cannot finish without an explicit return", None, mc.loc())

        # -- guard dominance per public operation ---------------------------------------------------
        ops = roles.public_ops()
        R.count("GUARD[%s]" % tag, len(ops), 9)
        # nothing reachable from a public operation writes the flag (so an established guard stays true)
        flagwriters = set(x for lst in writers.values() for (x, _s) in lst)
        for f in ops:
            g = ctx.cfg(f)
            df = ctx.df(f)
            selfn = f.params[0]
            reach = ctx.cg.reachable([f])
            bad = [w for w in flagwriters if w in reach and w is not f]
            if bad:
                R.fail("GUARD-stable", f.qualname, "operation can reach %s which rewrites the availability flag" % ", ".join(b.qualname for b in bad), f.loc())
            ionodes = _io_nodes(ctx, f, rio)
            has_path = any(p in ("device_path",) for p in f.params)
            if not ionodes:
                R.ok("GUARD", f.qualname, "public method performs no I/O and opens no file", f.loc(), trivial=True)
                continue
            for n in ionodes:
                facts = df.facts(n)
                want = [("truthy", key(_attr(selfn, flag))), ("truthy", key(_attr(selfn, "available")))] if "available" in props else [("truthy", key(_attr(selfn, flag)))]
                ok = any(fa[0] in want and fa[1] is True for fa in facts)
                R.check(ok, "GUARD", "%s|%s" % (f.qualname, _what(n)),
                        "availability guard holds before `%s`" % _what(n),
                        "`%s` can run while the device is not available (no dominating `if not self.available: raise`)" % _what(n), f.loc(n.ast))
                if has_path:
                    okp = any(fa[0] == ("truthy", key(ast.Name(id="device_path", ctx=ast.Load()))) and fa[1] is True for fa in facts)
                    R.check(okp, "GUARD-path", "%s|%s" % (f.qualname, _what(n)),
                            "empty-path guard holds before `%s`" % _what(n),
                            "`%s` can run with an empty device_path (no dominating `if not device_path: raise`)" % _what(n), f.loc(n.ast))
            # the guards raise the documented exceptions
            from .c11 import raised_classes
            for n in g.nodes:
                if n.kind == "test":
                    t = unawait(n.ast.test)
                    falsy = "false"
                    if isinstance(t, ast.UnaryOp) and isinstance(t.op, ast.Not):
                        t, falsy = unawait(t.operand), "true"
                    k = varkey(t)
                    exc_want = None
                    if k in (selfn + "." + flag, selfn + ".available"):
                        exc_want = "AdbConnectionError"
                    elif k == "device_path":
                        exc_want = "DevicePathInvalidError"
                    if exc_want:
                        arm = g.reach_from_edge(n, falsy, exc=False)
                        raises = [x for x in arm if x.kind == "stmt" and isinstance(x.ast, ast.Raise)]
                        good = bool(raises) and g.exit not in arm and not any(x.kind == "test" for x in arm) and all(raised_classes(ctx, f, x, x.ast.exc) == {exc_want} for x in raises)
                        R.check(good, "GUARD-exc", "%s|%s" % (f.qualname, exc_want), "guard raises %s" % exc_want,
                                "guard `%s` does not raise %s" % (src(n.ast.test), exc_want), f.loc(n.ast))
    # "available is True exactly from a successful connect()": success is reported only for a CNXN answer (same instances as C05)
    from .c05 import _manager_connect
    from ..engine import terms
    for roles in all_roles(ctx):
        _manager_connect(ctx, R, roles, terms(ctx))
        _lazy_generators(ctx, R, roles, rio)
    R.assume("a raise statement leaves the method; no code runs between the guard and the first I/O other than what the CFG shows")
    R.undecided("enumeration of call histories is subsumed: the rule is per-method and history-free")


def _attr(base, attr):
    return ast.Attribute(value=ast.Name(id=base, ctx=ast.Load()), attr=attr, ctx=ast.Load())


def _tuple_pos(st, var):
    if isinstance(st, ast.Assign) and len(st.targets) == 1 and isinstance(st.targets[0], (ast.Tuple, ast.List)):
        for i, t in enumerate(st.targets[0].elts):
            if varkey(t) == var:
                return i
    return None


def _what(n):
    e = n.exprs()[0] if n.exprs() else None
    return norm_stmt(e) if e is not None else n.kind


def _io_nodes(ctx, f, rio):
    """CFG nodes of f that call something reaching transport I/O, or open/create a local file."""
    g = ctx.cfg(f)
    cg = ctx.cg
    out = []
    for n in g.live_nodes():
        hit = False
        for c in node_calls(n):
            cs = cg.site(c)
            if cs is None:
                continue
            if any(callee in rio for callee in cs.callees):
                hit = True
            if cs.ext in OPEN_EXT:
                hit = True
            if cs.attr in ("bulk_read", "bulk_write"):
                hit = True
            # call through a variable that may be an opener
            if isinstance(c.func, ast.Name):
                for t in cg.var_types.get(f, {}).get(c.func.id, ()):
                    if t.startswith("extfunc:") and t[8:] in OPEN_EXT:
                        hit = True
        if hit:
            out.append(n)
    return out


def _lazy_generators(ctx, R, roles, rio):
    """A public operation that hands back a generator must check availability when the generator RUNS: a plain method that
    returns a call to a package generator evaluates its guard at creation time, and the I/O happens later, unguarded."""
    # functions whose result is produced lazily: generators, and plain functions that return (a generator expression over) the result of one
    lazy = set(x for x in roles.mod.all_funcs if x.is_generator)
    for _round in range(4):
        grew = False
        for x in roles.mod.all_funcs:
            if x in lazy:
                continue
            gx = ctx.cfg(x)
            dfx = ctx.df(x)
            for n in gx.live_nodes():
                if n.kind == "stmt" and isinstance(n.ast, ast.Return) and n.ast.value is not None:
                    v = unawait(n.ast.value)
                    srcs = [v]
                    if isinstance(v, ast.GeneratorExp):
                        srcs = [unawait(v.generators[0].iter)]
                    if isinstance(srcs[0], ast.Name):
                        d = dfx.unique_def(n, srcs[0].id)
                        if d is not None and d.kind == "assign" and not d.path and d.value is not None:
                            srcs = [unawait(d.value)]
                    for e in srcs:
                        if isinstance(e, ast.Call):
                            cs = ctx.cg.site(e)
                            if cs is not None and any(c in lazy for c in cs.callees):
                                lazy.add(x)
                                grew = True
        if not grew:
            break
    for f in roles.public_ops():
        if f.is_generator:
            continue
        g = ctx.cfg(f)
        for n in g.live_nodes():
            if n.kind == "stmt" and isinstance(n.ast, ast.Return) and n.ast.value is not None:
                v = unawait(n.ast.value)
                if isinstance(v, ast.Call):
                    cs = ctx.cg.site(v)
                    if cs is not None and any(c in lazy and c in rio for c in cs.callees):
                        R.fail("GUARD-lazy", "%s|%s" % (f.qualname, norm_stmt(n.ast)), "%s returns a generator that performs the I/O later: the availability guard is evaluated when the generator is created, not when it runs (close() or a failed reconnect in between is not noticed)" % f.name, f.loc(n.ast))
    R.ok("GUARD-lazy", roles.dev_cls.qualname, "generator-returning operations check availability inside the generator", roles.mod.relpath, trivial=True)
