"""C19 - buffered packets are kept per stream in FIFO order with correct wildcard lookup.

Behaviour of put / get / clear / clear_all / find (exact and the three wildcard patterns) / find_allow_zeros / len / in:
each method body is interpreted abstractly (sa/absstore.py: finite domain of store shapes for one distinguished pair, one
representative element per dict iteration, unknown predicates split the state) and the resulting abstract transitions are
compared with those of the reference model (sa/storespec.py).  That is independent of how the bodies are spelled.

Decided: two-level key discipline (outer key = local id, inner key = remote id) on every subscript, membership
test, deletion, dict display and comprehension over the store's dict, and on every pair the look-ups return
(remote, local); every non-None result of find() is governed by "the queue at that key is not empty"; wildcard
branches iterate the whole dict; the queue class is a FIFO queue used through put_nowait/get_nowait with the
(cmd, data) order preserved; get() of a CLSE forgets that pair; clear/clear_all/len; find_allow_zeros tries the
exact pair first, then exactly the three zero fall-backs.  The early return of put() for a CLSE without entry is
not judged here (left unspecified by the property; see C06).  Not decided: equivalence with a reference model.
"""
import ast

from ..loader import AnalysisError, walk_own
from ..dataflow import key, varkey, unawait
from ..roles import all_roles
from ..util import src, node_calls, call_attr, norm_stmt, own_calls

LEVEL = "other"

L, Rk, ANY, UNK = "L", "R", "ANY", "?"
FIFO_QUEUES = {("asyncio", "Queue"), ("queue", "Queue"), ("Queue", "Queue"), ("queue", "SimpleQueue")}


class SK(object):
    """Kind evaluator for expressions inside the store: ids (L/R/ANY), dict levels (D1/D2), queues (Q), pairs."""

    def __init__(self, R, f, selfn):
        self.R = R
        self.f = f
        self.selfn = selfn
        self.checked = 0

    def base_env(self):
        env = {}
        for p in self.f.params[1:]:
            if p == "arg0":
                env[p] = Rk
            elif p == "arg1":
                env[p] = L
            elif p == "value":
                env[p] = ("PAIR", Rk, L)
        return env

    def kind(self, e, env, loc_node=None):
        e = unawait(e)
        R, f = self.R, self.f
        if isinstance(e, ast.Constant):
            return ANY if (e.value is None or (isinstance(e.value, int) and not isinstance(e.value, bool))) else UNK
        if isinstance(e, ast.Name):
            if e.id not in env and e.id in self.f.mod.assigns and len(self.f.mod.assigns[e.id]) == 1:
                v0 = self.f.mod.assigns[e.id][0]
                if isinstance(v0, ast.Constant) and (v0.value is None or (isinstance(v0.value, int) and not isinstance(v0.value, bool))):
                    return ANY          # a module constant such as _ZERO_ID = 0 is a wildcard id like the literal
            return env.get(e.id, UNK)
        if isinstance(e, ast.Attribute):
            if varkey(e) == self.selfn + "._dict":
                return "D1"
            return UNK
        if isinstance(e, ast.Tuple):
            return ("PAIR",) + tuple(self.kind(x, env, loc_node) for x in e.elts)
        if isinstance(e, ast.Subscript) and not isinstance(e.slice, ast.Slice):
            b = self.kind(e.value, env, loc_node)
            ik = self.kind(e.slice, env, loc_node)
            if b == "D1":
                self._expect(ik, L, e, "outer key of the store must be a local id", loc_node)
                return "D2"
            if b == "D2":
                self._expect(ik, Rk, e, "inner key of the store must be a remote id", loc_node)
                return "Q"
            if isinstance(b, tuple) and b[0] == "PAIR" and isinstance(e.slice, ast.Constant) and isinstance(e.slice.value, int) and 0 <= e.slice.value < len(b) - 1:
                return b[1 + e.slice.value]
            return UNK
        if isinstance(e, ast.Call):
            fn = e.func
            if isinstance(fn, ast.Attribute):
                b = self.kind(fn.value, env, loc_node)
                if b in ("D1", "D2") and fn.attr in ("items", "keys", "values") and not e.args:
                    kk = L if b == "D1" else Rk
                    vv = "D2" if b == "D1" else "Q"
                    return ("ITER", {"items": ("PAIR", kk, vv), "keys": kk, "values": vv}[fn.attr])
                if b in ("D1", "D2") and fn.attr == "get" and e.args:
                    self._expect(self.kind(e.args[0], env, loc_node), L if b == "D1" else Rk, e, "dict.get key", loc_node)
                    return "D2" if b == "D1" else "Q"
                if fn.attr in ("find", "find_allow_zeros") and varkey(fn.value) == self.selfn and len(e.args) == 2:
                    self._expect(self.kind(e.args[0], env, loc_node), Rk, e, "find(arg0=remote, ...)", loc_node)
                    self._expect(self.kind(e.args[1], env, loc_node), L, e, "find(..., arg1=local)", loc_node)
                    return ("PAIR", Rk, L)
                if fn.attr == "clear" and varkey(fn.value) == self.selfn and len(e.args) == 2:
                    self._expect(self.kind(e.args[0], env, loc_node), Rk, e, "clear(arg0=remote, ...)", loc_node)
                    self._expect(self.kind(e.args[1], env, loc_node), L, e, "clear(..., arg1=local)", loc_node)
                    return UNK
                for a in e.args:
                    self.kind(a, env, loc_node)
                return UNK
            if isinstance(fn, ast.Name) and fn.id == "next" and e.args:
                g = self.kind(e.args[0], env, loc_node)
                return g[1] if isinstance(g, tuple) and g[0] == "ITER" else UNK
            if isinstance(fn, ast.Name) and fn.id in ("bool", "sum", "len", "list", "tuple"):
                for a in e.args:
                    self.kind(a, env, loc_node)
                return UNK
            if isinstance(fn, ast.Name) and fn.id == "Queue":
                return "Q"
            for a in e.args:
                self.kind(a, env, loc_node)
            return UNK
        if isinstance(e, (ast.GeneratorExp, ast.ListComp, ast.SetComp)):
            env2 = dict(env)
            for gen in e.generators:
                it = self.kind(gen.iter, env2, loc_node)
                if it in ("D1", "D2"):
                    it = ("ITER", L if it == "D1" else Rk)
                el = it[1] if isinstance(it, tuple) and it[0] == "ITER" else UNK
                if isinstance(it, tuple) and it[0] == "PAIR":
                    # iterating a literal tuple of pairs (directly or through a local bound to it): element kinds joined position-wise
                    elems = [x for x in it[1:] if isinstance(x, tuple) and x[0] == "PAIR"]
                    if elems and len(elems) == len(it) - 1 and all(len(x) == len(elems[0]) for x in elems):
                        el = ("PAIR",) + tuple(_join(x[i] for x in elems) for i in range(1, len(elems[0])))
                self.bind(gen.target, el, env2)
                for c in gen.ifs:
                    self.kind(c, env2, loc_node)
            return ("ITER", self.kind(e.elt, env2, loc_node))
        if isinstance(e, ast.Dict):
            ks = [self.kind(k, env, loc_node) for k in e.keys if k is not None]
            vs = [self.kind(v, env, loc_node) for v in e.values]
            if vs and all(v == "Q" for v in vs):
                for k, kn in zip(ks, e.keys):
                    self._expect(k, Rk, kn, "inner dict display key must be a remote id", loc_node)
                return "D2"
            return UNK
        if isinstance(e, ast.Compare):
            left = self.kind(e.left, env, loc_node)
            for op, c in zip(e.ops, e.comparators):
                right = self.kind(c, env, loc_node)
                if isinstance(op, (ast.In, ast.NotIn)):
                    if right == "D1":
                        self._expect(left, L, e, "membership in the outer dict is by local id", loc_node)
                    elif right == "D2":
                        self._expect(left, Rk, e, "membership in an inner dict is by remote id", loc_node)
                elif isinstance(op, (ast.Eq, ast.NotEq)):
                    if left in (L, Rk) and right in (L, Rk):
                        self.checked += 1
                        self.R.check(left == right, "KIND-store", "%s|%s" % (self.f.qualname, src(e)), "`%s` compares ids of the same kind" % src(e),
                                     "`%s` compares a %s id with a %s id" % (src(e), _nm(left), _nm(right)), self.f.loc(loc_node or e))
                left = right
            return UNK
        if isinstance(e, ast.BoolOp):
            for v in e.values:
                self.kind(v, env, loc_node)
            return UNK
        if isinstance(e, ast.UnaryOp):
            self.kind(e.operand, env, loc_node)
            return UNK
        if isinstance(e, ast.IfExp):
            self.kind(e.test, env, loc_node)
            a, b = self.kind(e.body, env, loc_node), self.kind(e.orelse, env, loc_node)
            return a if a == b else UNK
        for c in ast.iter_child_nodes(e):
            if isinstance(c, ast.expr):
                self.kind(c, env, loc_node)
        return UNK

    def bind(self, target, k, env):
        if isinstance(target, ast.Name):
            env[target.id] = k
        elif isinstance(target, (ast.Tuple, ast.List)):
            if isinstance(k, tuple) and k[0] == "PAIR" and len(k) - 1 == len(target.elts):
                for t, kk in zip(target.elts, k[1:]):
                    self.bind(t, kk, env)
            else:
                for t in target.elts:
                    self.bind(t, UNK, env)

    def _expect(self, got, want, e, what, loc_node):
        self.checked += 1
        ok = got in (want, ANY)
        self.R.check(ok, "KIND-store", "%s|%s" % (self.f.qualname, src(e)), "%s in `%s`" % (what, src(e)),
                     "`%s`: %s, but a %s is used (the tests cannot see this: they use equal local and remote ids)" % (src(e), what, _nm(got)), self.f.loc(loc_node or e))


def _nm(k):
    return {"L": "local id", "R": "remote id", "ANY": "wildcard", "?": "value of unknown kind"}.get(k, str(k))


def check(ctx, R):
    cls = ctx.pkg.cls("hidden_helpers._AdbPacketStore")
    total = 0
    for name, f in sorted(cls.methods.items()):
        if not f.params:
            continue
        sk = SK(R, f, f.params[0])
        env = sk.base_env()
        # statement-level walk with for-loop bindings
        _walk_stmts(ctx, sk, f.node.body, env)
        total += sk.checked
    R.count("KIND-store", total, 25)
    _queue_class(ctx, R, cls)
    # behaviour of each operation: abstract interpretation of its body over the shapes of the store (sa/absstore.py) against
    # the reference model's transitions (sa/storespec.py)
    from .. import storespec
    R.attempt(storespec.find_spec, ctx, R, cls, "FIND")
    R.attempt(storespec.get_spec, ctx, R, cls, "GET")
    R.attempt(storespec.clear_spec, ctx, R, cls, "CLEAR")
    R.attempt(storespec.clear_all_spec, ctx, R, cls, "CLEAR")
    R.attempt(storespec.len_spec, ctx, R, cls, "LEN")
    R.attempt(storespec.zeros_spec, ctx, R, cls, "ZEROS")
    R.attempt(storespec.contains_spec, ctx, R, cls, "CONTAINS")
    R.attempt(storespec.put_spec, ctx, R, cls, "PUT", clse_drop="allowed")
    store_lifetime_rules(ctx, R)
    R.assume("queue.Queue / asyncio.Queue are FIFO; dict iteration visits every item")
    R.undecided("equivalence with a reference model over operation histories; only key discipline, emptiness guards and FIFO-ness are static")


def _walk_stmts(ctx, sk, stmts, env):
    for st in stmts:
        if isinstance(st, ast.Expr) and isinstance(st.value, ast.Constant):
            continue
        if isinstance(st, (ast.For, ast.AsyncFor)):
            it = sk.kind(st.iter, env, st)
            el = it[1] if isinstance(it, tuple) and it[0] == "ITER" else UNK
            if isinstance(it, tuple) and it[0] == "PAIR":
                # iterating a literal tuple of pairs: join element kinds position-wise
                elems = [x for x in it[1:] if isinstance(x, tuple) and x[0] == "PAIR"]
                if elems and all(len(x) == len(elems[0]) for x in elems):
                    el = ("PAIR",) + tuple(_join(x[i] for x in elems) for i in range(1, len(elems[0])))
            env2 = dict(env)
            sk.bind(st.target, el, env2)
            _walk_stmts(ctx, sk, st.body, env2)
            _walk_stmts(ctx, sk, st.orelse, env)
        elif isinstance(st, ast.If):
            sk.kind(st.test, env, st)
            _walk_stmts(ctx, sk, st.body, dict(env))
            _walk_stmts(ctx, sk, st.orelse, dict(env))
        elif isinstance(st, ast.While):
            sk.kind(st.test, env, st)
            _walk_stmts(ctx, sk, st.body, dict(env))
        elif isinstance(st, ast.Assign):
            v = sk.kind(st.value, env, st)
            for t in st.targets:
                if isinstance(t, (ast.Name, ast.Tuple, ast.List)):
                    sk.bind(t, v, env)
                else:
                    tk = sk.kind(t, env, st)
                    if tk == "D2" and v not in ("D2", UNK):
                        sk.R.fail("KIND-store", "%s|%s" % (sk.f.qualname, norm_stmt(st)), "an outer slot of the store is assigned something that is not an inner dict", sk.f.loc(st))
        elif isinstance(st, ast.Delete):
            for t in st.targets:
                sk.kind(t, env, st)
        elif isinstance(st, ast.Return):
            if st.value is not None:
                sk.kind(st.value, env, st)
        elif isinstance(st, ast.Expr):
            sk.kind(st.value, env, st)
        elif isinstance(st, (ast.With, ast.Try)):
            _walk_stmts(ctx, sk, getattr(st, "body", []), env)
            for h in getattr(st, "handlers", []):
                _walk_stmts(ctx, sk, h.body, env)
            _walk_stmts(ctx, sk, getattr(st, "orelse", []), env)
            _walk_stmts(ctx, sk, getattr(st, "finalbody", []), env)
        elif isinstance(st, ast.AugAssign):
            sk.kind(st.value, env, st)


def _join(ks):
    s = set(ks) - {ANY}
    if not s:
        return ANY
    return next(iter(s)) if len(s) == 1 else UNK


def _not_empty_test(e, qexpr_key=None, qname=None):
    """Does condition e contain the conjunct `not <queue>.empty()` for the given queue (by name or expression key)?"""
    e = unawait(e)
    conj = e.values if isinstance(e, ast.BoolOp) and isinstance(e.op, ast.And) else [e]
    for c in conj:
        c = unawait(c)
        if isinstance(c, ast.UnaryOp) and isinstance(c.op, ast.Not) and isinstance(c.operand, ast.Call) and isinstance(c.operand.func, ast.Attribute) \
                and c.operand.func.attr == "empty" and not c.operand.args:
            recv = c.operand.func.value
            if qname is not None and isinstance(recv, ast.Name) and recv.id == qname:
                return True
            if qexpr_key is not None and key(recv) == qexpr_key:
                return True
    return False


def _find(ctx, R, cls):
    f = cls.methods.get("find")
    if f is None:
        raise AnalysisError("FIND", "_AdbPacketStore.find not found")
    g = ctx.cfg(f)
    df = ctx.df(f)
    selfn = f.params[0]
    sk = SK(R, f, selfn)
    env = sk.base_env()
    n = 0
    for rn in g.live_nodes():
        if not (rn.kind == "stmt" and isinstance(rn.ast, ast.Return)):
            continue
        v = unawait(rn.ast.value) if rn.ast.value is not None else None
        if v is None or (isinstance(v, ast.Constant) and v.value is None):
            continue
        n += 1
        sub = "%s|%s" % (f.qualname, norm_stmt(rn.ast))
        if isinstance(v, ast.Call) and isinstance(v.func, ast.Name) and v.func.id == "next" and len(v.args) == 2 and isinstance(v.args[0], ast.GeneratorExp) \
                and isinstance(v.args[1], ast.Constant) and v.args[1].value is None:
            ge = v.args[0]
            env2 = dict(env)
            ok_iter = True
            last_q = None
            conds = []
            for gen in ge.generators:
                it = sk.kind(gen.iter, env2)
                if it in ("D1", "D2"):
                    ok_iter = False       # iterating keys only: no queue to test
                el = it[1] if isinstance(it, tuple) and it[0] == "ITER" else UNK
                sk.bind(gen.target, el, env2)
                if isinstance(el, tuple) and el[0] == "PAIR" and el[2] == "Q" and isinstance(gen.target, ast.Tuple) and isinstance(gen.target.elts[1], ast.Name):
                    last_q = (gen.target.elts[0], gen.target.elts[1].id)
                conds.extend(gen.ifs)
            pair = sk.kind(ge.elt, env2)
            R.check(pair == ("PAIR", Rk, L), "FIND", sub + "|pair", "returns (remote id, local id)", "find() returns a pair of kinds %s, expected (remote, local)" % (pair,), f.loc(rn.ast))
            guarded = last_q is not None and any(_not_empty_test(c, qname=last_q[1]) for c in conds)
            R.check(guarded and ok_iter, "FIND", sub + "|non-empty", "only pairs whose queue is non-empty are returned",
                    "a wildcard look-up can return a pair whose queue is empty (no `not <queue>.empty()` filter on the queue of the returned key)", f.loc(rn.ast))
            # the returned inner key is the iterated key, or the given arg0 constrained to equal it
            if last_q is not None and isinstance(ge.elt, ast.Tuple) and len(ge.elt.elts) == 2:
                k0 = ge.elt.elts[0]
                kq = last_q[0]
                same = isinstance(k0, ast.Name) and isinstance(kq, ast.Name) and k0.id == kq.id
                eq = False
                for c in conds:
                    cc = c.values if isinstance(c, ast.BoolOp) and isinstance(c.op, ast.And) else [c]
                    for x in cc:
                        if isinstance(x, ast.Compare) and len(x.ops) == 1 and isinstance(x.ops[0], ast.Eq):
                            names = {varkey(x.left), varkey(x.comparators[0])}
                            if names == {varkey(k0), varkey(kq)} and None not in names:
                                eq = True
                R.check(same or eq, "FIND", sub + "|key-of-queue", "the remote id returned is the key of the queue that was tested", "the remote id returned is not the key of the queue that was tested non-empty", f.loc(rn.ast))
        elif isinstance(v, ast.Tuple) and len(v.elts) == 2:
            pair = sk.kind(v, env)
            R.check(pair == ("PAIR", Rk, L), "FIND", sub + "|pair", "returns (remote id, local id)", "find() returns a pair of kinds %s, expected (remote, local)" % (pair,), f.loc(rn.ast))
            a0, a1 = v.elts
            qk = key(ast.Subscript(value=ast.Subscript(value=_attr(selfn, "_dict"), slice=a1, ctx=ast.Load()), slice=a0, ctx=ast.Load()))
            facts = df.facts(rn)
            emp = ("truthy", key(ast.Call(func=ast.Attribute(value=ast.Subscript(value=ast.Subscript(value=_attr(selfn, "_dict"), slice=a1, ctx=ast.Load()), slice=a0, ctx=ast.Load()), attr="empty", ctx=ast.Load()), args=[], keywords=[])))
            ok = any(fa[0] == emp and fa[1] is False for fa in facts)
            R.check(ok, "FIND", sub + "|non-empty", "an exact pair is returned only if its queue is non-empty",
                    "an exact look-up can return its pair although the queue may be empty or absent (no dominating `not self._dict[arg1][arg0].empty()`)", f.loc(rn.ast))
        else:
            R.fail("FIND", sub, "unrecognised non-None result of find(): `%s`" % src(v), f.loc(rn.ast))
    R.count("FIND", n, 4)


def _attr(base, attr):
    return ast.Attribute(value=ast.Name(id=base, ctx=ast.Load()), attr=attr, ctx=ast.Load())


def _queue_class(ctx, R, cls):
    mod = cls.mod
    cands = []
    for n in ast.walk(mod.tree):
        if isinstance(n, ast.ImportFrom):
            for a in n.names:
                if (a.asname or a.name) == "Queue":
                    cands.append((n.module, a.name))
        if isinstance(n, ast.Import):
            for a in n.names:
                if (a.asname or a.name) == "Queue":
                    cands.append((a.name, None))
    R.check(bool(cands) and all(c in FIFO_QUEUES for c in cands), "FIFO", mod.name + "|Queue", "Queue is a FIFO queue class (%s)" % ", ".join("%s.%s" % c for c in cands),
            "the name Queue can denote %s: only FIFO queues (asyncio.Queue / queue.Queue) keep arrival order per pair" % cands, mod.relpath)
    R.check("Queue" not in mod.assigns and "Queue" not in mod.classes, "FIFO", mod.name + "|Queue-rebound", "Queue is not rebound in the module", "Queue is redefined in the module", mod.relpath)
    # construction without arguments (unbounded, so put_nowait never fails)
    from ..util import store_level
    for f in cls.methods.values():
        g_ = ctx.cfg(f)
        where = {}
        for n_ in g_.nodes:
            for c_ in node_calls(n_):
                where[id(c_)] = n_
        for c in own_calls(f):
            if isinstance(c.func, ast.Name) and c.func.id == "Queue":
                R.check(not c.args and not c.keywords, "FIFO", "%s|%s" % (f.qualname, norm_stmt(c)), "unbounded queue", "queue constructed with arguments `%s` (a bounded queue makes put_nowait fail)" % src(c), f.loc(c))
            lv = store_level(ctx, f, where.get(id(c)), c.func.value) if isinstance(c.func, ast.Attribute) else None
            if isinstance(c.func, ast.Attribute) and c.func.attr in ("put", "get", "put_nowait", "get_nowait", "appendleft", "pop", "popleft", "append") and (lv == 2 or (lv is None and "_dict" in src(c.func.value))):
                R.check(c.func.attr in ("put_nowait", "get_nowait"), "FIFO", "%s|%s" % (f.qualname, norm_stmt(c)), "queue used through %s" % c.func.attr,
                        "queue accessed through `%s` (only put_nowait/get_nowait keep FIFO order without blocking)" % c.func.attr, f.loc(c))


def _get(ctx, R, cls):
    """get(): dequeue from the resolved pair's queue, forget that same pair on CLSE, return (cmd, remote, local, data) of it.
    All comparisons are on terms (def-use), so the resolved pair may live in the parameters or in fresh locals."""
    from ..engine import terms
    from ..terms import show
    T = terms(ctx)
    f = cls.methods.get("get")
    if f is None:
        raise AnalysisError("GET", "_AdbPacketStore.get not found")
    g = ctx.cfg(f)
    df = ctx.df(f)
    selfn = f.params[0]
    gets = [(n, c) for n in g.live_nodes() for c in node_calls(n) if call_attr(c) == "get_nowait"]
    R.check(len(gets) == 1, "GET", f.qualname + "|dequeue", "one dequeue site", "expected one get_nowait in get(), found %d" % len(gets), f.loc())
    if len(gets) != 1:
        return
    gn, gc = gets[0]
    recv = gc.func.value
    okq = isinstance(recv, ast.Subscript) and isinstance(recv.value, ast.Subscript) and varkey(recv.value.value) == selfn + "._dict"
    R.check(okq, "GET", f.qualname + "|queue", "dequeues from a queue of the two-level dict", "get() dequeues from `%s`" % src(recv), f.loc(gn.ast))
    if not okq:
        return
    k0 = T.term(f, gn, recv.slice)          # inner key: remote id
    k1 = T.term(f, gn, recv.value.slice)    # outer key: local id
    item = T.term(f, gn, gc)
    # the resolved pair is the given pair, or the pair find() returned for it (in the same order)
    findt = ("call", cls.qualname + ".find", (("p", selfn), ("p", "arg0"), ("p", "arg1")), ())

    def pair_ok(t, pos, pname):
        alts = set(t[1]) if t[0] == "phi" else {t}
        if t[0] == "ite":
            alts = {t[2], t[3]}
        return ("p", pname) in alts and alts <= {("p", pname), ("proj", findt, pos)}
    R.check(pair_ok(k0, 0, "arg0") and pair_ok(k1, 1, "arg1"), "GET", f.qualname + "|resolved-pair", "the queue read is that of (arg0, arg1), wildcards resolved through find(arg0, arg1) in the same order",
            "get() reads the queue of (%s, %s), which is not the given pair resolved through find(arg0, arg1)" % (show(k0), show(k1)), f.loc(gn.ast))
    # returns (cmd, remote, local, data) of that item and that pair
    for rn in g.live_nodes():
        if rn.kind == "stmt" and isinstance(rn.ast, ast.Return):
            rt = T.term(f, rn, rn.ast.value) if rn.ast.value is not None else ("none",)
            ok = rt == ("tuple", ("proj", item, 0), k0, k1, ("proj", item, 1))
            R.check(ok, "GET", "%s|%s" % (f.qualname, norm_stmt(rn.ast)), "returns (cmd, remote id, local id, data): the dequeued item under the pair it was stored with",
                    "get() returns %s; expected (item[0], <resolved remote id>, <resolved local id>, item[1]) of the packet just dequeued" % show(rt), f.loc(rn.ast))
    # CLSE forgets exactly that pair
    clears = [(n, c) for n in g.live_nodes() for c in node_calls(n) if call_attr(c) == "clear" and isinstance(c.func, ast.Attribute) and varkey(c.func.value) == selfn]
    ok = len(clears) == 1
    why = "get() does not clear exactly the retrieved pair when (and only when) the packet is a CLSE"
    if ok:
        cn, cc = clears[0]
        a = [T.term(f, cn, x) for x in cc.args]
        if a != [k0, k1]:
            ok = False
            why = "on CLSE get() clears (%s) instead of the pair it dequeued from (%s, %s): a CLOSE retrieved through a wildcard does not forget the stream" % (", ".join(show(x) for x in a), show(k0), show(k1))
        # governed by item[0] == CLSE, on every such path
        tests = []
        for tn in g.live_nodes():
            if tn.kind == "test":
                t = unawait(tn.ast.test)
                if isinstance(t, ast.Compare) and len(t.ops) == 1 and isinstance(t.ops[0], (ast.Eq, ast.NotEq)):
                    x, y = T.term(f, tn, t.left), T.term(f, tn, t.comparators[0])
                    if {x, y} == {("proj", item, 0), ("c", b"CLSE")}:
                        tests.append((tn, "true" if isinstance(t.ops[0], ast.Eq) else "false"))
        if ok and len(tests) == 1:
            tn, lab = tests[0]
            other = "false" if lab == "true" else "true"
            starts = [d for d, l in g.succ[tn] if l == lab]
            every = g.exit not in g.reach(starts, avoid=[cn], exc=False, include_start=True)
            only = cn not in g.reach_from_edge(tn, other, exc=False)
            ok = every and only and g.dominates([gn], cn)
        elif ok:
            ok = False
    R.check(ok, "GET", f.qualname + "|clse-forgets", "retrieving a stream's CLSE forgets exactly the pair it was retrieved from", why, f.loc())


def _clear(ctx, R, cls):
    f = cls.methods.get("clear")
    if f is None:
        raise AnalysisError("CLEAR", "_AdbPacketStore.clear not found")
    g = ctx.cfg(f)
    df = ctx.df(f)
    selfn = f.params[0]
    dels = [n for n in g.live_nodes() if n.kind == "stmt" and isinstance(n.ast, ast.Delete)]
    inner = [n for n in dels if isinstance(n.ast.targets[0], ast.Subscript) and isinstance(n.ast.targets[0].value, ast.Subscript)]
    outer = [n for n in dels if n not in inner]
    ok = len(inner) == 1 and varkey(inner[0].ast.targets[0].slice) == "arg0" and varkey(inner[0].ast.targets[0].value.slice) == "arg1"
    R.check(ok, "CLEAR", f.qualname + "|inner", "clear() deletes the queue of (arg1, arg0)", "clear() does not delete exactly self._dict[arg1][arg0]", f.loc())
    if ok:
        facts = df.facts(inner[0])
        mem = sum(1 for fa in facts if fa[0][0] == "in" and fa[1] is True)
        R.check(mem >= 2, "CLEAR", f.qualname + "|guarded", "deletion guarded by membership (clearing an absent pair is a no-op)", "the deletion is not guarded by `arg1 in dict and arg0 in dict[arg1]`", f.loc(inner[0].ast))
    ok2 = len(outer) == 1 and varkey(outer[0].ast.targets[0].slice) == "arg1" and (not inner or g.dominates(inner, outer[0]))
    if ok2:
        facts = df.facts(outer[0])
        ok2 = any(fa[0][0] == "truthy" and fa[1] is False and "_dict" in fa[0][1] for fa in facts)
    R.check(ok2, "CLEAR", f.qualname + "|outer", "an outer entry is removed only when it became empty", "clear() removes the whole local-id entry although other remote ids may still have packets (or never removes empty entries)", f.loc())


def _len(ctx, R, cls):
    f = cls.methods.get("__len__")
    if f is None:
        raise AnalysisError("LEN", "_AdbPacketStore.__len__ not found")
    rets = [s for s in walk_own(f.node) if isinstance(s, ast.Return)]
    ok = len(rets) == 1 and isinstance(rets[0].value, ast.Call) and isinstance(rets[0].value.func, ast.Name) and rets[0].value.func.id == "sum" and len(rets[0].value.args) == 1 \
        and isinstance(rets[0].value.args[0], (ast.GeneratorExp, ast.ListComp))
    if ok:
        ge = rets[0].value.args[0]
        sk = SK(R, f, f.params[0])
        env = {}
        qn = None
        for gen in ge.generators:
            it = sk.kind(gen.iter, env)
            el = it[1] if isinstance(it, tuple) and it[0] == "ITER" else UNK
            sk.bind(gen.target, el, env)
            if gen.ifs:
                pass
        # element: `not q.empty()` (counted as 1) for a queue variable, or 1 with that filter
        e = ge.elt
        counted = False
        if isinstance(e, ast.UnaryOp) and isinstance(e.op, ast.Not) and isinstance(e.operand, ast.Call) and isinstance(e.operand.func, ast.Attribute) and e.operand.func.attr == "empty":
            counted = sk.kind(e.operand.func.value, env) == "Q"
        elif isinstance(e, ast.Constant) and e.value == 1:
            for gen in ge.generators:
                for c in gen.ifs:
                    for nm, kk in env.items():
                        if kk == "Q" and _not_empty_test(c, qname=nm):
                            counted = True
        ok = counted and not any(gen.ifs for gen in ge.generators[:-1])
    R.check(ok, "LEN", f.qualname, "len() counts the pairs whose queue is non-empty, over the whole store", "len() does not count exactly the non-empty queues of all pairs", f.loc())


def _zeros(ctx, R, cls):
    f = cls.methods.get("find_allow_zeros")
    if f is None:
        raise AnalysisError("ZEROS", "find_allow_zeros not found")
    g = ctx.cfg(f)
    fors = [s for s in walk_own(f.node) if isinstance(s, ast.For)]
    ok = len(fors) == 1 and isinstance(fors[0].iter, (ast.Tuple, ast.List)) and all(isinstance(x, ast.Tuple) and len(x.elts) == 2 for x in fors[0].iter.elts)
    if ok:
        def pk(t):
            out = []
            for e in t.elts:
                if isinstance(e, ast.Name):
                    out.append(e.id)
                elif isinstance(e, ast.Constant):
                    out.append(e.value)
                else:
                    out.append("?")
            return tuple(out)
        pairs = [pk(x) for x in fors[0].iter.elts]
        ok = len(pairs) == 4 and pairs[0] == ("arg0", "arg1") and set(pairs[1:]) == {("arg0", 0), (0, "arg1"), (0, 0)}
        R.check(ok, "ZEROS", f.qualname + "|candidates", "tries the exact pair first, then exactly (arg0,0), (0,arg1), (0,0)", "the look-up candidates are %s; expected the exact pair first, then the three zero fall-backs" % (pairs,), f.loc(fors[0]))
        tgt = fors[0].target
        names = [varkey(t) for t in tgt.elts] if isinstance(tgt, ast.Tuple) else []
        body_ok = False
        finds = [c for s in fors[0].body for c in ast.walk(s) if isinstance(c, ast.Call) and call_attr(c) == "find"]
        if len(finds) == 1 and [varkey(a) for a in finds[0].args] == names and len(names) == 2:
            body_ok = True
        R.check(body_ok, "ZEROS", f.qualname + "|lookup", "each candidate is looked up as find(first, second)", "the candidates are not passed to find() in (arg0, arg1) order", f.loc(fors[0]))
        # returns the first hit, None otherwise
        rets = [s for s in walk_own(f.node) if isinstance(s, ast.Return)]
        inloop = [r for r in rets if any(r is x for s in fors[0].body for x in ast.walk(s))]
        after = [r for r in rets if r not in inloop]
        df = ctx.df(f)
        hit_ok = len(inloop) == 1 and inloop[0].value is not None and isinstance(inloop[0].value, ast.Name)
        if hit_ok:
            rn = [n for n in g.nodes_of(inloop[0])][0]
            d = df.unique_def(rn, inloop[0].value.id)
            hit_ok = d is not None and isinstance(unawait(d.value), ast.Call) and unawait(d.value) is finds[0] and any(fa[0] == ("truthy", key(inloop[0].value)) and fa[1] is True for fa in df.facts(rn))
        R.check(hit_ok, "ZEROS", f.qualname + "|first-hit", "returns the first candidate that has a pending packet", "find_allow_zeros does not return the first successful look-up", f.loc(fors[0]))
        R.check(all(r.value is None or (isinstance(r.value, ast.Constant) and r.value.value is None) for r in after), "ZEROS", f.qualname + "|none", "returns None when nothing matches", None, f.loc())
    else:
        R.fail("ZEROS", f.qualname + "|shape", "find_allow_zeros does not iterate a literal tuple of candidate pairs", f.loc())


def _contains(ctx, R, cls):
    f = cls.methods.get("__contains__")
    if f is None:
        return
    rets = [s for s in walk_own(f.node) if isinstance(s, ast.Return)]
    ok = len(rets) == 1 and rets[0].value is not None
    if ok:
        finds = [c for c in ast.walk(rets[0].value) if isinstance(c, ast.Call) and call_attr(c) == "find"]
        ok = len(finds) == 1 and [src(a) for a in finds[0].args] == ["%s[0]" % f.params[1], "%s[1]" % f.params[1]]
    R.check(ok, "CONTAINS", f.qualname, "`pair in store` == find(pair[0], pair[1]) has a pending packet", "__contains__ does not delegate to find(value[0], value[1])", f.loc())


def store_lifetime_rules(ctx, R):
    """An entry of the store lives from the first parked packet of its pair until that pair's CLSE is retrieved (or everything is
    cleared on close/connect): who may delete entries, who may call clear()/clear_all(), what state the store has."""
    from ..roles import all_roles
    cls = ctx.pkg.cls("hidden_helpers._AdbPacketStore")
    # (1) the store's state is the dict of dicts only
    for name, m in sorted(cls.methods.items()):
        if not m.params:
            continue
        selfn = m.params[0]
        from ..util import attr_writes
        for k, st, kind in attr_writes(m):
            parts = k.split(".")
            if parts[0] == selfn and len(parts) >= 2 and parts[1] != "_dict":
                R.fail("STORE-state", "%s.%s" % (cls.qualname, parts[1]), "the packet store keeps additional state `%s` (written in %s): packets can survive clear()/clear_all() or bypass the per-pair queues" % (parts[1], name), m.loc(st))
            if k == selfn + "._dict" and kind in ("assign", "aug") and name not in ("__init__", "clear_all"):
                R.fail("STORE-state", "%s|%s" % (m.qualname, norm_stmt(st)), "the store's dict is rebound in %s (only the constructor and clear_all may)" % name, m.loc(st))
        # (2) removal of entries only in clear / clear_all
        removes = []
        for n in walk_own(m.node):
            if isinstance(n, ast.Delete):
                for t in n.targets:
                    b = t
                    while isinstance(b, ast.Subscript):
                        b = b.value
                    if varkey(b) == selfn + "._dict":
                        removes.append(n)
            if isinstance(n, ast.Call) and isinstance(n.func, ast.Attribute) and n.func.attr in ("pop", "popitem", "clear"):
                b = n.func.value
                while isinstance(b, ast.Subscript):
                    b = b.value
                if varkey(b) == selfn + "._dict":
                    removes.append(n)
        for r in removes:
            R.check(name in ("clear", "clear_all"), "STORE-lifetime", "%s|%s" % (m.qualname, norm_stmt(r)), "entries are removed only by clear()/clear_all()",
                    "`%s` removes a store entry in %s: an entry must live until its stream's CLSE is retrieved (put() discards a CLSE whose pair has no entry, so a pruned live stream never sees its close)" % (norm_stmt(r), name), m.loc(r))
    R.ok("STORE-state", cls.qualname, "the store's only state is the dict of dicts", cls.mod.relpath, trivial=True)
    # (3) who may call clear / clear_all
    clear, clear_all = cls.methods.get("clear"), cls.methods.get("clear_all")
    T = None
    for roles in all_roles(ctx):
        for cs in ctx.cg.callers_of(clear_all) if clear_all else []:
            if cs.func.mod is roles.mod:
                ok = cs.func in (roles.io_close, roles.io_connect)
                R.check(ok, "STORE-lifetime", "%s|clear_all" % cs.func.qualname, "clear_all() is called on close/connect only",
                        "%s wipes the whole packet store: packets parked for other live streams are lost" % cs.func.qualname, cs.func.loc(cs.node))
        for cs in ctx.cg.callers_of(clear) if clear else []:
            f = cs.func
            if f.mod is not roles.mod:
                continue
            g = ctx.cfg(f)
            df = ctx.df(f)
            nodes = [n for n in g.nodes if any(c is cs.node for c in node_calls(n))]
            ok = f is roles.pump and bool(nodes)
            if ok:
                n = nodes[0]
                ok = any(fa[0][0] == "eq" and fa[1] is True and any("CLSE" in x for x in fa[0][1:]) for fa in df.facts(n))
            R.check(ok, "STORE-lifetime", "%s|clear" % f.qualname, "a pair is forgotten by the pump only when its own CLSE was read off the wire",
                    "%s forgets a store entry without the stream's CLSE having been received" % f.qualname, f.loc(cs.node))
    for cs in ctx.cg.callers_of(clear) if clear else []:
        if cs.func.cls is cls:
            R.check(cs.func.name == "get", "STORE-lifetime", "%s|clear" % cs.func.qualname, "inside the store only get() (on CLSE) forgets a pair", "%s forgets a store entry" % cs.func.qualname, cs.func.loc(cs.node))


def _put_early_returns(ctx, R, cls):
    """put(): the only packets that may be discarded are CLSE packets for a pair that has no entry (left unspecified, see C06)."""
    f = cls.methods.get("put")
    if f is None:
        raise AnalysisError("PUT", "_AdbPacketStore.put not found")
    g = ctx.cfg(f)
    df = ctx.df(f)
    selfn = f.params[0]
    enq = [n for n in g.live_nodes() if any(call_attr(c) in ("put_nowait", "put", "append") for c in node_calls(n))]
    d1 = key(_attr(selfn, "_dict"))
    a1 = key(ast.Name(id="arg1", ctx=ast.Load()))
    a0 = key(ast.Name(id="arg0", ctx=ast.Load()))
    inner = key(ast.Subscript(value=_attr(selfn, "_dict"), slice=ast.Name(id="arg1", ctx=ast.Load()), ctx=ast.Load()))
    for n in g.live_nodes():
        if n.kind == "stmt" and isinstance(n.ast, ast.Return) and n in g.reach([g.entry], avoid=enq, exc=False, include_start=True):
            facts = df.facts(n)
            is_clse = any(fa[0][0] == "eq" and fa[1] is True and key(ast.Name(id="cmd", ctx=ast.Load())) in fa[0][1:] and any("CLSE" in x for x in fa[0][1:]) for fa in facts)
            no_outer = any(fa[0] == ("in", a1, d1) and fa[1] is False for fa in facts)
            no_inner = any(fa[0] == ("in", a0, inner) and fa[1] is False for fa in facts)
            R.check(is_clse and (no_outer or no_inner), "PUT", "%s|discard|%s" % (f.qualname, " & ".join(sorted("%s%s" % ("" if fa[1] else "not ", fa[0][0]) for fa in facts))),
                    "a packet is discarded only if it is a CLSE for a pair without an entry",
                    "put() can discard a packet that is not (a CLSE for a pair that has no entry): a pair with an existing (possibly drained) queue, or a non-CLSE packet, loses data", f.loc(n.ast))
