"""C02 - every packet the host emits is a well-formed ADB message.

Decided: (1) who-may-call: transport writes happen only below the send primitive; (2) the send primitive writes
PACK(msg) first and msg.data iff non-empty, nothing else, msg unmodified; (3) the six header fields as normalised
terms equal the AOSP header (command word, arg0, arg1, LEN(data), MOD32(BYTESUM(data)), NOT32(command word)) in a
format of six little-endian u32; (4) command table equals protocol.txt; (5) unpack uses the same format and returns
fields 0-4 in order; (6) every construction site passes a known command; (7) message fields are immutable.
Also: (1b) every call of the send primitive sits inside `with self._transport_lock` and the send wrapper sends on every normal path (LOCK-send);
(8) the write loop is entered whenever the buffer is not empty, and no caller swallows the AdbTimeoutError by which it reports a half-written
message (RET, RET-retry, RET-swallow: same instances as C15).
"""
import ast
import struct

from ..loader import AnalysisError, walk_own
from ..dataflow import key, varkey, unawait, test_facts
from ..engine import terms
from ..roles import all_roles
from ..terms import show, C
from ..util import subst_copies, src, node_calls, call_attr, norm_stmt, attr_writes, own_calls

LEVEL = "other"

# AOSP system/core/adb/protocol.txt / adb.h   (independent oracle)
ORACLE_COMMANDS = {
    b"SYNC": 0x434e5953, b"CNXN": 0x4e584e43, b"AUTH": 0x48545541, b"OPEN": 0x4e45504f,
    b"OKAY": 0x59414b4f, b"CLSE": 0x45534c43, b"WRTE": 0x45545257,
}
# newer protocol revisions also define STLS; accepted if present with the right word
ORACLE_OPTIONAL = {b"STLS": 0x534c5453}


def expand_format(fmt):
    """b'<6I' -> ('<', 'IIIIII'); None if the format uses anything but plain fixed-size codes."""
    if isinstance(fmt, bytes):
        try:
            fmt = fmt.decode("ascii")
        except UnicodeDecodeError:
            return None
    if not isinstance(fmt, str) or not fmt:
        return None
    order = "@"
    if fmt[0] in "@=<>!":
        order, fmt = fmt[0], fmt[1:]
    out = ""
    num = ""
    for ch in fmt:
        if ch.isdigit():
            num += ch
        elif ch.isspace():
            continue
        elif ch in "sp":
            out += (num or "1") + ch + ";"
            num = ""
        else:
            out += ch * int(num or "1")
            num = ""
    return order, out


def is_six_le_u32(fmt):
    e = expand_format(fmt)
    return e is not None and e[0] == "<" and len(e[1]) == 6 and all(c in "IL" for c in e[1])


def len_cond_eval(test, xkey, lo, hi):
    """Evaluate `test` knowing only that len(X) is in [lo, hi] (hi None = unbounded), X identified by key.
    Returns True / False / None (unknown)."""
    t = unawait(test)
    if key(t) == xkey:
        if lo >= 1:
            return True
        if hi == 0:
            return False
        return None
    if isinstance(t, ast.UnaryOp) and isinstance(t.op, ast.Not):
        r = len_cond_eval(t.operand, xkey, lo, hi)
        return None if r is None else (not r)
    if isinstance(t, ast.BoolOp):
        rs = [len_cond_eval(v, xkey, lo, hi) for v in t.values]
        if isinstance(t.op, ast.And):
            if any(r is False for r in rs):
                return False
            return True if all(r is True for r in rs) else None
        if any(r is True for r in rs):
            return True
        return False if all(r is False for r in rs) else None
    if isinstance(t, ast.Compare) and len(t.ops) == 1:
        a, b, op = t.left, t.comparators[0], t.ops[0]

        def is_len(e):
            return isinstance(e, ast.Call) and isinstance(e.func, ast.Name) and e.func.id == "len" and len(e.args) == 1 and key(e.args[0]) == xkey

        def const(e):
            return e.value if isinstance(e, ast.Constant) and isinstance(e.value, int) and not isinstance(e.value, bool) else None
        flip = {ast.Lt: ast.Gt, ast.Gt: ast.Lt, ast.LtE: ast.GtE, ast.GtE: ast.LtE, ast.Eq: ast.Eq, ast.NotEq: ast.NotEq}
        if is_len(b) and const(a) is not None and type(op) in flip:
            a, b, op = b, a, flip[type(op)]()
        if is_len(a) and const(b) is not None:
            k = const(b)
            INF = float("inf")
            h = INF if hi is None else hi
            if isinstance(op, ast.Gt):
                return True if lo > k else (False if h <= k else None)
            if isinstance(op, ast.GtE):
                return True if lo >= k else (False if h < k else None)
            if isinstance(op, ast.Lt):
                return True if h < k else (False if lo >= k else None)
            if isinstance(op, ast.LtE):
                return True if h <= k else (False if lo > k else None)
            if isinstance(op, ast.Eq):
                return True if lo == h == k else (False if (k < lo or k > h) else None)
            if isinstance(op, ast.NotEq):
                return False if lo == h == k else (True if (k < lo or k > h) else None)
    return None


def check(ctx, R):
    pkg = ctx.pkg
    T = terms(ctx)
    _tables(ctx, R)
    _message_class(ctx, R, T)
    for roles in all_roles(ctx):
        _writers(ctx, R, roles)
        _send_primitive(ctx, R, roles, T)
        _send_under_lock(ctx, R, roles)
        _construction_sites(ctx, R, roles, T)
    # "followed by exactly the announced number of payload bytes": each buffer handed to the writer reaches the wire whole (same instances as C15)
    from .c15 import write_sites_rules
    write_sites_rules(ctx, R)
    R.assume("struct.pack/unpack implement the documented format codes; sum() over a bytes-like object is the byte sum")
    R.undecided("library semantics of `struct` (trusted)")


# ---------------------------------------------------------------------------------------------------
def _tables(ctx, R):
    f = ctx.fold
    ids = f.need("constants", "IDS", "CONST")
    itw = f.need("constants", "ID_TO_WIRE", "CONST")
    wti = f.need("constants", "WIRE_TO_ID", "CONST")
    fmt = f.need("constants", "MESSAGE_FORMAT", "CONST")
    size = f.need("constants", "MESSAGE_SIZE", "CONST")
    allowed = dict(ORACLE_COMMANDS)
    allowed.update(ORACLE_OPTIONAL)
    for cmd in ORACLE_COMMANDS:
        R.check(cmd in itw and itw[cmd] == ORACLE_COMMANDS[cmd], "CONST-cmd", "ID_TO_WIRE[%s]" % cmd.decode(),
                "command word %s = 0x%08x as in protocol.txt" % (cmd.decode(), ORACLE_COMMANDS[cmd]),
                "command word for %s is %s, protocol.txt says 0x%08x" % (cmd.decode(), hex(itw[cmd]) if cmd in itw else "missing", ORACLE_COMMANDS[cmd]),
                "adb_shell/constants.py")
    for cmd, w in sorted(itw.items()):
        if cmd not in ORACLE_COMMANDS:
            R.check(cmd in allowed and allowed[cmd] == w, "CONST-cmd", "ID_TO_WIRE[%r]" % cmd, "optional command with the right word",
                    "unknown command %r in the host's command table" % cmd, "adb_shell/constants.py")
    R.check(set(ids) == set(itw), "CONST-cmd", "IDS", "IDS and ID_TO_WIRE list the same commands", None, "adb_shell/constants.py")
    inv = {w: c for c, w in itw.items()}
    R.check(dict(wti) == inv, "CONST-inv", "WIRE_TO_ID", "WIRE_TO_ID is the inverse of ID_TO_WIRE (reader and writer tables agree)",
            "WIRE_TO_ID is not the inverse of ID_TO_WIRE", "adb_shell/constants.py")
    R.check(is_six_le_u32(fmt), "CONST-fmt", "MESSAGE_FORMAT", "header format %r = six little-endian u32" % fmt,
            "header format %r is not six little-endian unsigned 32-bit fields" % (fmt,), "adb_shell/constants.py")
    R.check(size == 24, "CONST-fmt", "MESSAGE_SIZE", "header size folds to 24", "header size folds to %r, not 24" % (size,), "adb_shell/constants.py")


def _message_class(ctx, R, T):
    pkg = ctx.pkg
    cls = None
    pack = None
    for c in pkg.mod("adb_message").classes.values():
        for m in c.methods.values():
            for call in own_calls(m):
                cs = ctx.cg.site(call)
                if cs is not None and cs.ext == "struct.pack":
                    cls, pack = c, m
    if cls is None:
        raise AnalysisError("TERM-pack", "no method of adb_message calls struct.pack (message class not found)")
    g = ctx.cfg(pack)
    rets = [n for n in g.live_nodes() if n.kind == "stmt" and isinstance(n.ast, ast.Return)]
    if len(rets) != 1:
        raise AnalysisError("TERM-pack", "%s has %d return statements, expected 1" % (pack.qualname, len(rets)))
    t = T.term(pack, rets[0], rets[0].ast.value, {pack.params[0]: ("p", "self:" + cls.qualname)})
    P = lambda n: ("p", "%s.%s" % (cls.name, n))
    loc = pack.loc(rets[0].ast)
    if not (t[0] == "call" and t[1] == "struct.pack" and len(t[2]) == 7 and not t[3]):
        R.fail("TERM-pack", pack.qualname, "pack() does not return struct.pack(format, six fields): %s" % show(t), loc)
        return
    fmt = t[2][0]
    R.check(fmt[0] == "c" and is_six_le_u32(fmt[1]), "TERM-pack", pack.qualname + "|format", "packs with six little-endian u32 (%s)" % show(fmt),
            "pack format %s is not six little-endian u32" % show(fmt), loc)
    want = [("command", ("WIRE", P("command"))), ("arg0", P("arg0")), ("arg1", P("arg1")), ("data_length", ("LEN", P("data"))),
            ("data_check", None), ("magic", ("NOT32", ("WIRE", P("command"))))]
    for i, (nm, w) in enumerate(want):
        got = t[2][1 + i]
        if nm == "data_check":
            from ..terms import alts_of
            alts = alts_of(got)
            good = {("MOD32", ("BYTESUM", P("data")))}
            legacy = {("MOD32", ("ORDSUM", P("data")))}      # str / py2 branches of checksum()
            ok = bool(alts & good) and alts <= (good | legacy)
            R.check(ok, "TERM-pack", pack.qualname + "|data_check", "field 4 = byte sum of data mod 2^32",
                    "field 4 (data_check) is %s, expected MOD32(BYTESUM(data))" % show(got), loc)
        else:
            R.check(got == w, "TERM-pack", pack.qualname + "|" + nm, "field %d (%s) = %s" % (i, nm, show(w)),
                    "field %d (%s) is %s, expected %s" % (i, nm, show(got), show(w)), loc)
    # checksum(): the branches taken for bytes and bytearray are the byte sum
    ck = pkg.func("adb_message.checksum")
    _checksum_branches(ctx, R, T, ck)
    # unpack: same format, fields 0..4 in order
    up = pkg.func("adb_message.unpack")
    ug = ctx.cfg(up)
    udf = ctx.df(up)
    sites = [(n, c) for n in ug.nodes for c in node_calls(n) if ctx.cg.site(c) is not None and ctx.cg.site(c).ext == "struct.unpack"]
    if len(sites) != 1:
        raise AnalysisError("TERM-unpack", "unpack() has %d struct.unpack sites" % len(sites))
    n, c = sites[0]
    ft = T.term(up, n, c.args[0]) if c.args else ("opaque",)
    R.check(ft[0] == "c" and is_six_le_u32(ft[1]), "TERM-unpack", up.qualname + "|format", "unpacks with the header format",
            "unpack format %s is not six little-endian u32" % show(ft), up.loc(n.ast))
    R.check(len(c.args) == 2 and isinstance(c.args[1], ast.Name) and c.args[1].id == up.params[0], "TERM-unpack", up.qualname + "|arg",
            "unpacks the message given", "unpack() does not decode its own argument", up.loc(n.ast))
    rets = [x for x in ug.live_nodes() if x.kind == "stmt" and isinstance(x.ast, ast.Return)]
    for rn in rets:
        rt = T.term(up, rn, rn.ast.value)
        ok = rt[0] == "tuple" and len(rt) == 6
        if ok:
            for i in range(5):
                el = rt[1 + i]
                ok = ok and el[0] == "proj" and el[2] == i and el[1][0] == "call" and el[1][1] == "struct.unpack"
        R.check(ok, "TERM-unpack", up.qualname + "|" + norm_stmt(rn.ast), "returns header fields 0..4 in wire order",
                "unpack() does not return fields 0..4 of the header in order: %s" % show(rt), up.loc(rn.ast))
    # immutability of message fields
    fields = set()
    init = cls.methods.get("__init__")
    if init is not None:
        for k, st, kind in attr_writes(init):
            if k.startswith(init.params[0] + "."):
                fields.add(k.split(".", 1)[1])
    R.check({"command", "magic", "arg0", "arg1", "data"} <= fields, "WMC-msg", cls.qualname + ".__init__", "constructor sets command, magic, arg0, arg1, data",
            "constructor no longer sets all of command/magic/arg0/arg1/data (%s)" % sorted(fields), init.loc() if init else "")
    for f in pkg.funcs.values():
        if f is init:
            continue
        recv_types = ctx.cg.var_types.get(f, {})
        for k, st, kind in attr_writes(f):
            parts = k.split(".")
            if parts[-1] in ("command", "magic", "arg0", "arg1", "data") or (len(parts) > 2 and parts[-2] in ("data",)):
                base = parts[0]
                types = recv_types.get(base, set())
                is_msg = cls.qualname in types or (f.cls is cls and base == f.params[0])
                if is_msg:
                    R.fail("WMC-msg", "%s|%s" % (f.qualname, norm_stmt(st)), "a message field is modified after construction (length/checksum may no longer describe the payload)", f.loc(st))
    R.ok("WMC-msg", cls.qualname + "|immutable", "no store to message fields outside the constructor", cls.mod.relpath)


def isinstance_knowledge(ctx, f, node, target_key):
    """What the must-facts at `node` say about isinstance(<target>, T): -> (list of type-name sets known to hold, set of
    type names known not to hold).  Every isinstance test of the function over the target is consulted (single type or tuple)."""
    g = ctx.cfg(f)
    df = ctx.df(f)
    seen = {}
    for n in g.nodes:
        for e in n.exprs():
            for x in ast.walk(e):
                if isinstance(x, ast.Call) and isinstance(x.func, ast.Name) and x.func.id == "isinstance" and len(x.args) == 2 and key(x.args[0]) == target_key:
                    ty = x.args[1]
                    names = [t for t in (ty.elts if isinstance(ty, ast.Tuple) else [ty])]
                    if all(isinstance(t, ast.Name) for t in names):
                        seen[key(x)] = (x, frozenset(t.id for t in names))
    yes, no = [], set()
    for x, types in seen.values():
        if df.holds(node, x, True):
            yes.append(types)
        if df.holds(node, x, False):
            no |= types
    return yes, no


def _checksum_branches(ctx, R, T, ck):
    """Every return of checksum(): the byte sum mod 2^32; the ord() sum only where the argument is known not to be a
    (Python 3) bytes/bytearray - i.e. under `not isinstance(data, bytes/bytearray)` or the Python 2 test `isinstance(data[0], bytes)`."""
    g = ctx.cfg(ck)
    df = ctx.df(ck)
    data = ck.params[0]
    dk = key(ast.Name(id=data, ctx=ast.Load()))
    d0 = key(ast.Subscript(value=ast.Name(id=data, ctx=ast.Load()), slice=ast.Constant(value=0), ctx=ast.Load()))
    rets = [n for n in g.live_nodes() if n.kind == "stmt" and isinstance(n.ast, ast.Return)]
    good = ("MOD32", ("BYTESUM", ("p", data)))
    legacy = ("MOD32", ("ORDSUM", ("p", data)))
    n_good = 0
    for rn in rets:
        t = T.term(ck, rn, rn.ast.value)
        from ..terms import alts_of
        alts = alts_of(t)
        yes, no = isinstance_knowledge(ctx, ck, rn, dk)
        py2 = any("bytes" in s or "str" in s for s in isinstance_knowledge(ctx, ck, rn, d0)[0])
        not_bytes_like = {"bytes", "bytearray"} <= no
        bytes_like = any(s <= {"bytes", "bytearray"} for s in yes)
        sub = ck.qualname + "|" + norm_stmt(rn.ast) + ("|bytes-like" if bytes_like else "|other" if (not_bytes_like or py2) else "")
        if t[0] != "phi":
            def ok_term(x, allow_legacy):
                if x == good:
                    return True
                if x == legacy:
                    return allow_legacy
                if x[0] == "ite":
                    # the Python 2 test `data and isinstance(data[0], bytes)` selects the ord() sum
                    is_py2 = "builtins.isinstance" in repr(x[1]) and "('proj', ('p', %r), 0)" % data in repr(x[1]) and "'or'" not in repr(x[1])
                    return ok_term(x[2], allow_legacy or is_py2) and ok_term(x[3], allow_legacy)
                return False
            ok = ok_term(t, not_bytes_like or py2)
            n_good += 1 if good in alts else 0
            R.check(ok, "TERM-checksum", sub, "checksum = byte sum mod 2^32 (ord() sum only for non-bytes input)",
                    "checksum() returns %s%s, expected MOD32(BYTESUM(data))" % (show(t), " for bytes/bytearray input" if bytes_like else ""), ck.loc(rn.ast))
        else:
            # merged definitions at one return: the alternatives must be the two sums, and each definition made under a
            # bytes/bytearray fact must be the byte sum
            n_good += 1 if good in alts else 0
            R.check(good in alts and alts <= {good, legacy}, "TERM-checksum", sub, "checksum = byte sum mod 2^32",
                    "checksum() returns %s, expected MOD32(BYTESUM(data))" % show(t), ck.loc(rn.ast))
            for n in g.nodes:
                if n.kind == "stmt" and isinstance(n.ast, ast.Assign):
                    y2, n2 = isinstance_knowledge(ctx, ck, n, dk)
                    p2 = any("bytes" in s for s in isinstance_knowledge(ctx, ck, n, d0)[0])
                    if any(s <= {"bytes", "bytearray"} for s in y2) and not p2:
                        tt = T.term(ck, n, n.ast.value)
                        R.check(tt == ("BYTESUM", ("p", data)), "TERM-checksum", "%s|branch|%s" % (ck.qualname, norm_stmt(n.ast)),
                                "the bytes/bytearray branch sums the bytes", "the bytes/bytearray branch computes %s, not the byte sum" % show(tt), ck.loc(n.ast))
    R.check(n_good >= 1, "TERM-checksum", ck.qualname + "|some-byte-sum", "at least one return is the byte sum", "no return of checksum() is the byte sum", ck.loc())


def _writers(ctx, R, roles):
    """(1) transport writes only below the send primitive; the send primitive only from the locked wrapper and connect."""
    cg = ctx.cg
    tag = roles.tag
    sp = roles.send_primitive
    n_sites = 0
    for f in roles.mod.all_funcs:
        for c in own_calls(f):
            if call_attr(c) == "bulk_write":
                n_sites += 1
    allowed_writers = set()
    for f in roles.write_funcs:
        # every chain of callers of a writing function must lead to the send primitive before leaving the io class
        ok = True
        seen = set()
        stack = [f]
        while stack:
            x = stack.pop()
            if x in seen:
                continue
            seen.add(x)
            if x is sp:
                continue
            callers = [cs.func for cs in cg.callers_of(x)]
            if not callers:
                ok = False
            stack.extend(callers)
        R.check(ok, "WMC-write", f.qualname, "transport writes in %s are reachable only through the send primitive" % f.name,
                "%s writes to the transport but is not (only) called from the send primitive %s" % (f.qualname, sp.name), f.loc())
    R.count("WMC-write[%s]" % tag, n_sites, 1)
    callers = sorted(set(cs.func.qualname for cs in cg.callers_of(sp)))
    want = sorted([roles.send_locked.qualname, roles.io_connect.qualname])
    R.check(set(callers) <= set(want), "WMC-send", sp.qualname, "send primitive called only from %s" % ", ".join(want),
            "send primitive has additional callers: %s" % ", ".join(c for c in callers if c not in want), sp.loc())


def _send_primitive(ctx, R, roles, T):
    """(2) header then payload, nothing else."""
    sp = roles.send_primitive
    g = ctx.cfg(sp)
    df = ctx.df(sp)
    cg = ctx.cg
    if len(sp.params) < 2:
        raise AnalysisError("SEND-shape", "%s takes no message parameter" % sp.qualname)
    msg = sp.params[1]
    writers = set(roles.write_funcs)
    wnodes = []   # (cfgnode, buffer expr)
    for n in g.live_nodes():
        for c in node_calls(n):
            cs = cg.site(c)
            if call_attr(c) == "bulk_write" or (cs is not None and any(x in writers for x in cs.callees)):
                wnodes.append((n, c.args[0] if c.args else None, c))
    loc = sp.loc()
    if len(wnodes) != 2:
        R.fail("SEND-shape", sp.qualname + "|writes", "the send primitive must write the header and the payload (2 write sites), found %d" % len(wnodes), loc)
        return
    # identify header write: its buffer term is msg.pack()
    hdr = pay = None
    for n, b, c in wnodes:
        if b is None:
            continue
        bt = unawait(b)
        if isinstance(bt, ast.Name):
            d = df.unique_def(n, bt.id)
            if d is not None and d.kind == "assign" and not d.path:
                bt = unawait(d.value)
        if isinstance(bt, ast.Call) and isinstance(bt.func, ast.Attribute) and bt.func.attr == "pack" and varkey(bt.func.value) == msg and not bt.args:
            hdr = (n, c)
        elif varkey(bt) == msg + ".data":
            pay = (n, c)
    R.check(hdr is not None, "SEND-shape", sp.qualname + "|header", "one write sends msg.pack()", "no write sends the packed header of the message", loc)
    R.check(pay is not None, "SEND-shape", sp.qualname + "|payload", "one write sends msg.data unchanged", "no write sends msg.data unchanged (payload sliced/transformed or missing)", loc)
    if hdr is None or pay is None:
        return
    hn, pn = hdr[0], pay[0]
    R.check(not g.in_cycle(hn) and not g.in_cycle(pn), "SEND-shape", sp.qualname + "|once", "header and payload are written once (not in a loop)", None, loc)
    R.check(g.dominates([hn], g.exit, exc=False) and g.dominates([hn], pn), "SEND-shape", sp.qualname + "|order",
            "the header write precedes the payload write and happens on every path",
            "the header is not written first on every path", sp.loc(hn.ast))
    # payload: written iff msg.data non-empty
    xkey = key(ast.Attribute(value=ast.Name(id=msg, ctx=ast.Load()), attr="data", ctx=ast.Load()))
    if g.dominates([pn], g.exit, exc=False):
        R.ok("SEND-shape", sp.qualname + "|payload-cond", "payload written unconditionally", sp.loc(pn.ast))
    else:
        # find the governing tests: walk up from pn through unique predecessors that are tests
        tests = [n for n in g.nodes if n.kind == "test" and g.dominates([n], pn) and not g.postdominates([pn], n)]
        ok = True
        why = ""
        for tnode in tests:
            # which edge leads to pn?
            lab = [l for d, l in g.succ[tnode] if l in ("true", "false") and (d is pn or pn in g.reach([d], exc=False))]
            if len(lab) != 1:
                ok, why = False, "ambiguous branch structure around the payload write"
                break
            pol = lab[0] == "true"
            ttest = subst_copies(ctx, sp, tnode, tnode.ast.test)
            r_empty = len_cond_eval(ttest, xkey, 0, 0)
            r_one = len_cond_eval(ttest, xkey, 1, 1)
            r_many = len_cond_eval(ttest, xkey, 1, None)
            if r_empty is None or r_one is None or r_many is None:
                ok, why = False, "payload write depends on `%s`, which is not a function of `len(msg.data)` alone" % src(tnode.ast.test)
                break
            if r_one is not pol or r_many is not pol:
                ok, why = False, "a non-empty payload is not written when `%s` (data_length announces bytes that never follow)" % src(tnode.ast.test)
                break
            # other branch must not skip a non-empty payload: covered by r_many == pol for all len >= 1
        R.check(ok and bool(tests), "SEND-shape", sp.qualname + "|payload-cond", "payload written iff msg.data is non-empty",
                why or "payload write is conditional on something unrecognised", sp.loc(pn.ast))
    # msg not modified in the send primitive
    for n in g.nodes:
        for d in df.node_defs.get(n, []):
            if n is not g.entry and (d.var == msg or d.var.startswith(msg + ".")) and d.kind != "base":
                R.fail("SEND-shape", sp.qualname + "|msg-mutated", "the message is modified inside the send primitive (`%s`)" % norm_stmt(n.ast), sp.loc(n.ast))
    # both writes use the same timeout expression
    ta = [key(c.args[1]) if len(c.args) > 1 else "?" for (_n, c) in (hdr, pay)]
    R.check(ta[0] == ta[1], "SEND-shape", sp.qualname + "|same-args", "header and payload written with the same transaction settings", None, loc)
    # the write-all helper (if any) passes its buffer parameter through unchanged: checked in C15 (slice from the running offset)


def _send_under_lock(ctx, R, roles):
    """(1b) header and payload of one message reach the wire back to back: every call of the send primitive sits inside a `with` block of the
    manager's transport lock (a message of another thread cannot land between the two writes)."""
    from ..locks import LockInfo
    li = LockInfo(ctx, roles)
    tl = (roles.io_cls.qualname, "_transport_lock")
    sp = roles.send_primitive
    n = 0
    for cs in ctx.cg.callers_of(sp):
        f = cs.func
        g = ctx.cfg(f)
        for node in g.live_nodes():
            if any(c is cs.node for c in node_calls(node)):
                n += 1
                if f is roles.send_locked:
                    R.check(g.dominates([node], g.exit, exc=False), "LOCK-send", "%s|always" % f.qualname, "the send wrapper sends on every normal path",
                            "%s can return normally without sending the message (an early return): the message is silently dropped" % f.qualname, f.loc(node.ast))
                R.check(tl in li.held(f, node), "LOCK-send", "%s|%s" % (f.qualname, norm_stmt(node.ast)), "the message is sent inside `with self._transport_lock`",
                        "%s calls the send primitive without holding the transport lock in a `with` block: another thread's message can land between this message's header and its payload" % f.qualname, f.loc(node.ast))
    R.count("LOCK-send[%s]" % roles.tag, n, 4)


def _construction_sites(ctx, R, roles, T):
    """(6) every AdbMessage(...) passes a command constant of IDS and a bytes-like payload term."""
    ids = ctx.fold.need("constants", "IDS", "CONST")
    count = 0
    for f in roles.mod.all_funcs:
        g = ctx.cfg(f)
        for n in g.nodes:
            for c in node_calls(n):
                if isinstance(c.func, ast.Name) and c.func.id == "AdbMessage":
                    count += 1
                    t = T.term(f, n, c)
                    b = dict(t[2]) if t[0] == "new" else {}
                    cmd = b.get("command")
                    R.check(cmd is not None and cmd[0] == "c" and cmd[1] in ids, "CONST-site", "%s|%s" % (f.qualname, norm_stmt(c)),
                            "constructs a message with known command %s" % (show(cmd) if cmd else "?"),
                            "message constructed with a command that is not a constant of the protocol table: %s" % (show(cmd) if cmd else "?"), f.loc(n.ast))
                    data = b.get("data")
                    if data is not None:
                        bad = data[0] == "c" and not isinstance(data[1], (bytes, bytearray))
                        strish = data[0] == "STR" or (data[0] == "CONCAT" and any(p[0] == "STR" or (p[0] == "c" and isinstance(p[1], str)) for p in data[1:]))
                        R.check(not bad and not strish, "CONST-site", "%s|%s|data" % (f.qualname, norm_stmt(c)), "payload is a bytes-like term",
                                "payload term %s is not bytes-like" % show(data), f.loc(n.ast))
    R.count("CONST-site[%s]" % roles.tag, count, 8)
