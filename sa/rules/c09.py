"""C09 - list and stat return exactly the device's directory entries and metadata.

Decided: the sync record formats fold to the SYNC.TXT layouts (LIST/DENT: id, mode, size, time, namelen = '<5I';
STAT: id, mode, size, time = '<4I'; DATA/DONE/SEND: id, size = '<2I'); list requests LIST(path), reads DENT records
until DONE, appends DeviceFile(name = record payload, mode, size, mtime = header fields 1..3 in wire order) exactly
once per DENT, in order, leaves only on DONE, closes the stream and returns that list; stat requests STAT(path),
reads one STAT record (no payload) and returns header fields 1..3 in order after closing the stream.  The record
reader / buffered reader they rest on are checked in C08.
Every transaction starts from an empty receive buffer of its own (same instance as C08).
"""
import ast

from ..loader import AnalysisError
from ..dataflow import key, varkey, unawait
from ..engine import terms
from ..roles import all_roles
from ..terms import show
from ..util import src, node_calls, call_attr, norm_stmt, fold_cmd_list
from .c02 import expand_format
from .c04 import callee_nodes
from .c15 import loop_nodes, loop_exit_edges

LEVEL = "other"

# AOSP SYNC.TXT (independent oracle): number of little-endian u32 fields per record header
ORACLE_FORMATS = {"FILESYNC_LIST_FORMAT": 5, "FILESYNC_STAT_FORMAT": 4, "FILESYNC_PULL_FORMAT": 2, "FILESYNC_PUSH_FORMAT": 2}
ORACLE_SYNC_IDS = {b"LIST": 0x5453494c, b"DENT": 0x544e4544, b"STAT": 0x54415453, b"SEND": 0x444e4553, b"RECV": 0x56434552,
                   b"DATA": 0x41544144, b"DONE": 0x454e4f44, b"OKAY": 0x59414b4f, b"FAIL": 0x4c494146, b"QUIT": 0x54495551}


def check(ctx, R):
    T = terms(ctx)
    _formats(ctx, R)
    from .c08 import buffered_reader, record_reader, record_generator, _txinfo
    _txinfo(ctx, R, T)                                # every list / stat starts from an empty receive buffer of its own
    for roles in all_roles(ctx):
        _list(ctx, R, roles, T)
        _stat(ctx, R, roles, T)
        # "any packetisation of the replies": the record / buffered readers both operations rest on
        buffered_reader(ctx, R, roles, T)
        record_reader(ctx, R, roles, T)
        record_generator(ctx, R, roles, T)
        from .c03 import _read_exact as read_exact_rules, _packet_reader as packet_reader_rules
        read_exact_rules(ctx, R, roles, T)        # "all read fragmentations"
        packet_reader_rules(ctx, R, roles, T)
        # a reply that overtakes the OKAY for the LIST / STAT request is part of the reply stream ("any packetisation")
        from .c10 import _nd_own as early_reply_rules
        early_reply_rules(ctx, R, roles, T)
        from .c07 import _flush_before_read          # the LIST / STAT request must be on the wire before the reply is awaited, wherever the reply lands
        _flush_before_read(ctx, R, roles, T)
    R.assume("the record reader returns (id, header fields between id and length, payload) - checked in C08")


def _formats(ctx, R):
    f = ctx.fold
    for name, n in sorted(ORACLE_FORMATS.items()):
        v = f.need("constants", name, "CONST-sync")
        e = expand_format(v)
        ok = e is not None and e[0] == "<" and len(e[1]) == n and all(c in "IL" for c in e[1])
        R.check(ok, "CONST-sync", name, "%s = %d little-endian u32 fields" % (name, n), "%s folds to %r, SYNC.TXT needs %d little-endian u32 fields" % (name, v, n), "adb_shell/constants.py")
    itw = f.need("constants", "FILESYNC_ID_TO_WIRE", "CONST-sync")
    wti = f.need("constants", "FILESYNC_WIRE_TO_ID", "CONST-sync")
    for cid, w in sorted(ORACLE_SYNC_IDS.items()):
        R.check(itw.get(cid) == w, "CONST-sync", "FILESYNC_ID_TO_WIRE[%s]" % cid.decode(), "sync id %s = 0x%08x" % (cid.decode(), w),
                "sync id %s maps to %s, SYNC.TXT says 0x%08x" % (cid.decode(), hex(itw[cid]) if cid in itw else "nothing", w), "adb_shell/constants.py")
    R.check(dict(wti) == {w: c for c, w in itw.items()}, "CONST-sync", "FILESYNC_WIRE_TO_ID", "reader's id table is the inverse of the writer's", "FILESYNC_WIRE_TO_ID is not the inverse of FILESYNC_ID_TO_WIRE", "adb_shell/constants.py")
    df = ctx.pkg.mod("hidden_helpers").assigns.get("DeviceFile")
    ok = False
    if df and isinstance(df[0], ast.Call) and len(df[0].args) == 2:
        okf, fields = f.try_eval(df[0].args[1], ctx.pkg.mod("hidden_helpers"), {})
        ok = okf and tuple(fields) == ("filename", "mode", "size", "mtime")
    R.check(ok, "CONST-sync", "DeviceFile", "DeviceFile fields are (filename, mode, size, mtime)", "DeviceFile no longer has the fields (filename, mode, size, mtime) in that order", "adb_shell/hidden_helpers.py")


def _sync_request(ctx, R, roles, T, f, want_id, rule):
    fs = roles.dev["_filesync_send"]
    sends = callee_nodes(ctx, f, fs)
    ok = len(sends) == 1 and not sends[0][0].loops
    node = None
    if ok:
        n, c = sends[0]
        node = n
        b = ctx.cg.site(c).bind(fs)
        cid = T.term(f, n, b.get("command_id")) if b.get("command_id") is not None else None
        dt = T.term(f, n, b.get("data")) if b.get("data") is not None else None
        ok = cid == ("c", want_id) and dt == ("p", "device_path") and "size" not in b
    R.check(ok, rule, f.qualname + "|request", "requests %s(device_path) once" % want_id.decode(), "%s does not send exactly one %s request carrying device_path" % (f.name, want_id.decode()), f.loc())
    return node


def _info_format(ctx, R, roles, T, f, node, call, target, want_const, rule):
    b = ctx.cg.site(call).bind(target)
    fi = T.term(f, node, b.get("filesync_info")) if b.get("filesync_info") is not None else None
    want = ctx.fold.need("constants", want_const, rule)
    ok = fi is not None and fi[0] == "new" and dict(fi[2]).get("recv_message_format") == ("c", want)
    R.check(ok, rule, f.qualname + "|format", "records decoded with %s" % want_const, "%s decodes records with %s, expected %s" % (f.name, show(fi) if fi else "?", want_const), f.loc(node.ast))


def _list(ctx, R, roles, T):
    f = roles.dev["list"]
    gen = roles.dev["_filesync_read_until"]
    clse = roles.dev["_clse"]
    g = ctx.cfg(f)
    df = ctx.df(f)
    q = f.qualname
    rq = _sync_request(ctx, R, roles, T, f, b"LIST", "LIST")
    iters = [n for n in g.live_nodes() if n.kind == "iter" and any(ctx.cg.site(c) is not None and gen in ctx.cg.site(c).callees for c in node_calls(n))]
    if len(iters) != 1:
        R.fail("LIST", q + "|loop", "list must iterate the record generator once", f.loc())
        return
    it = iters[0]
    gc = [c for c in node_calls(it) if ctx.cg.site(c) is not None and gen in ctx.cg.site(c).callees][0]
    b = ctx.cg.site(gc).bind(gen)
    e1, e2 = fold_cmd_list(T, f, it, b.get("expected_ids")), fold_cmd_list(T, f, it, b.get("finish_ids"))
    R.check(e1 == (b"DENT",) and e2 == (b"DONE",), "LIST", q + "|ids", "reads DENT records until DONE", "list reads %s until %s" % (e1, e2), f.loc(it.ast))
    _info_format(ctx, R, roles, T, f, it, gc, gen, "FILESYNC_LIST_FORMAT", "LIST")
    R.check(rq is not None and g.dominates([rq], it), "LIST", q + "|request-first", "LIST is requested before the entries are read", None, f.loc())
    item = ("item", T.term(f, it, gc))
    inside = set(loop_nodes(g, it))
    apps = [(n, c) for n in g.live_nodes() for c in node_calls(n) if isinstance(c.func, ast.Attribute) and c.func.attr in ("append", "insert", "extend") and isinstance(c.func.value, ast.Name)]
    R.check(len(apps) == 1 and apps[0][0] in inside and apps[0][1].func.attr == "append", "LIST", q + "|append-site", "one append inside the record loop", "expected one `files.append(...)` inside the record loop, found %d" % len(apps), f.loc())
    if len(apps) != 1:
        return
    an, ac = apps[0]
    lst = ac.func.value.id
    et = T.term(f, an, ac.args[0]) if len(ac.args) == 1 else ("?",)
    hdr = ("proj", item, 1)
    want = ("call", "DeviceFile", (("proj", item, 2), ("proj", hdr, 0), ("proj", hdr, 1), ("proj", hdr, 2)), ())
    got_ok = et[0] == "call" and et[1] in ("DeviceFile", "hidden_helpers.DeviceFile") and et[2] == want[2] and not et[3]
    if not got_ok and et[0] == "call" and et[3]:
        kw = dict(et[3])
        got_ok = not et[2] and kw == {"filename": want[2][0], "mode": want[2][1], "size": want[2][2], "mtime": want[2][3]}
    R.check(got_ok, "LIST", q + "|entry", "entry = DeviceFile(name = payload, mode, size, mtime = header fields in wire order)",
            "the entry appended is %s; expected DeviceFile(payload, header[0], header[1], header[2]) of the record just read" % show(et), f.loc(an.ast))
    # sentinel and pairing
    tests = []
    for tn in inside:
        if tn.kind == "test":
            t = unawait(tn.ast.test)
            if isinstance(t, ast.Compare) and len(t.ops) == 1 and isinstance(t.ops[0], (ast.Eq, ast.NotEq)):
                a, bb = T.term(f, tn, t.left), T.term(f, tn, t.comparators[0])
                for x, y in ((a, bb), (bb, a)):
                    if x == ("proj", item, 0) and y[0] == "c" and y[1] in (b"DONE", b"DENT"):
                        tests.append((tn, "true" if (y[1] == b"DONE") == isinstance(t.ops[0], ast.Eq) else "false"))
    if len(tests) != 1:
        R.fail("LIST", q + "|sentinel", "expected one test of the record id against DONE, found %d" % len(tests), f.loc())
        return
    tn, done_lab = tests[0]
    dent_lab = "false" if done_lab == "true" else "true"
    starts = [d for d, l in g.succ[tn] if l == dent_lab]
    r = g.reach(starts, avoid=[an], exc=False, include_start=True)
    exits = [d for (_m, d, _l) in loop_exit_edges(g, it)]
    R.check(it not in r and g.exit not in r and not any(x in r for x in exits), "LIST", q + "|append-every-dent", "every DENT record yields one entry", "a DENT record can be skipped without an entry being appended", f.loc(an.ast))
    R.check(an not in g.reach([an], avoid=[it], exc=False) and an.loops == (it,), "LIST", q + "|append-once", "one entry per record", "a record can be appended twice", f.loc(an.ast))
    R.check(an not in g.reach_from_edge(tn, done_lab, avoid=[it], exc=False), "LIST", q + "|no-entry-for-done", "DONE adds no entry", "the DONE record is appended as an entry", f.loc(an.ast))
    for (m, d, l) in loop_exit_edges(g, it):
        if m is it and l == "exhausted":
            continue
        R.check((m is tn and l == done_lab) or (m in g.reach_from_edge(tn, done_lab, avoid=[it], exc=False) and m not in g.reach_from_edge(tn, dent_lab, avoid=[it], exc=False)), "LIST", "%s|exit|%s" % (q, norm_stmt(m.ast)),
                "the listing loop is left only on DONE", "the listing loop can be left at `%s` before DONE: entries are missing" % norm_stmt(m.ast), f.loc(m.ast))
    # list initialised empty, only appended to, returned after close
    ds = [d for d in df.reaching(it, lst) if d.node not in inside]
    R.check(len(ds) == 1 and ds[0].kind == "assign" and isinstance(ds[0].value, ast.List) and not ds[0].value.elts, "LIST", q + "|starts-empty", "result list starts empty", "the result list does not start empty", f.loc())
    cl = callee_nodes(ctx, f, clse)
    for rn in g.live_nodes():
        if rn.kind == "stmt" and isinstance(rn.ast, ast.Return):
            ok = rn.ast.value is not None and isinstance(unawait(rn.ast.value), ast.Name) and unawait(rn.ast.value).id == lst
            strong = [d for d in df.reaching(rn, lst) if d.strong]
            ok = ok and len(strong) == 1 and strong[0] is ds[0] if ds else False
            R.check(ok, "LIST", "%s|%s" % (q, norm_stmt(rn.ast)), "returns the collected list", "list returns `%s`, not the list of collected entries" % norm_stmt(rn.ast), f.loc(rn.ast))
            R.check(bool(cl) and g.dominates([n for n, _c in cl], rn), "LIST", q + "|close-before-return", "the stream is closed before returning", "list can return without closing its stream", f.loc(rn.ast))


def _stat(ctx, R, roles, T):
    f = roles.dev["stat"]
    fr = roles.dev["_filesync_read"]
    clse = roles.dev["_clse"]
    g = ctx.cfg(f)
    q = f.qualname
    rq = _sync_request(ctx, R, roles, T, f, b"STAT", "STAT")
    reads = callee_nodes(ctx, f, fr)
    if len(reads) != 1:
        R.fail("STAT", q + "|reads", "stat must read exactly one record, found %d read sites" % len(reads), f.loc())
        return
    n, c = reads[0]
    b = ctx.cg.site(c).bind(fr)
    exp = fold_cmd_list(T, f, n, b.get("expected_ids"))
    R.check(exp == (b"STAT",), "STAT", q + "|ids", "expects a STAT record", "stat expects %s" % (exp,), f.loc(n.ast))
    _info_format(ctx, R, roles, T, f, n, c, fr, "FILESYNC_STAT_FORMAT", "STAT")
    R.check(rq is not None and g.dominates([rq], n) and not g.in_cycle(n), "STAT", q + "|request-first", "STAT is requested, then one record is read", None, f.loc())
    rt = T.term(f, n, c)
    hdr = ("proj", rt, 1)
    cl = callee_nodes(ctx, f, clse)
    for rn in g.live_nodes():
        if rn.kind == "stmt" and isinstance(rn.ast, ast.Return):
            t = T.term(f, rn, rn.ast.value) if rn.ast.value is not None else ("none",)
            ok = t == ("tuple", ("proj", hdr, 0), ("proj", hdr, 1), ("proj", hdr, 2)) or t == hdr
            R.check(ok, "STAT", "%s|%s" % (q, norm_stmt(rn.ast)), "returns header fields (mode, size, mtime) in wire order",
                    "stat returns %s; expected fields 1..3 of the STAT record in order" % show(t), f.loc(rn.ast))
            R.check(bool(cl) and g.dominates([x for x, _c in cl], rn) and g.dominates([n], rn), "STAT", q + "|close-before-return", "the stream is closed before returning", "stat can return without closing its stream", f.loc(rn.ast))
