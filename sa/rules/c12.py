"""C12 - any transport failure leaves the device object recoverable.

Decided: locks are only ever taken through `with` (so no lock survives an exception at any fault point); the
manager's connect() closes the transport and clears the packet store before it connects, on every path; close()
does both; census of long-lived mutable state (instance attributes written outside constructors, module-level
mutables) equals the reviewed set, and per-call transaction objects never escape onto long-lived objects; no
handler on the I/O path swallows an exception (only the user's progress callback may be contained); each transport's
close() leaves its handle reset on every normal path.  Not decided: "every later operation behaves correctly".
The reset and the handshake form one critical section of the transport lock and the store is cleared under that lock (DOM-reset);
the handshake rules of C05 ("a subsequent connect() to a healthy device succeeds").
"""
import ast

from ..loader import AnalysisError, walk_own
from ..dataflow import key, varkey, unawait
from ..locks import LockInfo, rule_with_only
from ..roles import all_roles
from ..util import src, node_calls, call_attr, norm_stmt, attr_writes, own_calls

LEVEL = "other"

# reviewed census of long-lived mutable state: class name (sync name) -> attributes that may be written/mutated outside __init__
CENSUS = {
    "device": {"_available", "_maxdata", "_banner", "_local_id"},
    "io": {"_packet_store", "_transport"},          # contents of the store / state of the transport (both reset by connect/close)
}
MODULE_LEVEL_OK = {"_LOGGER", "_DECODE_ERRORS", "UsbTransport"}


def check(ctx, R):
    pkg = ctx.pkg
    for roles in all_roles(ctx):
        li = LockInfo(ctx, roles)
        n = rule_with_only(ctx, R, roles, li, "LOCK-with")
        R.count("LOCK-with[%s]" % roles.tag, n, 9)
        from ..locks import rule_lock_objects
        rule_lock_objects(ctx, R, roles, li)
        from ..locks import rule_order
        rule_order(ctx, R, roles, li)      # a fault handler that re-enters a non-reentrant lock never returns: the lock stays held and close() blocks
        # "unaffected by packets from the broken session": the transport is only touched, and packets are only filed, under the transport lock -
        # connect() clears the store and redoes the handshake under that lock, so nothing of the old session can arrive in between
        from ..locks import rule_guarded_by, GUARDED_BY_IO
        rule_guarded_by(ctx, R, roles, li, GUARDED_BY_IO, roles.io_cls)
        from .c06 import _pump
        from ..engine import terms as _terms2
        _pump(ctx, R, roles, li, _terms2(ctx))       # in particular: a packet read off the wire is filed before the transport lock is released
        from .c11 import loop_rules
        from ..engine import terms as _terms
        loop_rules(ctx, R, roles, _terms(ctx))       # a loop that can spin for ever (under a lock) makes close() block
        _reset_before_connect(ctx, R, roles, li)
        # "a subsequent connect() to a healthy device succeeds": the handshake itself (same instances as C05)
        from .c05 import _manager_connect
        R.attempt(_manager_connect, ctx, R, roles, _terms(ctx))
        _census(ctx, R, roles)
        _exc(ctx, R, roles)
    _transport_close(ctx, R)
    R.assume("`with lock:` releases the lock on every exit, including exceptions (language semantics)")
    R.undecided("'every later operation behaves correctly after any fault index' is a statement about all continuations; only lock release, the reset set and the absence of unclassified session state are static")


def _calls_on(ctx, f, attr, method):
    """CFG nodes of f calling self.<attr>.<method>(...)"""
    g = ctx.cfg(f)
    out = []
    sk = f.params[0] + "." + attr
    for n in g.live_nodes():
        for c in node_calls(n):
            if isinstance(c.func, ast.Attribute) and c.func.attr == method and varkey(unawait(c.func.value)) == sk:
                out.append(n)
    return out


def one_critical_section(ctx, R, roles, li, rule):
    """Closing the old connection, clearing the store, connecting the transport and the whole handshake are ONE critical section of the
    transport lock: a thread waiting for that lock (a reader of the old session, a sender) cannot get in between and talk to the new
    connection before the CNXN, or park a packet after the clearing."""
    f = roles.io_connect
    g = ctx.cfg(f)
    tl = (roles.io_cls.qualname, "_transport_lock")

    def section(n):
        for w in n.withs:
            if li.lock_of_with(f, w) == tl:
                return w
        return None
    steps = []
    for attr, meth in (("_transport", "close"), ("_packet_store", "clear_all"), ("_transport", "connect")):
        steps += [(n, "%s.%s" % (attr, meth)) for n in _calls_on(ctx, f, attr, meth)]
    conns = _calls_on(ctx, f, "_transport", "connect")
    for n in g.live_nodes():
        for c in node_calls(n):
            cs = ctx.cg.site(c)
            if cs is not None and (roles.send_primitive in cs.callees or roles.connect_reader in cs.callees):
                steps.append((n, "handshake I/O"))
    # the closing of the transport on the failure paths of the handshake happens later, in the same section or not at all: only the steps up to
    # the first handshake I/O and the I/O itself are constrained
    secs = set()
    for n, what in steps:
        if what == "_transport.close" and conns and not g.dominates([n], conns[0]):
            continue
        secs.add(section(n))
    ok = len(secs) == 1 and None not in secs
    R.check(ok, rule, f.qualname + "|one-critical-section", "reset, transport.connect and the handshake form one critical section of the transport lock",
            "closing / clearing / connecting and the handshake are not one critical section of the transport lock (%s): a thread waiting for the lock gets in between and uses the new connection before the CNXN"
            % ("some step holds no transport lock" if None in secs else "%d separate `with` blocks" % len(secs)), f.loc())


def _reset_before_connect(ctx, R, roles, li=None):
    f = roles.io_connect
    g = ctx.cfg(f)
    closes = _calls_on(ctx, f, "_transport", "close")
    clears = _calls_on(ctx, f, "_packet_store", "clear_all")
    conns = _calls_on(ctx, f, "_transport", "connect")
    R.check(len(conns) == 1, "DOM-reset", f.qualname + "|connect-site", "one transport.connect call", "expected one transport.connect call in the manager's connect, found %d" % len(conns), f.loc())
    for k in conns:
        R.check(bool(closes) and g.dominates(closes, k), "DOM-reset", f.qualname + "|close-before-connect",
                "the transport is closed before it is (re)connected on every path",
                "the transport is not closed before transport.connect on every path: a stale connection can survive a reconnect", f.loc(k.ast))
        R.check(bool(clears) and g.dominates(clears, k), "DOM-reset", f.qualname + "|clear-before-connect",
                "the packet store is cleared before connecting on every path",
                "the packet store is not cleared before transport.connect on every path: packets of the broken session survive connect()", f.loc(k.ast))
    # the store is emptied by the thread that owns the transport: packets are filed only under the transport lock, so nothing of the old session
    # can be parked after the clearing - clearing before taking the lock leaves a window for a reader that is still blocked in a transport read
    if li is not None:
        tl = (roles.io_cls.qualname, "_transport_lock")
        for fx in (roles.io_connect, roles.io_close):
            for cn in _calls_on(ctx, fx, "_packet_store", "clear_all"):
                R.check(tl in li.held(fx, cn), "DOM-reset", "%s|clear-under-transport-lock" % fx.qualname, "the store is cleared while the transport lock is held",
                        "the packet store is cleared without holding the transport lock: a reader still inside a transport read can park a packet of the old session after the clearing", fx.loc(cn.ast))
    if li is not None:
        one_critical_section(ctx, R, roles, li, "DOM-reset")
    # nothing is sent/read before the reset
    sends = [n for n in g.live_nodes() if any((ctx.cg.site(c) is not None and (roles.send_primitive in ctx.cg.site(c).callees or roles.connect_reader in ctx.cg.site(c).callees)) for c in node_calls(n))]
    for s in sends:
        R.check(bool(conns) and g.dominates(conns, s), "DOM-reset", "%s|io-after-connect|%s" % (f.qualname, norm_stmt(s.ast)), "handshake I/O happens after transport.connect", None, f.loc(s.ast))
    f = roles.io_close
    g = ctx.cfg(f)
    closes = _calls_on(ctx, f, "_transport", "close")
    clears = _calls_on(ctx, f, "_packet_store", "clear_all")
    R.check(bool(closes) and g.dominates(closes, g.exit, exc=False), "DOM-reset", f.qualname + "|closes", "manager close() closes the transport on every path",
            "manager close() does not close the transport on every path", f.loc())
    R.check(bool(clears) and g.dominates(clears, g.exit, exc=False), "DOM-reset", f.qualname + "|clears", "manager close() clears the packet store on every path",
            "manager close() does not clear the packet store on every path", f.loc())
    d = roles.dev["close"]
    g = ctx.cfg(d)
    mc = [n for n in g.live_nodes() if any(ctx.cg.site(c) is not None and roles.io_close in ctx.cg.site(c).callees for c in node_calls(n))]
    R.check(bool(mc) and g.dominates(mc, g.exit, exc=False), "DOM-reset", d.qualname + "|delegates", "device close() always reaches the manager's close()",
            "device close() does not call the manager's close() on every path", d.loc())
    # store.clear_all really forgets everything: rebinding to an empty dict (or .clear())
    st = ctx.pkg.cls("hidden_helpers._AdbPacketStore")
    ca = st.methods.get("clear_all")
    if ca is None:
        raise AnalysisError("DOM-reset", "_AdbPacketStore.clear_all not found")
    body = [s for s in ca.node.body if not (isinstance(s, ast.Expr) and isinstance(s.value, ast.Constant))]
    good = False
    if len(body) == 1 and isinstance(body[0], ast.Assign) and varkey(body[0].targets[0]) == ca.params[0] + "._dict":
        v = body[0].value
        good = (isinstance(v, ast.Dict) and not v.keys) or (isinstance(v, ast.Call) and isinstance(v.func, ast.Name) and v.func.id == "dict" and not v.args and not v.keywords)
    if len(body) == 1 and isinstance(body[0], ast.Expr) and isinstance(body[0].value, ast.Call) and call_attr(body[0].value) == "clear" \
            and varkey(body[0].value.func.value) == ca.params[0] + "._dict":
        good = True
    R.check(good, "DOM-reset", ca.qualname, "clear_all() forgets every parked packet", "clear_all() does not reset the store to empty", ca.loc())


def _never_mutated(ctx, mod, name):
    """A module-level container that is only ever read: bound once, no item store / deletion / augmented assignment / mutating
    method on it anywhere in the module, and not passed to a package function whose parameter is written through."""
    from ..dataflow import MUTATING_METHODS
    if len(mod.assigns.get(name, ())) != 1:
        return False
    for f in mod.all_funcs:
        shadow = name in f.params or any(isinstance(n, ast.Name) and n.id == name and isinstance(n.ctx, ast.Store) for n in walk_own(f.node))
        if shadow:
            continue
        for n in walk_own(f.node):
            if isinstance(n, (ast.Subscript, ast.Attribute)) and isinstance(n.ctx, (ast.Store, ast.Del)):
                b = n.value
                while isinstance(b, (ast.Subscript, ast.Attribute)):
                    b = b.value
                if isinstance(b, ast.Name) and b.id == name:
                    return False
            if isinstance(n, ast.AugAssign) and isinstance(n.target, ast.Name) and n.target.id == name:
                return False
            if isinstance(n, (ast.Global,)) and name in n.names:
                return False
            if isinstance(n, ast.Call):
                if isinstance(n.func, ast.Attribute) and n.func.attr in MUTATING_METHODS:
                    b = n.func.value
                    while isinstance(b, (ast.Subscript, ast.Attribute)):
                        b = b.value
                    if isinstance(b, ast.Name) and b.id == name:
                        return False
                cs = ctx.cg.site(n)
                if cs is not None and cs.callees:
                    for callee in cs.callees:
                        ms = ctx.modsets.get(callee) or ()
                        if not ms:
                            continue
                        for p_, a_ in cs.bind(callee).items():
                            if isinstance(unawait(a_), ast.Name) and unawait(a_).id == name and any(q == p_ for q, _attr in ms):
                                return False
    return True


def _census(ctx, R, roles):
    from ..dataflow import MUTATING_METHODS
    for role, cls in (("device", roles.dev_cls), ("io", roles.io_cls)):
        allowed = CENSUS[role]
        seen = {}
        for m in cls.methods.values():
            if m.name == "__init__" or not m.params:
                continue
            selfn = m.params[0]
            for k, st, kind in attr_writes(m):
                parts = k.split(".")
                if parts[0] == selfn and len(parts) >= 2:
                    seen.setdefault(parts[1], []).append((m, st))
            for c in own_calls(m):
                if isinstance(c.func, ast.Attribute) and c.func.attr in MUTATING_METHODS:
                    base = c.func.value
                    while isinstance(base, ast.Subscript):
                        base = base.value
                    k = varkey(unawait(base))
                    if k and k.startswith(selfn + ".") and not ctx.cg.site(c).callees:
                        seen.setdefault(k.split(".")[1], []).append((m, c))
        for attr, lst in sorted(seen.items()):
            m, st = lst[0]
            R.check(attr in allowed, "CENSUS", "%s.%s" % (cls.qualname, attr),
                    "long-lived attribute `%s` is in the reviewed session-state set" % attr,
                    "new long-lived mutable state `%s.%s` (written in %s) is not in the reviewed set: it can survive close()/connect() - classify it and reset it on connect" % (cls.name, attr, m.name), m.loc(st))
    # subclasses must not add state
    for c in roles.mod.classes.values():
        if c in (roles.dev_cls, roles.io_cls):
            continue
        if roles.dev_cls in ctx.pkg.mro(c):
            for m in c.methods.values():
                if m.name != "__init__":
                    for k, st, kind in attr_writes(m):
                        if k.startswith(m.params[0] + "."):
                            R.fail("CENSUS", "%s.%s" % (c.qualname, k.split(".")[1]), "device subclass writes instance state outside its constructor", m.loc(st))
    # escape check: transaction objects are never stored on a long-lived object
    percall = {"hidden_helpers._AdbTransactionInfo", "hidden_helpers._FileSyncTransactionInfo"}
    for cls in (roles.dev_cls, roles.io_cls):
        for attr, types in sorted(ctx.cg.attr_types.get(cls.qualname, {}).items()):
            R.check(not (types & percall), "ESCAPE", "%s.%s" % (cls.qualname, attr), "attribute `%s` never holds a per-call transaction object" % attr,
                    "a per-call transaction object is stored in `%s.%s`: partial state of a failed operation outlives it" % (cls.name, attr), cls.mod.relpath, trivial=True)
    # module-level mutable state
    for name, exprs in sorted(roles.mod.assigns.items()):
        if name in MODULE_LEVEL_OK:
            continue
        for e in exprs:
            mutable = isinstance(e, (ast.Dict, ast.List, ast.Set, ast.ListComp, ast.DictComp, ast.SetComp)) or \
                (isinstance(e, ast.Call) and not (isinstance(e.func, ast.Attribute) and e.func.attr == "getLogger"))
            if mutable and isinstance(e, ast.Call):
                fn = e.func
                nm = fn.attr if isinstance(fn, ast.Attribute) else fn.id if isinstance(fn, ast.Name) else ""
                if nm in ("Struct", "frozenset", "tuple", "bytes", "compile", "namedtuple", "int", "str", "float", "calcsize", "format", "join", "encode"):
                    mutable = False        # an immutable value
            if mutable and _never_mutated(ctx, roles.mod, name):
                mutable = False            # a constant table: bound once, never written through, never handed to code that writes its argument
            R.check(not mutable, "CENSUS", "%s.%s" % (roles.mod.name, name), "module-level constant",
                    "module-level mutable object `%s` in %s: state shared across sessions and devices" % (name, roles.mod.name), roles.mod.relpath)
    for f in roles.mod.all_funcs:
        for n in walk_own(f.node):
            if isinstance(n, (ast.Global, ast.Nonlocal)):
                R.fail("CENSUS", "%s|global" % f.qualname, "`global`/`nonlocal` state in %s" % f.qualname, f.loc(n))


def handler_completes(g, hnode):
    """Can the except handler finish normally (i.e. swallow the exception)?"""
    body_nodes = g.reach([hnode], exc=False)
    # leaves the handler region without raising: reaches a node that is not lexically inside this handler, or exit
    h = hnode.ast
    inside = set()
    for n in g.nodes:
        for (t, region) in n.trys:
            pass
    ids = set(id(x) for st in h.body for x in ast.walk(st))
    for n in body_nodes:
        if n.ast is None:
            if n is g.exit:
                return True
            continue
        if id(n.ast) not in ids and n.kind != "finally_exc":
            return True
    return False


def _exc(ctx, R, roles):
    """EXC: handlers that swallow may enclose nothing but the user's progress callback."""
    count = 0
    for f in roles.mod.all_funcs:
        if f.cls is not None and f.cls not in (roles.dev_cls, roles.io_cls) and roles.dev_cls not in ctx.pkg.mro(f.cls):
            continue          # helper classes of the module (e.g. the in-memory stream wrapper); module-level functions are included
        g = ctx.cfg(f)
        for n in walk_own(f.node):
            if not isinstance(n, ast.Try) or not n.handlers:
                continue
            for h in n.handlers:
                hn = [x for x in g.nodes_of(h) if x.kind == "except"]
                if not hn:
                    continue
                count += 1
                swallows = handler_completes(g, hn[0])
                if not swallows:
                    R.ok("EXC", "%s|%s" % (f.qualname, norm_stmt(h.type) if h.type is not None else "bare"), "handler re-raises", f.loc(h))
                    continue
                # body of the try must be exactly the user callback
                calls = [c for st in n.body for c in _calls_deep(st)]
                only_cb = len(n.body) == 1 and isinstance(n.body[0], ast.Expr) and len(calls) >= 1 and \
                    all(_is_user_callback(ctx, f, c) or _is_pure_builtin(c) for c in calls) and any(_is_user_callback(ctx, f, c) for c in calls)
                R.check(only_cb, "EXC", "%s|%s|%s" % (f.qualname, norm_stmt(h.type) if h.type is not None else "bare", norm_stmt(n.body[0])),
                        "swallowing handler contains only the user's progress callback",
                        "an exception handler that does not re-raise encloses `%s`: a transport/protocol failure is swallowed and the operation continues on a broken stream" % norm_stmt(n.body[0]), f.loc(h))
    R.rule_counts["EXC[%s]" % roles.tag] = count


def _calls_deep(st):
    return [x for x in ast.walk(st) if isinstance(x, ast.Call)]


def _is_user_callback(ctx, f, c):
    fn = unawait(c.func)
    return isinstance(fn, ast.Name) and fn.id in f.params and "callback" in fn.id


def _is_pure_builtin(c):
    return isinstance(c.func, ast.Name) and c.func.id in ("len", "int", "str", "min", "max")


def _transport_close(ctx, R, only=None):
    pkg = ctx.pkg
    for cq in ("transport.tcp_transport.TcpTransport", "transport.tcp_transport_async.TcpTransportAsync", "transport.usb_transport.UsbTransport"):
        if only is not None and cq not in only:
            continue
        cls = pkg.classes.get(cq)
        if cls is None:
            if cq.endswith("UsbTransport"):
                continue
            raise AnalysisError("CLOSE-reset", "%s not found" % cq)
        f = cls.methods.get("close")
        if f is None:
            R.fail("CLOSE-reset", cq + ".close", "transport has no close()", cls.mod.relpath)
            continue
        g = ctx.cfg(f)
        df = ctx.df(f)
        selfn = f.params[0]
        handles = {}
        for n in g.nodes:
            if n.kind == "stmt" and isinstance(n.ast, ast.Assign) and isinstance(n.ast.value, ast.Constant) and n.ast.value.value is None:
                for t in n.ast.targets:
                    k = varkey(t)
                    if k and k.startswith(selfn + "."):
                        handles.setdefault(k, []).append(n)
        R.check(bool(handles), "CLOSE-reset", cq + ".close|handles", "close() resets %s" % ", ".join(sorted(h.split(".")[1] for h in handles)),
                "close() no longer resets any connection handle to None", f.loc())
        for h, nodes in sorted(handles.items()):
            hk = key(_mk(h))
            nonek = key(ast.Constant(value=None))

            def blocks(s, d, l, hk=hk):
                ef = df.edge_facts(s, l)
                for fa in ef:
                    if fa[0] == ("truthy", hk) and fa[1] is False:
                        return False
                    if fa[0] == ("is",) + tuple(sorted([hk, nonek])) and fa[1] is True:
                        return False
                return True
            r = g.reach([g.entry], avoid=nodes, exc=True, include_start=True, edge_filter=blocks)
            R.check(g.exit not in r, "CLOSE-reset", "%s.close|%s" % (cq, h.split(".")[1]),
                    "`%s` is None/falsy whenever close() returns (including through its own exception handlers)" % h.split(".")[1],
                    "close() can finish with `%s` still set: the object stays half-open and cannot be told from a connected one" % h.split(".")[1], f.loc())


def _mk(varname):
    parts = varname.split(".")
    e = ast.Name(id=parts[0], ctx=ast.Load())
    for p in parts[1:]:
        e = ast.Attribute(value=e, attr=p, ctx=ast.Load())
    return e
