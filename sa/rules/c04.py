"""C04 - per-stream protocol conformance: ids, one OKAY per WRTE, stop-and-wait, CLSE.

Decided: (a) OPEN/OKAY/WRTE/CLSE field terms and id kinds at every construction site; (b) remote_id is written
only in _open from field 1 of the device's OKAY, local_id never after construction; (c) OKAY is constructed only
in _okay, called only from _read_until, exactly once on every path on which the packet delivered by the pump is a
WRTE and never otherwise, and WRTE can only be delivered through _read_until; (d) WRTE is constructed only in the
flush function and every normal path from its send to the function's exit crosses "awaited command is OKAY";
(e) CLSE is sent only by _clse (then awaits CLSE) and by the drain generator in answer to the device's CLSE (then
leaves); after a CLSE nothing is sent on that stream (typestate over every owner of a transaction object); list,
stat and push close on every normal path, pull in `finally`.  Not decided: device-side orderings.
_okay sends its message on every normal path.
"""
import ast

from ..argrule import arg_rule
from ..loader import AnalysisError, walk_own
from ..dataflow import key, varkey, unawait
from ..engine import terms
from ..kinds import kind, L, Rk, ANY
from ..roles import all_roles
from ..terms import show
from ..util import src, node_calls, call_attr, norm_stmt, attr_writes, own_calls, fold_cmd_list, cmds_of_term

LEVEL = "other"

STREAM_CMDS = (b"OPEN", b"OKAY", b"WRTE", b"CLSE")
WHO_MAY_SEND = {b"CNXN": {"io:connect"}, b"AUTH": {"io:connect"}, b"OPEN": {"_open"}, b"OKAY": {"_okay"}, b"WRTE": {"_filesync_flush"},
                b"CLSE": {"_clse", "_read_until_close"}}


def message_sites(ctx, roles, T):
    """[(func, cfgnode, call, bindings{param: term})] for every AdbMessage(...) in the device module."""
    out = []
    for f in roles.mod.all_funcs:
        g = ctx.cfg(f)
        for n in g.live_nodes():
            for c in node_calls(n):
                if isinstance(c.func, ast.Name) and c.func.id == "AdbMessage":
                    t = T.term(f, n, c)
                    out.append((f, n, c, dict(t[2]) if t[0] == "new" else {}))
    return out


def callee_nodes(ctx, f, target):
    """CFG nodes of f containing a call that may invoke `target`; -> [(node, call)]"""
    g = ctx.cfg(f)
    out = []
    for n in g.live_nodes():
        for c in node_calls(n):
            cs = ctx.cg.site(c)
            if cs is not None and target in cs.callees:
                out.append((n, c))
    return out


def check(ctx, R):
    T = terms(ctx)
    for roles in all_roles(ctx):
        sites = message_sites(ctx, roles, T)
        R.count("MSG-sites[%s]" % roles.tag, len(sites), 8)
        _fields(ctx, R, roles, T, sites)
        _id_writers(ctx, R, roles, T)
        _one_okay(ctx, R, roles, T)
        _stop_and_wait(ctx, R, roles, T)
        _close(ctx, R, roles, T)
    # "OPEN carries a fresh non-zero local id": allocation of the id (same rules as C14)
    from .c14 import id_rules
    id_rules(ctx, R)
    arg_rule(ctx, R, "stream", "ARG-stream", min_count=40)
    R.assume("the pump returns only commands contained in its `expected` argument (checked in C06 PUMP-ret)")
    R.undecided("device-side orderings of packets (a run-time quantity)")


def _fields(ctx, R, roles, T, sites):
    for f, n, c, b in sites:
        cmd = b.get("command")
        sub = "%s|%s" % (f.qualname, norm_stmt(c))
        if cmd is None or cmd[0] != "c":
            R.fail("TERM-msg", sub, "message command is not a constant", f.loc(n.ast))
            continue
        cmdv = cmd[1]
        owner = ("io:" + f.name) if f.cls is roles.io_cls else f.name
        allowed = WHO_MAY_SEND.get(cmdv, set())
        if cmdv == b"OKAY" and roles.dev["_okay"] is None:
            allowed = {"_read_until"}       # no acknowledgement helper: _read_until builds the OKAY itself
        R.check(owner in allowed, "WMS", "%s|%s" % (cmdv.decode("ascii", "replace"), f.qualname),
                "%s is constructed in %s" % (cmdv.decode(), f.name),
                "%s is constructed in %s; only %s may send it" % (cmdv.decode("ascii", "replace"), f.qualname, ", ".join(sorted(allowed)) or "nobody"), f.loc(n.ast))
        a0, a1, data = b.get("arg0"), b.get("arg1"), b.get("data")
        if cmdv == b"OPEN":
            ok0 = a0 is not None and kind(a0) in (L,) and _is_new_local_id(ctx, f, n, c)
            R.check(ok0, "TERM-msg", sub + "|arg0", "OPEN.arg0 = local id of the transaction object created in this function",
                    "OPEN.arg0 is %s, not the freshly allocated local id" % show(a0), f.loc(n.ast))
            R.check(a1 == ("c", 0), "TERM-msg", sub + "|arg1", "OPEN.arg1 = 0", "OPEN.arg1 is %s, must be 0" % show(a1), f.loc(n.ast))
            dest = f.params[1] if len(f.params) > 1 else None
            R.check(data == ("CONCAT", ("p", dest), ("c", b"\0")), "TERM-msg", sub + "|data", "OPEN payload = destination + NUL",
                    "OPEN payload is %s, expected CONCAT(%s, b'\\0')" % (show(data), dest), f.loc(n.ast))
        elif cmdv in (b"OKAY", b"WRTE", b"CLSE"):
            # the transaction parameter of the function
            X = None
            for p in f.params[1:]:
                if "hidden_helpers._AdbTransactionInfo" in ctx.cg.var_types.get(f, {}).get(p, ()):
                    X = p
            ok0 = X is not None and a0 == ("attr", ("p", X), "local_id")
            ok1 = X is not None and a1 == ("attr", ("p", X), "remote_id")
            R.check(ok0, "TERM-msg", sub + "|arg0", "%s.arg0 = %s.local_id" % (cmdv.decode(), X),
                    "%s.arg0 is %s (kind %s); it must be the stream's local id" % (cmdv.decode(), show(a0), kind(a0) if a0 else "?"), f.loc(n.ast))
            R.check(ok1, "TERM-msg", sub + "|arg1", "%s.arg1 = %s.remote_id" % (cmdv.decode(), X),
                    "%s.arg1 is %s (kind %s); it must be the remote id the device announced" % (cmdv.decode(), show(a1), kind(a1) if a1 else "?"), f.loc(n.ast))
            if cmdv in (b"OKAY", b"CLSE"):
                R.check(data == ("c", b""), "TERM-msg", sub + "|data", "%s carries no payload" % cmdv.decode(), "%s carries payload %s" % (cmdv.decode(), show(data)), f.loc(n.ast))
        # every constructed message is sent exactly once, by the locked send (device) / send primitive (manager)
        if f.cls is roles.dev_cls:
            snd = [(m, cc) for (m, cc) in callee_nodes(ctx, f, roles.send_locked)]
            df = ctx.df(f)
            mine = []
            for m, cc in snd:
                arg = cc.args[0] if cc.args else None
                if arg is not None and isinstance(unawait(arg), ast.Name):
                    d = df.unique_def(m, unawait(arg).id)
                    if d is not None and d.node is n:
                        mine.append(m)
                elif arg is not None and unawait(arg) is c:
                    mine.append(m)
            g = ctx.cfg(f)
            ok = len(mine) == 1 and g.postdominates(mine, n, exc=False) and n.loops == mine[0].loops
            R.check(ok, "SEND-once", sub, "the constructed message is sent exactly once", "the constructed message is not sent exactly once on every path (%d send sites)" % len(mine), f.loc(n.ast))


def _is_new_local_id(ctx, f, n, c):
    from ..util import arg_of
    from .c14 import same_id_as_captured
    g = ctx.cfg(f)
    caps = [(m, x) for m in g.live_nodes() for x in node_calls(m) if isinstance(x.func, ast.Name) and x.func.id == "_AdbTransactionInfo"]
    a0 = arg_of(c, 1, "arg0")
    if len(caps) != 1 or a0 is None:
        return False
    cn, cc = caps[0]
    lid = cc.args[0] if cc.args else next((k.value for k in cc.keywords if k.arg == "local_id"), None)
    return same_id_as_captured(ctx, f, n, a0, cn, cc, lid)


def _id_writers(ctx, R, roles, T):
    fopen = roles.dev["_open"]
    n_remote = 0
    for f in list(roles.mod.all_funcs) + [x for x in ctx.pkg.mod("hidden_helpers").all_funcs]:
        for k, st, kind_ in attr_writes(f):
            a = k.split(".")[-1]
            if a not in ("local_id", "remote_id"):
                continue
            if f.qualname == "hidden_helpers._AdbTransactionInfo.__init__":
                continue
            if a == "local_id":
                R.fail("WMC-id", "%s|%s" % (f.qualname, norm_stmt(st)), "a stream's local id is modified after construction", f.loc(st))
            elif f is not fopen:
                if f.mod is roles.mod or f.mod.name == "hidden_helpers":
                    R.fail("WMC-id", "%s|%s" % (f.qualname, norm_stmt(st)), "remote_id is written outside _open", f.loc(st))
            else:
                n_remote += 1
                g = ctx.cfg(f)
                df = ctx.df(f)
                nodes = g.nodes_of(st)
                ok = False
                why = "remote_id is not taken from the pump's result"
                for n in nodes:
                    for d in df.node_defs.get(n, []):
                        if d.var == k and d.kind == "assign":
                            v = unawait(d.value)
                            if isinstance(v, ast.Name) and not d.path:
                                # captured through a local: follow its unique definition
                                d2 = df.unique_def(n, v.id)
                                if d2 is not None and d2.kind == "assign":
                                    d = d2
                                    v = unawait(d.value)
                            cs = ctx.cg.site(v) if isinstance(v, ast.Call) else None
                            if cs is not None and roles.pump in cs.callees:
                                exp = fold_cmd_list(T, f, n, cs.bind(roles.pump).get(roles.pump.call_params[0]))
                                if d.path == (1,) and exp == (b"OKAY",):
                                    ok = True
                                elif d.path != (1,):
                                    why = "remote_id is taken from field %s of the device's reply; the device announces its id in arg0 (field 1)" % (d.path,)
                                else:
                                    why = "remote_id is captured from a reply to %s, not from the OKAY that answers OPEN" % (exp,)
                R.check(ok, "WMC-id", "%s|%s" % (f.qualname, norm_stmt(st)), "remote_id = arg0 of the device's OKAY to our OPEN", why, f.loc(st))
    R.check(n_remote == 1, "WMC-id", fopen.qualname + "|captures-remote", "_open captures the remote id once", "_open does not capture the remote id exactly once (%d writes)" % n_remote, fopen.loc())
    # the OKAY is awaited after the OPEN was sent, and the object returned is that transaction object
    g = ctx.cfg(fopen)
    snd = callee_nodes(ctx, fopen, roles.send_locked)
    rd = callee_nodes(ctx, fopen, roles.pump)
    R.check(len(snd) == 1 and len(rd) == 1 and g.dominates([snd[0][0]], rd[0][0]), "OPEN-order", fopen.qualname, "OPEN is sent, then its OKAY awaited",
            "_open does not send OPEN once and then await the OKAY once", fopen.loc())
    if rd:
        R.check(g.dominates([rd[0][0]], g.exit, exc=False), "OPEN-order", fopen.qualname + "|await-always", "_open returns only after the device's OKAY",
                "_open can return without having awaited the device's OKAY (remote id unknown)", fopen.loc())


def _one_okay(ctx, R, roles, T):
    okay = roles.dev["_okay"]
    ru = roles.dev["_read_until"]
    cg = ctx.cg
    if okay is not None:
        callers = set(cs.func for cs in cg.callers_of(okay))
        R.check(callers == {ru}, "ACK", okay.qualname + "|callers", "_okay is called only from _read_until",
                "_okay is called from %s; acknowledgements may only be sent for a WRTE delivered by _read_until" % ", ".join(sorted(c.qualname for c in callers)) if callers else "_okay is never called: device WRITEs are not acknowledged", okay.loc())
    if okay is not None:
        go = ctx.cfg(okay)
        snd = [n for n in go.live_nodes() for c in node_calls(n) if ctx.cg.site(c) is not None and roles.send_locked in ctx.cg.site(c).callees]
        R.check(len(snd) == 1 and go.dominates([snd[0]], go.exit, exc=False), "ACK", okay.qualname + "|always-sends", "_okay sends its message on every path",
                "_okay can return without sending the OKAY (an early return or a conditional send): the WRTE it was called for stays unacknowledged", okay.loc())
    g = ctx.cfg(ru)
    df = ctx.df(ru)
    pumps = callee_nodes(ctx, ru, roles.pump)
    if len(pumps) != 1:
        R.fail("ACK", ru.qualname + "|pump-calls", "_read_until must read through the pump exactly once, found %d sites" % len(pumps), ru.loc())
        return
    pn, pc = pumps[0]
    pterm = T.term(ru, pn, pc)
    if okay is not None:
        oks = callee_nodes(ctx, ru, okay)
    else:
        # no helper: the acknowledgement is the OKAY message _read_until sends itself (its fields are checked by TERM-msg)
        oks = []
        for (f_, n_, c_, b_) in message_sites(ctx, roles, T):
            if f_ is ru and b_.get("command") == ("c", b"OKAY"):
                oks.append((n_, c_))
    R.check(len(oks) == 1 and not oks[0][0].loops, "ACK", ru.qualname + "|ack-sites", "one acknowledgement site, not in a loop",
            "_read_until has %d acknowledgement sites (or one inside a loop): a WRTE must be acknowledged exactly once" % len(oks), ru.loc())
    # the test cmd == WRTE on the command of the packet just delivered
    tests = []
    for tn in g.live_nodes():
        if tn.kind == "test":
            t = unawait(tn.ast.test)
            if isinstance(t, ast.Compare) and len(t.ops) == 1 and isinstance(t.ops[0], (ast.Eq, ast.NotEq)):
                a, b = T.term(ru, tn, t.left), T.term(ru, tn, t.comparators[0])
                for x, y in ((a, b), (b, a)):
                    if x == ("proj", pterm, 0) and y == ("c", b"WRTE"):
                        tests.append((tn, "true" if isinstance(t.ops[0], ast.Eq) else "false"))
    R.check(len(tests) == 1, "ACK", ru.qualname + "|wrte-test", "acknowledgement is decided by `cmd == WRTE` on the packet just delivered",
            "_read_until does not decide the acknowledgement by comparing the delivered command with WRTE (found %d such tests)" % len(tests), ru.loc())
    if len(tests) == 1 and len(oks) == 1:
        tn, lab = tests[0]
        on = oks[0][0]
        other = "false" if lab == "true" else "true"
        yes = g.reach_from_edge(tn, lab, exc=False)
        no = g.reach_from_edge(tn, other, exc=False)
        starts = [d for d, l in g.succ[tn] if l == lab]
        skip = g.reach(starts, avoid=[on], exc=False, include_start=True)
        R.check(on in yes and g.exit not in skip, "ACK", ru.qualname + "|ack-every-wrte", "every delivered WRTE is acknowledged before _read_until returns",
                "a delivered WRTE can go unacknowledged (a path from `cmd == WRTE` to the return skips _okay): the device stalls waiting for the OKAY it is owed", ru.loc(on.ast))
        R.check(on not in no, "ACK", ru.qualname + "|ack-only-wrte", "no OKAY is sent for a packet that is not a WRTE",
                "an OKAY can be sent although the delivered packet is not a WRTE", ru.loc(on.ast))
        R.check(g.dominates([pn], tn) and g.dominates([tn], on), "ACK", ru.qualname + "|order", "read, then test, then acknowledge", None, ru.loc())
        # acknowledged on the same stream object
        oc = oks[0][1]
        pa = cg.site(pc).bind(roles.pump).get("adb_info")
        if okay is not None:
            arg = oc.args[0] if oc.args else None
        else:
            # the transaction object the OKAY is sent on: second argument of the send(...) that carries it
            sc = [cc for cc in node_calls(on) if call_attr(cc) == "send"]
            arg = sc[0].args[1] if sc and len(sc[0].args) > 1 else None
        R.check(arg is not None and pa is not None and key(arg) == key(pa) and varkey(unawait(arg)) in ru.params, "ACK", ru.qualname + "|same-stream",
                "acknowledgement goes to the stream that was read", "the acknowledgement is sent for a different transaction object than the one read", ru.loc(on.ast))
    # returns (cmd, data) of that packet
    for rn in g.live_nodes():
        if rn.kind == "stmt" and isinstance(rn.ast, ast.Return):
            rt = T.term(ru, rn, rn.ast.value)
            R.check(rt == ("tuple", ("proj", pterm, 0), ("proj", pterm, 3)), "ACK", "%s|%s" % (ru.qualname, norm_stmt(rn.ast)), "returns (cmd, data) of the packet delivered",
                    "_read_until returns %s, not (cmd, data) of the delivered packet" % show(rt), ru.loc(rn.ast))
    # a WRTE can be delivered only through _read_until
    for cs in cg.callers_of(roles.pump):
        if cs.func is ru:
            continue
        f = cs.func
        gg = ctx.cfg(f)
        nodes = [n for n in gg.nodes if any(c is cs.node for c in node_calls(n))]
        exp = fold_cmd_list(T, f, nodes[0], cs.bind(roles.pump).get(roles.pump.call_params[0])) if nodes else None
        R.check(exp is not None and b"WRTE" not in exp, "ACK", "%s|pump-call" % f.qualname, "direct pump call cannot deliver a WRTE (expects %s)" % (exp,),
                "%s reads from the pump directly with expected=%s: a WRTE delivered there is never acknowledged" % (f.qualname, exp), f.loc(cs.node))
    # _read_until call sites: folded expected sets (inventory)
    n_sites = 0
    for cs in cg.callers_of(ru):
        f = cs.func
        gg = ctx.cfg(f)
        nodes = [n for n in gg.nodes if any(c is cs.node for c in node_calls(n))]
        exp = fold_cmd_list(T, f, nodes[0], cs.bind(ru).get(ru.call_params[0])) if nodes else None
        n_sites += 1
        R.check(exp is not None and set(exp) <= {b"OKAY", b"WRTE", b"CLSE"}, "ACK", "%s|read_until%s" % (f.qualname, sorted(exp) if exp else "?"),
                "awaits %s" % (exp,), "%s awaits an unfoldable or non-stream command set %s" % (f.qualname, exp), f.loc(cs.node))
    R.count("ACK-sites[%s]" % roles.tag, n_sites, 4)


def _stop_and_wait(ctx, R, roles, T):
    fl = roles.dev["_filesync_flush"]
    ru = roles.dev["_read_until"]
    g = ctx.cfg(fl)
    snd = callee_nodes(ctx, fl, roles.send_locked)
    if len(snd) != 1:
        R.fail("S&W", fl.qualname + "|sends", "the flush must send exactly one WRTE, found %d send sites" % len(snd), fl.loc())
        return
    sn = snd[0][0]
    R.check(not sn.loops, "S&W", fl.qualname + "|send-once", "the WRTE send is not inside a loop", "the WRTE send is inside a loop: a second WRITE can go out before the first is acknowledged", fl.loc(sn.ast))
    reads = callee_nodes(ctx, fl, ru)
    barrier = []
    ok_edges = []
    for n, c in reads:
        exp = fold_cmd_list(T, fl, n, ctx.cg.site(c).bind(ru).get(ru.call_params[0]))
        if exp is None or b"OKAY" not in exp:
            continue
        if not g.dominates([sn], n):
            continue
        arg = ctx.cg.site(c).bind(ru).get("adb_info")
        if arg is None or varkey(unawait(arg)) not in fl.params:
            continue
        if set(exp) == {b"OKAY"}:
            barrier.append(n)
        else:
            rt = T.term(fl, n, c)
            for tn in g.live_nodes():
                if tn.kind == "test":
                    t = unawait(tn.ast.test)
                    if isinstance(t, ast.Compare) and len(t.ops) == 1 and isinstance(t.ops[0], (ast.Eq, ast.NotEq)):
                        a, b = T.term(fl, tn, t.left), T.term(fl, tn, t.comparators[0])
                        for x, y in ((a, b), (b, a)):
                            if x == ("proj", rt, 0) and y[0] == "c" and y[1] in set(exp):
                                # value set of the awaited command on each edge of the test: {K} / expected - {K}
                                eq_lab = "true" if isinstance(t.ops[0], ast.Eq) else "false"
                                ne_lab = "false" if eq_lab == "true" else "true"
                                if {y[1]} == {b"OKAY"}:
                                    ok_edges.append((tn, eq_lab))
                                if set(exp) - {y[1]} == {b"OKAY"}:
                                    ok_edges.append((tn, ne_lab))
    r = g.reach([sn], avoid=barrier, exc=False, edge_filter=lambda s, d, l: not any(s is tn and l == lab for tn, lab in ok_edges))
    R.check((barrier or ok_edges) and g.exit not in r, "S&W", fl.qualname + "|await-okay",
            "every normal path from the WRTE send to the return crosses 'the awaited command is OKAY'",
            "the flush can return after sending a WRTE without having received the device's OKAY (e.g. for small buffers / on another packet): the next WRITE is sent before the previous one is acknowledged", fl.loc(sn.ast))
    # nothing else is sent in the flush (acks of early WRTEs happen inside _read_until)
    # callers of flush: only the sync send/read helpers
    callers = set(cs.func.name for cs in ctx.cg.callers_of(fl))
    R.check(callers <= {"_filesync_send", "_filesync_read"}, "S&W", fl.qualname + "|callers", "flush is called only by the sync send/read helpers", "flush has unexpected callers %s" % sorted(callers), fl.loc())


def _close(ctx, R, roles, T):
    cg = ctx.cg
    clse = roles.dev["_clse"]
    ru = roles.dev["_read_until"]
    drain = roles.dev["_read_until_close"]
    # _clse: send CLSE, then await CLSE
    g = ctx.cfg(clse)
    snd = callee_nodes(ctx, clse, roles.send_locked)
    rds = callee_nodes(ctx, clse, ru)
    ok = len(snd) == 1 and len(rds) == 1 and not snd[0][0].loops
    if ok:
        exp = fold_cmd_list(T, clse, rds[0][0], cg.site(rds[0][1]).bind(ru).get(ru.call_params[0]))
        ok = exp == (b"CLSE",) and g.dominates([snd[0][0]], rds[0][0]) and g.dominates([rds[0][0]], g.exit, exc=False)
    R.check(ok, "CLOSE", clse.qualname, "_clse sends one CLSE and then awaits the device's CLSE", "_clse does not (send exactly one CLSE, then await exactly CLSE)", clse.loc())
    # drain generator: CLSE sent once in answer to the device's CLSE, then leaves
    g = ctx.cfg(drain)
    df = ctx.df(drain)
    snd = callee_nodes(ctx, drain, roles.send_locked)
    rds = callee_nodes(ctx, drain, ru)
    if len(snd) != 1 or len(rds) != 1:
        R.fail("CLOSE", drain.qualname + "|shape", "drain generator must have one read site and one CLSE send site (found %d/%d)" % (len(rds), len(snd)), drain.loc())
    else:
        sn, rn = snd[0][0], rds[0][0]
        rt = T.term(drain, rn, rds[0][1])
        gov = False
        for tn in g.live_nodes():
            if tn.kind == "test":
                t = unawait(tn.ast.test)
                if isinstance(t, ast.Compare) and len(t.ops) == 1 and isinstance(t.ops[0], (ast.Eq, ast.NotEq)):
                    a, b = T.term(drain, tn, t.left), T.term(drain, tn, t.comparators[0])
                    for x, y in ((a, b), (b, a)):
                        if x == ("proj", rt, 0) and y == ("c", b"CLSE"):
                            lab = "true" if isinstance(t.ops[0], ast.Eq) else "false"
                            other = "false" if lab == "true" else "true"
                            if sn in g.reach_from_edge(tn, lab, avoid=[tn], exc=False) and sn not in g.reach_from_edge(tn, other, avoid=[tn], exc=False):
                                gov = True
        # ... and every packet read is looked at: nothing (a timeout check, say) may leave the generator between the read and the test of its
        # command - a CLSE taken off the wire there would never be answered, a WRTE acknowledged by the reader never delivered
        tests_on_cmd = []
        for tn in g.live_nodes():
            if tn.kind == "test":
                t = unawait(tn.ast.test)
                if isinstance(t, ast.Compare) and len(t.ops) == 1:
                    a, b = T.term(drain, tn, t.left), T.term(drain, tn, t.comparators[0])
                    if ("proj", rt, 0) in (a, b):
                        tests_on_cmd.append(tn)
        between = g.reach([rn], avoid=tests_on_cmd, exc=False)
        lost = [x for x in between if (x.kind == "stmt" and isinstance(x.ast, (ast.Raise, ast.Return))) or x is g.exit]
        R.check(bool(tests_on_cmd) and not lost, "CLOSE", drain.qualname + "|every-packet-handled", "every packet read is dispatched on its command before anything can end the generator",
                "the drain generator can stop (`%s`) after reading a packet and before looking at its command: a device CLSE read there is never answered" % (norm_stmt(lost[0].ast) if lost and lost[0].ast is not None else "end"),
                drain.loc(rn.ast))
        R.check(gov, "CLOSE", drain.qualname + "|answer-only", "the drain generator sends CLSE only in answer to the device's CLSE",
                "the drain generator can send CLSE although the delivered packet is not the device's CLSE", drain.loc(sn.ast))
        after = g.reach([sn], exc=False)
        again = [x for x in after if x is rn or x is sn or any(cg.site(c) is not None and any(cc in _senders(ctx, roles) for cc in cg.site(c).callees) for c in node_calls(x))]
        R.check(not again, "CLOSE", drain.qualname + "|nothing-after", "after answering CLSE the generator neither reads nor sends on the stream again",
                "after sending CLSE the drain generator can still read from / send on the closed stream (`%s`)" % (norm_stmt(again[0].exprs()[0]) if again else ""), drain.loc(sn.ast))
    # typestate: nothing sent for X after _clse(X); owners close on every normal path
    senders = _senders(ctx, roles)
    closers = {clse, drain, roles.dev["_streaming_command"]}
    fopen = roles.dev["_open"]
    n_owner = 0
    for f in roles.dev_cls.methods.values():
        g = ctx.cfg(f)
        df = ctx.df(f)
        opens = [(n, c) for (n, c) in callee_nodes(ctx, f, fopen)]
        cl = callee_nodes(ctx, f, clse)
        for n, c in cl:
            arg = c.args[0] if c.args else None
            X = varkey(unawait(arg)) if arg is not None else None
            if X is None:
                continue
            redefs = [m for m in g.nodes if any(d.var == X and d.strong for d in df.node_defs.get(m, [])) and m is not g.entry]
            after = g.reach([n], avoid=redefs, exc=True)
            for m in after:
                for c2 in node_calls(m):
                    cs = cg.site(c2)
                    if cs is None or not any(x in senders for x in cs.callees):
                        continue
                    passes_x = any(varkey(unawait(a)) == X for a in list(c2.args) + [k.value for k in c2.keywords])
                    if passes_x:
                        R.fail("CLOSE-typestate", "%s|after-close|%s" % (f.qualname, norm_stmt(c2)),
                               "`%s` uses stream `%s` after it was closed by _clse: a packet is sent on a closed stream" % (norm_stmt(c2), X), f.loc(m.ast))
        if not opens or f.name in ("reboot", "_streaming_command"):
            continue
        n_owner += 1
        for on, oc in opens:
            X = None
            if on.kind == "stmt" and isinstance(on.ast, ast.Assign) and len(on.ast.targets) == 1:
                X = varkey(on.ast.targets[0])
            cls_nodes = [n for (n, c) in cl if c.args and varkey(unawait(c.args[0])) == X]
            r = g.reach([on], avoid=cls_nodes, exc=False)
            R.check(bool(cls_nodes) and g.exit not in r and on not in r, "CLOSE-typestate", "%s|closes|%s" % (f.qualname, X),
                    "%s closes the stream it opened on every normal path" % f.name,
                    "%s can finish (or open the next stream) without closing the stream it opened" % f.name, f.loc(on.ast))
            # exactly one close per open on each path: no path passes two close nodes for X without a new open
            for cn in cls_nodes:
                r2 = g.reach([cn], avoid=[on], exc=False)
                dbl = [x for x in cls_nodes if x in r2]
                R.check(not dbl, "CLOSE-typestate", "%s|close-once|%s" % (f.qualname, norm_stmt(cn.ast)), "the stream is closed once",
                        "the stream can be closed twice (two CLSE packets for one stream)", f.loc(cn.ast))
    R.count("CLOSE-owners[%s]" % roles.tag, n_owner, 4)
    # pull: close in finally covering every use of the stream
    f = roles.dev["pull"]
    g = ctx.cfg(f)
    opens = callee_nodes(ctx, f, fopen)
    if len(opens) == 1:
        on = opens[0][0]
        X = varkey(on.ast.targets[0]) if on.kind == "stmt" and isinstance(on.ast, ast.Assign) else None
        uses = []
        for n in g.live_nodes():
            if n is on:
                continue
            for c in node_calls(n):
                cs = cg.site(c)
                if cs is not None and any(x in senders for x in cs.callees) and any(varkey(unawait(a)) == X for a in c.args) and clse not in cs.callees:
                    uses.append(n)
        for u in uses:
            prot = False
            for (t, region) in u.trys:
                if region == "body" and any(isinstance(x, ast.Call) and call_attr(x) == "_clse" and x.args and varkey(unawait(x.args[0])) == X for st in t.finalbody for x in ast.walk(st)):
                    prot = True
            R.check(prot, "CLOSE-finally", "%s|%s" % (f.qualname, norm_stmt(u.exprs()[0])), "the transfer runs inside try/finally that closes the stream",
                    "`%s` is not protected by a `finally` that closes the stream: a failing pull leaves the stream open" % norm_stmt(u.exprs()[0]), f.loc(u.ast))
        R.check(bool(uses), "CLOSE-finally", f.qualname + "|uses", "pull uses the stream it opens", None, f.loc(), trivial=True)
    else:
        R.fail("CLOSE-finally", f.qualname + "|opens", "pull must open exactly one stream", f.loc())


def _senders(ctx, roles):
    """Device-class functions that (transitively) send a packet."""
    cache = getattr(roles, "_senders", None)
    if cache is not None:
        return cache
    cg = ctx.cg
    out = {roles.send_locked}
    changed = True
    while changed:
        changed = False
        for f, sites in cg.sites.items():
            if f in out or f.mod is not roles.mod:
                continue
            if any(any(c in out for c in cs.callees) for cs in sites):
                out.add(f)
                changed = True
    roles._senders = out
    return out
