"""FRESH rule: the accumulators a call works with are that call's own.

Every property quantifies over histories ("for every sequence of calls"): its rules read a function body as if the objects it builds up
(buffers, lists of results) started out as its text says.  Two Python constructs break that reading without changing a single statement
the rules look at:

  (a) a parameter whose *default* is a mutable object (``buf=bytearray()``, ``acc=[]``): the object is created once, when the ``def`` is
      executed, and every call that omits the argument works on the same one;
  (a') a parameter whose default reads the clock (``start=time.time()``): the time the module was imported, not the time of the call;
  (b) a module-level accumulator (``_EARLY = bytearray()``) that a function extends in place.

The rule reports such an object when a function in the scope of the property *mutates it in place* (``+=``, ``.extend``, ``.append``,
``x[i] = ``...) while the object that reaches the mutation can be the shared one (reaching definitions: the parameter's entry definition
resp. the module-level binding), and - for (a) - some call inside the package, or any outside caller of a public function, can omit the
argument.  Read-only tables and never-mutated defaults are left alone, and so are dict / set objects (memo tables and registries are
shared on purpose and do not change what a call computes).

Scope of a property = the functions its obligations name, plus the helpers the pinned tree does not know (known_funcs.KNOWN) that those
functions reach through other unknown helpers: a helper extracted from a function the property rests on is part of that function.

The pinned tree has no instance (all parameter defaults are constants): the rule's positive examples are the self-test mutants
`*-shared-default` / `*-shared-global` and seeded/C10-p.
"""
import ast

from .loader import walk_own
from .known_funcs import KNOWN

ACCUMULATORS = {"bytearray", "list", "deque", "collections.deque"}
MUTATORS = {"append", "extend", "insert", "appendleft", "extendleft", "pop", "popleft", "clear", "remove", "reverse", "sort"}


def _is_accumulator(e):
    if isinstance(e, (ast.List, ast.ListComp)):
        return True
    if isinstance(e, ast.Call):
        f = e.func
        nm = f.id if isinstance(f, ast.Name) else ("%s.%s" % (f.value.id, f.attr) if isinstance(f, ast.Attribute) and isinstance(f.value, ast.Name) else None)
        return nm in ACCUMULATORS
    return False


def _is_clock(e):
    for n in ast.walk(e):
        if isinstance(n, ast.Call) and isinstance(n.func, ast.Attribute) and isinstance(n.func.value, ast.Name) and n.func.value.id in ("time", "datetime") \
                and n.func.attr in ("time", "monotonic", "perf_counter", "now", "utcnow", "time_ns", "monotonic_ns"):
            return True
    return False


def scope_of(ctx, R):
    qn = {f.qualname: f for f in ctx.pkg.funcs.values()}
    roots = set()
    for o in R.obligations:
        for s in o.subject.split("|"):
            if s in qn:
                roots.add(qn[s])
    seen = set(roots)
    stack = list(roots)
    while stack:
        f = stack.pop()
        for cs in ctx.cg.sites.get(f, []):
            for c in cs.callees:
                if c not in seen and c.qualname not in KNOWN:
                    seen.add(c)
                    stack.append(c)
    # nested functions of scope members belong to them
    for f in list(ctx.pkg.funcs.values()):
        p = getattr(f, "parent", None)
        while p is not None:
            if p in seen:
                seen.add(f)
                break
            p = getattr(p, "parent", None)
    return roots, seen


def _inplace_sites(ctx, f, var, kinds):
    """CFG nodes of f that mutate, in place, an object named `var` (or a plain local copy of the name) while a definition of one of
    `kinds` reaches them."""
    df = ctx.df(f)
    g = ctx.cfg(f)
    names = {var}
    if any(isinstance(x, ast.Global) and var in x.names for x in walk_own(f.node)):
        kinds = tuple(kinds) + ("assign", "aug")          # `global var`: every binding of the name is the module's
    # plain copies of the name: `a = var`
    for n in g.live_nodes():
        a = n.ast
        if n.kind == "stmt" and isinstance(a, ast.Assign) and len(a.targets) == 1 and isinstance(a.targets[0], ast.Name) and isinstance(a.value, ast.Name) and a.value.id == var:
            if any(d.kind in kinds for d in df.reaching(n, var)):
                names.add(a.targets[0].id)
    out = []
    for n in g.live_nodes():
        a = n.ast
        hit = None
        if n.kind == "stmt" and isinstance(a, ast.AugAssign):
            t = a.target
            base = t
            while isinstance(base, ast.Subscript):
                base = base.value
            if isinstance(base, ast.Name) and base.id in names:
                hit = base.id
        if hit is None and n.kind == "stmt" and isinstance(a, (ast.Assign, ast.Delete)):
            for t in a.targets:
                if isinstance(t, ast.Subscript):
                    base = t
                    while isinstance(base, ast.Subscript):
                        base = base.value
                    if isinstance(base, ast.Name) and base.id in names:
                        hit = base.id
        if hit is None:
            for e in n.exprs():
                for sub in ast.walk(e):
                    if isinstance(sub, ast.Call) and isinstance(sub.func, ast.Attribute) and sub.func.attr in MUTATORS and isinstance(sub.func.value, ast.Name) and sub.func.value.id in names:
                        hit = sub.func.value.id
        if hit is None:
            continue
        if hit == var:
            if any(d.kind in kinds for d in df.reaching(n, var)):
                out.append(n)
        else:
            # the copy: its only definitions are `a = var` taken while the shared object reached
            ds = df.reaching(n, hit)
            if ds and all(d.kind == "assign" and isinstance(d.value, ast.Name) and d.value.id == var for d in ds):
                out.append(n)
    return out


def _can_omit(ctx, f, p):
    """Some caller can leave parameter p of f to its default."""
    if not f.name.startswith("_") or (f.name.startswith("__") and f.name.endswith("__")):
        return True, "a public function: any caller outside the package may omit it"
    sites = [(g, cs) for g, ss in ctx.cg.sites.items() for cs in ss if f in cs.callees]
    if not sites:
        return True, "no resolved call site: callers unknown"
    for g, cs in sites:
        c = cs.node
        if any(isinstance(a, ast.Starred) for a in c.args) or any(k.arg is None for k in c.keywords):
            continue
        if cs.bind(f).get(p) is None:
            return True, "%s calls it without `%s`" % (g.qualname, p)
    return False, ""


def fresh_rule(ctx, R, rule="FRESH"):
    from .util import norm_stmt
    roots, scope = scope_of(ctx, R)
    count = 0
    for f in sorted(scope, key=lambda x: x.qualname):
        # (a) mutable defaults
        for p, d in sorted(f.defaults.items()):
            if isinstance(d, ast.Constant):
                continue
            count += 1
            if _is_clock(d):
                # (a') a default computed from the clock is the time the module was imported, not the time of the call
                omit, why = _can_omit(ctx, f, p)
                read = any(isinstance(n, ast.Name) and n.id == p and isinstance(n.ctx, ast.Load) for n in walk_own(f.node))
                R.check(not (omit and read), rule, "%s|default|%s" % (f.qualname, p), "the clock default of `%s` is never used" % p,
                        "`%s` defaults to `%s`, evaluated once when the function is defined: every call that omits the argument (%s) measures from the time the module was imported" % (p, norm_stmt(d), why), f.loc())
                continue
            if not _is_accumulator(d):
                continue
            sites = _inplace_sites(ctx, f, p, ("param",))
            omit, why = _can_omit(ctx, f, p)
            bad = bool(sites) and omit
            R.check(not bad, rule, "%s|default|%s" % (f.qualname, p), "the object `%s` defaults to is never changed in place (or never defaulted)" % p,
                    "`%s` defaults to one `%s` object created when the function is defined, and `%s` changes it in place: every call that omits the argument (%s) continues with what earlier calls left in it"
                    % (p, norm_stmt(d), norm_stmt(sites[0].ast)[:60] if sites else "", why), f.loc(sites[0].ast) if sites else f.loc())
        # (b) module-level accumulators changed in place
        mod = f.mod
        for name, vals in sorted(getattr(mod, "assigns", {}).items()):
            if not vals or not all(_is_accumulator(v) for v in vals):
                continue
            used = any(isinstance(n, ast.Name) and n.id == name for n in walk_own(f.node))
            if not used:
                continue
            count += 1
            sites = _inplace_sites(ctx, f, name, ("global",))
            R.check(not sites, rule, "%s|global|%s" % (f.qualname, name), "the module-level object `%s` is only read" % name,
                    "`%s` is one module-level object shared by all devices and calls, and `%s` changes it in place" % (name, norm_stmt(sites[0].ast)[:60] if sites else ""),
                    f.loc(sites[0].ast) if sites else f.loc())
    R.ok(rule, "scope", "%d function(s) in scope (%d named by the obligations): %d non-constant default(s) / module-level accumulator use(s) examined" % (len(scope), len(roots), count), "", trivial=True)
    R.rule_counts[rule] = count
    R.extra.setdefault("fresh_scope", {"roots": len(roots), "functions": len(scope)})
    return count
