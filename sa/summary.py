"""Effect summaries of functions: the fallback of the TWIN rule when two bodies differ textually.

summary(f) maps every effect of f - calls (other than logging and pure builtins), attribute stores, returns, yields,
raises - to (governing must-facts expressed as terms, the effects that dominate it, enclosing loop conditions).
Two functions with equal summaries perform the same calls with the same argument terms under the same conditions
in the same dominance order; local names, temporaries, logging and statement layout do not appear in a summary.
"""
import ast

from .dataflow import key, varkey, unawait
from .engine import terms
from .terms import crepr
from .loader import walk_expr
from .util import node_calls, call_attr, src

PURE_BUILTINS = {"len", "int", "str", "bytes", "bytearray", "isinstance", "min", "max", "bool", "tuple", "list", "zip", "enumerate", "range", "sum", "sorted", "reversed", "type", "repr", "format", "super"}
NAME_MAP = {
    "adb_device_async.": "adb_device.", "_AdbIOManagerAsync": "_AdbIOManager", "AdbDeviceTcpAsync": "AdbDeviceTcp", "AdbDeviceAsync": "AdbDevice",
    "TcpTransportAsync": "TcpTransport", "BaseTransportAsync": "BaseTransport", "transport.tcp_transport_async": "transport.tcp_transport",
    "transport.base_transport_async": "transport.base_transport", "_AsyncBytesIO": "BytesIO", "aiofiles.open": "builtins.open",
    "asyncio.Lock": "threading.Lock", "adb_device_async": "adb_device",
}


def _norm_str(s):
    for a, b in NAME_MAP.items():
        if a in s:
            s = s.replace(a, b)
    return s


def norm_term(t):
    if isinstance(t, str):
        return _norm_str(t)
    if isinstance(t, tuple) and len(t) == 2 and t[0] == "loop":
        return ("loop",)          # loop-carried value: the local's name is irrelevant
    if isinstance(t, frozenset):
        return frozenset(norm_term(x) for x in t)
    if isinstance(t, tuple):
        return tuple(norm_term(x) for x in t)
    return t


def _is_logging(c):
    f = c.func
    return isinstance(f, ast.Attribute) and isinstance(f.value, ast.Name) and f.value.id in ("_LOGGER", "logging", "logger", "LOGGER", "warnings")


def summary(ctx, f):
    from .rules.c06 import eval_dump
    T = terms(ctx)
    g = ctx.cfg(f)
    df = ctx.df(f)
    live = g.live_nodes()
    events = []   # (key, node)
    for n in live:
        in_raise = set()
        if n.kind == "stmt" and isinstance(n.ast, ast.Raise):
            in_raise = set(id(x) for x in ast.walk(n.ast) if isinstance(x, ast.Call))     # exception construction / message formatting
        for c in node_calls(n):
            if _is_logging(c) or id(c) in in_raise:
                continue
            fn = unawait(c.func)
            if isinstance(fn, ast.Attribute) and fn.attr == "run_in_executor" and len(c.args) >= 2 and isinstance(c.args[0], ast.Constant) and c.args[0].value is None:
                c = ast.copy_location(ast.Call(func=c.args[1], args=list(c.args[2:]), keywords=[]), c)     # == fn(*args)
                fn = unawait(c.func)
            if (isinstance(fn, ast.Name) and fn.id in ("get_running_loop", "get_event_loop")) or (isinstance(fn, ast.Attribute) and fn.attr in ("get_running_loop", "get_event_loop")):
                continue
            if isinstance(fn, ast.Name) and fn.id in PURE_BUILTINS and fn.id not in f.params:
                continue
            if isinstance(fn, ast.Attribute) and fn.attr in ("format", "encode", "decode", "join", "get", "items", "values", "keys", "empty") and not (ctx.cg.site(c) and ctx.cg.site(c).callees):
                continue
            cs = ctx.cg.site(c)
            poly = False
            if cs is not None and cs.callees:
                name = "|".join(sorted(x.qualname for x in cs.callees))
                c0 = cs.callees[0]
                if len(cs.callees) == 1 and c0.name == "__init__" and all(root == c0.params[0] for root, _a in ctx.modsets.get(c0, ())):
                    continue      # pure value constructor: the object term appears in the effects that use it
                if len(cs.callees) > 1 or (c0.cls is not None and c0.cls.name in ("_AsyncBytesIO",)):
                    poly = True   # polymorphic receiver (transport classes, stream wrappers): identify by method name
                    name = "." + (call_attr(c) or "?")
            elif cs is not None and cs.ext:
                name = cs.ext
            else:
                x = ctx.cg.ext_name(f.mod, fn, f) if cs is None and isinstance(fn, (ast.Name, ast.Attribute)) else None
                pf = ctx.cg._func_of_name(f.mod, fn.id) if cs is None and isinstance(fn, ast.Name) else None
                name = x or (pf.qualname if pf is not None else "." + (call_attr(c) or "?"))
            recv = (T.term(f, n, fn.value),) if isinstance(fn, ast.Attribute) and not (cs is not None and cs.ext) and not name.count(".") > 1 and name.startswith(".") else ()
            args = tuple(T.term(f, n, a) for a in c.args if not isinstance(a, ast.Starred))
            kws = tuple(sorted((k_.arg, T.term(f, n, k_.value)) for k_ in c.keywords if k_.arg))
            if poly:
                recv = (T.term(f, n, fn.value),) if isinstance(fn, ast.Attribute) else ()
            if cs is not None and len(cs.callees) == 1 and not poly:
                # positional/keyword style does not matter: bind to parameters
                b = cs.bind(cs.callees[0])
                args = tuple(sorted((p, T.term(f, n, a)) for p, a in b.items()))
                kws = ()
            events.append((norm_term(("call", name, recv, args, kws)), n))
        a = n.ast
        if n.kind == "stmt":
            if isinstance(a, ast.Return):
                events.append((norm_term(("return", T.term(f, n, a.value) if a.value is not None else ("c", None))), n))
            elif isinstance(a, ast.Raise):
                exc = a.exc
                nm = src(exc.func) if isinstance(exc, ast.Call) else (src(exc) if exc is not None else "reraise")
                extra = ()
                if isinstance(exc, ast.Call) and len(exc.args) == 1 and isinstance(unawait(exc.args[0]), ast.Name):
                    extra = (T.term(f, n, exc.args[0]),)
                events.append((norm_term(("raise", nm.split(".")[-1], extra)), n))
            elif isinstance(a, (ast.Assign, ast.AugAssign)):
                targets = a.targets if isinstance(a, ast.Assign) else [a.target]
                flat = []
                for t in targets:
                    if isinstance(t, (ast.Tuple, ast.List)):
                        flat.extend((x, (i,)) for i, x in enumerate(t.elts))
                    else:
                        flat.append((t, ()))
                for t, path in flat:
                    base = t
                    sub = None
                    if isinstance(t, ast.Subscript):
                        base = t.value
                        sub = t
                    k_ = varkey(base)
                    if k_ and "." in k_:
                        root, rest = k_.split(".", 1)
                        v = T.term(f, n, a.value)
                        for i in path:
                            v = T.project(v, i)
                        op = type(a.op).__name__ if isinstance(a, ast.AugAssign) else "="
                        slot = T.term(f, n, sub.slice.lower) if sub is not None and isinstance(sub.slice, ast.Slice) and sub.slice.lower is not None else None
                        events.append((norm_term(("store", T.term(f, n, ast.Name(id=root, ctx=ast.Load())), rest, op, v, slot)), n))
        for e in n.exprs():
            for x in walk_expr(e) if isinstance(e, ast.expr) else ast.walk(e):
                if isinstance(x, ast.Yield):
                    events.append((norm_term(("yield", T.term(f, n, x.value) if x.value is not None else ("c", None))), n))
                elif isinstance(x, ast.YieldFrom):
                    events.append((norm_term(("yield*", T.term(f, n, x.value))), n))
        if n.kind == "iter":
            it = T.term(f, n, a.iter)
            # `for x in G: yield x` is the same effect as `yield from G`
            body = [m for m in live if n in m.loops]
            if len(body) == 1 and any(isinstance(x, ast.Yield) for e in body[0].exprs() for x in ast.walk(e)):
                yv = [x for e in body[0].exprs() for x in ast.walk(e) if isinstance(x, ast.Yield)][0]
                if yv.value is not None and T.term(f, body[0], yv.value) == ("item", it):
                    events.append((norm_term(("yield*", it)), n))
                    events = [(k_, m) for (k_, m) in events if m is not body[0]]
                    continue
            events.append((norm_term(("iterate", it)), n))
    # facts as terms
    def facts_of(n):
        out = set()
        for fa in df.facts(n):
            try:
                ops = tuple(T.term(f, n, eval_dump(d)) for d in fa[0][1:])
            except Exception:   # noqa
                ops = fa[0][1:]
            pol = fa[1]
            if fa[0][0] == "eq" and len(ops) == 2:
                # a command drawn from a two-element expected set: `cmd != A` is `cmd == B`
                for x, y in ((ops[0], ops[1]), (ops[1], ops[0])):
                    if isinstance(x, tuple) and x[0] == "c" and isinstance(x[1], bytes) and isinstance(y, tuple) and y[0] == "proj" and y[2] == 0 and y[1][0] == "call":
                        for a_ in y[1][2]:
                            if isinstance(a_, tuple) and a_[0] == "c" and isinstance(a_[1], tuple) and len(a_[1]) == 2 and x[1] in a_[1] and all(isinstance(z, bytes) for z in a_[1]):
                                lo = min(a_[1])
                                if x[1] != lo:
                                    ops = (("c", lo), y)
                                    pol = not pol
            if fa[0][0] in ("eq", "is"):
                ops = tuple(sorted(ops, key=crepr))
            out.add(norm_term((fa[0][0], ops, pol)))
        return frozenset(out)

    effect_nodes = {}
    for k_, n in events:
        effect_nodes.setdefault(k_, []).append(n)
    summ = {}
    for k_, nodes in effect_nodes.items():
        fs = None
        doms = None
        loops = None
        for n in nodes:
            fn_ = facts_of(n)
            fs = fn_ if fs is None else (fs & fn_)
            d = frozenset(k2 for k2, ns in effect_nodes.items() if k2 != k_ and k2[0] in ("call", "store", "yield", "yield*", "iterate", "new") and g.dominates(ns, n, exc=False) and not any(x is n for x in ns))
            doms = d if doms is None else (doms & d)
            lp = tuple(sorted(crepr(norm_term(T.term(f, h, h.exprs()[0]))) for h in n.loops)) if k_[0] not in ("raise", "return") else ()
            loops = lp if loops is None else (loops if loops == lp else ("mixed",))
        summ[k_] = (fs, doms, loops, len(nodes) if k_[0] in ("call", "store", "new") else 1)
    return summ


def diff_summaries(a, b):
    """First difference between two summaries as text, or None."""
    for k_ in sorted(set(a) | set(b), key=crepr):
        if k_ not in a:
            return "effect only in the async version: %s" % _short(k_)
        if k_ not in b:
            return "effect only in the sync version: %s" % _short(k_)
        if a[k_][0] != b[k_][0]:
            d = (a[k_][0] ^ b[k_][0])
            return "effect %s is governed by different conditions (%s)" % (_short(k_), "; ".join(_short(x) for x in list(d)[:2]))
        if a[k_][1] != b[k_][1]:
            d = (a[k_][1] ^ b[k_][1])
            return "effect %s is ordered differently with respect to %s" % (_short(k_), "; ".join(_short(x) for x in list(d)[:2]))
        if a[k_][2] != b[k_][2]:
            return "effect %s sits in different loops" % _short(k_)
        if a[k_][3] != b[k_][3]:
            return "effect %s occurs at %d site(s) vs %d" % (_short(k_), a[k_][3], b[k_][3])
    return None


def _short(t):
    from .terms import crepr, show
    try:
        s = show(t)
    except Exception:   # noqa
        s = crepr(t)
    return s if len(s) < 160 else s[:157] + "..."
