"""Self-check of the canonicaliser's side conditions (python -m sa.canon_selfcheck).

Every rewrite of sa/canon.py is a program equivalence that holds only under a side condition.  A rewrite applied where its side
condition fails would turn a *different* program into the canonical one and blind every rule behind it, so each pair below is a
snippet on which the rewrite must fire ("fires") next to a near miss on which it must not ("kept").  The verdict is read off the
canonical text: substrings that must / must not occur.  Nothing is executed; the snippets are parsed and canonicalised only."""
import ast
import sys

from . import canon


def canonical(mods, modname, func):
    trees = {k: ast.parse(v) for k, v in mods.items()}
    canon.NONNULL_CONSTS.clear()
    cm = trees.get("constants")
    if cm is not None:
        for st in cm.body:
            if isinstance(st, ast.Assign) and len(st.targets) == 1 and isinstance(st.targets[0], ast.Name) and isinstance(st.value, ast.Constant) and st.value.value is not None:
                canon.NONNULL_CONSTS.add(canon._dump(ast.Attribute(value=ast.Name(id="constants", ctx=ast.Load()), attr=st.targets[0].id, ctx=ast.Load())))
    canon.SIGS.clear()
    canon.SIGS.update(canon.build_signatures(trees.values()))
    canon.CLASS_METHODS.clear()
    canon.CLASS_METHODS.update(canon.build_class_methods(trees.values()))
    canon.RET_ARITY.clear()
    canon.RET_ARITY.update(canon.build_ret_arity(trees.values()))
    canon.NONNULL_LIST_PARAMS.clear()
    canon.NONNULL_LIST_PARAMS.update(canon.build_nonnull_list_params(trees.values()))
    canon.FOREIGN_HOME_MODULES.clear()
    canon.FOREIGN_HOME_MODULES.update(trees)
    canon.FOREIGN_INLINED.clear()
    canon.FOREIGN.clear()
    canon.FOREIGN.update(canon.build_foreign(trees, set()))
    from .nullness import Nullness
    canon.NULLNESS = Nullness(trees)
    for name, t in trees.items():
        canon.canonicalise(t, name, set(), {}, [])
    canon.drop_dead_foreign(trees)
    if func == "<module>":
        return ast.unparse(trees[modname])
    for node in ast.walk(trees[modname]):
        if isinstance(node, (ast.FunctionDef, ast.AsyncFunctionDef)) and node.name == func:
            return ast.unparse(node)
    return ""


CASES = []


def case(name, mods, modname, func, has=(), lacks=()):
    CASES.append((name, mods, modname, func, has, lacks))


# -- SUMLOOP ------------------------------------------------------------------------------------------------------------------
case("sumloop fires", {"m": "def f(d):\n    t = 0\n    for x in d:\n        t += ord(x)\n    return t & 255\n"}, "m", "f", has=["sum("], lacks=["for x in d:"])
case("sumloop kept: the summand reads the total", {"m": "def f(d):\n    t = 0\n    for x in d:\n        t += x + t\n    return t\n"}, "m", "f", has=["for x in d:"], lacks=["sum("])
case("sumloop kept: effect in the summand", {"m": "def f(d, g):\n    t = 0\n    for x in d:\n        t += g(x)\n    return t\n"}, "m", "f", has=["for x in d:"], lacks=["sum("])
# -- LISTCOMP -----------------------------------------------------------------------------------------------------------------
case("listcomp fires (fresh list, two lists)", {"m": "import os\ndef f(p):\n    a = []\n    b = []\n    for n in os.listdir(p):\n        a.append(os.path.join(p, n))\n        b.append(p + n)\n    return a, b\n"}, "m", "f",
     has=["for n in _it"], lacks=["append"])
case("listcomp kept: two lists over an arbitrary iterable (could be one-shot)", {"m": "def f(it):\n    a = []\n    b = []\n    for n in it():\n        a.append(n)\n        b.append(n)\n    return a, b\n"}, "m", "f",
     has=["append"])
case("listcomp kept: element reads the list", {"m": "def f(it):\n    a = []\n    for n in it:\n        a.append(len(a))\n    return a\n"}, "m", "f", has=["append"])
# -- DOWHILE ------------------------------------------------------------------------------------------------------------------
case("dowhile fires on a non-None package constant", {"constants": "CLSE = b'CLSE'\n", "m": "from . import constants\nclass A(object):\n    def f(self, r):\n        c = None\n        while c != constants.CLSE:\n            c = r()\n        return c\n"},
     "m", "f", has=["while True"])
case("dowhile kept: comparison value is a parameter", {"m": "class A(object):\n    def f(self, r, stop):\n        c = None\n        while c != stop:\n            c = r()\n        return c\n"}, "m", "f", has=["while c != stop"])
case("dowhile(not in) fires: every caller passes a display of constants",
     {"constants": "OKAY = b'OKAY'\nFAIL = b'FAIL'\n",
      "m": "from . import constants\nclass A(object):\n    def _until(self, ids, r):\n        c = None\n        while c not in ids:\n            c = r()\n            yield c\n    def g(self, r):\n        return list(self._until([constants.OKAY, constants.FAIL], r))\n"},
     "m", "_until", has=["while True"])
case("dowhile(not in) kept: one caller passes a variable",
     {"constants": "OKAY = b'OKAY'\n",
      "m": "from . import constants\nclass A(object):\n    def _until(self, ids, r):\n        c = None\n        while c not in ids:\n            c = r()\n            yield c\n    def g(self, r, ids):\n        return list(self._until(ids, r))\n"},
     "m", "_until", has=["while c not in ids"])
# -- WITHSINK -----------------------------------------------------------------------------------------------------------------
case("withsink fires for a lock attribute", {"m": "class A(object):\n    def f(self):\n        with self._lock:\n            v = self.g()\n        if v:\n            return v\n        return self.h()\n"}, "m", "f",
     has=["with self._lock:\n        v = self.g()\n        if v:"])
case("withsink kept: the context manager is a call (may swallow exceptions)", {"m": "class A(object):\n    def f(self):\n        with self.ctx():\n            v = self.g()\n        if v:\n            return v\n        return self.h()\n"}, "m", "f",
     has=["with self.ctx():\n        v = self.g()\n    if v:"])
# -- OPTRET -------------------------------------------------------------------------------------------------------------------
case("optret fires: value returns are tuples",
     {"m": "class A(object):\n    def _h(self, x):\n        with self._l:\n            if x:\n                return (x, 1)\n        return None\n    def f(self, x):\n        p = self._h(x)\n        if p:\n            return p\n        return self.g()\n"},
     "m", "f", has=["return (x, 1)"], lacks=["_h("])
case("optret kept: a value return may be falsy",
     {"m": "class A(object):\n    def _h(self, x):\n        with self._l:\n            if x:\n                return x - 1\n        return None\n    def f(self, x):\n        p = self._h(x)\n        if p:\n            return p\n        return self.g()\n"},
     "m", "f", lacks=["return x - 1"])
# -- sentinel markers ---------------------------------------------------------------------------------------------------------
_SENT = "_KEEP = object()\nclass A(object):\n    def _f(self, info, t=_KEEP):\n        self.g()\n        if t is not _KEEP:\n            info.x = t\n        return self.h()\n"
case("marker: default call sets nothing, explicit call sets the value",
     {"m": _SENT + "    def k(self, info, v):\n        a = self._f(info)\n        b = self._f(info, v)\n        return a, b\n"}, "m", "k", has=["info.x = v"], lacks=["info.x = _KEEP", "is not _KEEP"])
case("marker kept: the marker is passed on by a caller (it can travel)",
     {"m": _SENT + "    def k(self, info, v=_KEEP):\n        return self._f(info, v)\n"}, "m", "k", has=["self._f(info, v)"])
case("marker kept: the test inside the helper itself is never folded", {"m": _SENT}, "m", "_f", has=["if t is not _KEEP"])
# -- TESTSPLIT ----------------------------------------------------------------------------------------------------------------
case("testsplit fires: exception object or None",
     {"m": "from . import exceptions\nclass A(object):\n    def f(self, k, a):\n        p = None if k else exceptions.XError('no')\n        if p is not None:\n            self.c()\n            raise p\n        return a\n", "exceptions": "class XError(Exception):\n    pass\n"},
     "m", "f", has=["raise exceptions.XError('no')"], lacks=["if p is not None"])
case("testsplit: an arm that may be None as well keeps its test",
     {"m": "class A(object):\n    def f(self, k, a, q):\n        p = None if k else q\n        if p is not None:\n            raise p\n        return a\n"}, "m", "f", has=["q is None", "raise q"])
# -- CALLSEL ------------------------------------------------------------------------------------------------------------------
case("callsel fires", {"m": "class A(object):\n    def f(self, z, a):\n        g = self.s.fz if z else self.s.fn\n        return g(a)\n"}, "m", "f", has=["self.s.fz(a)", "self.s.fn(a)"])
case("callsel kept: the object is rebound in between", {"m": "class A(object):\n    def f(self, z, a):\n        g = self.s.fz if z else self.s.fn\n        self.s = self.mk()\n        return g(a)\n"}, "m", "f", has=["g(a)"])
# -- UNINDEX ------------------------------------------------------------------------------------------------------------------
case("unindex fires: every return is a 4-tuple", {"m": "class A(object):\n    def _r(self):\n        if self.x:\n            return (1, 2, 3, 4)\n        return (5, 6, 7, 8)\n    def f(self):\n        m = self._r()[2]\n        return m\n"},
     "m", "f", has=["_, _, "])
case("unindex kept: one return has another length", {"m": "class A(object):\n    def _r(self):\n        if self.x:\n            return (1, 2, 3)\n        return (5, 6, 7, 8)\n    def f(self):\n        m = self._r()[2]\n        return m\n"},
     "m", "f", has=["[2]"])
# -- snapshots of attributes --------------------------------------------------------------------------------------------------
case("snapshot forwarded: the attribute is bound by the constructor only", {"m": "class A(object):\n    def __init__(self, t):\n        self._t = t\n    def f(self, n):\n        t = self._t\n        a = t.read(n)\n        b = t.read(n)\n        return a + b\n"},
     "m", "f", has=["self._t.read(n)"], lacks=["t = self._t"])
case("snapshot kept: another method rebinds the attribute", {"m": "class A(object):\n    def __init__(self, t):\n        self._t = t\n    def close(self):\n        self._t = None\n    def f(self, n):\n        t = self._t\n        a = t.read(n)\n        b = t.read(n)\n        return a + b\n"},
     "m", "f", has=["t = self._t"])
# -- foreign methods ----------------------------------------------------------------------------------------------------------
case("foreign method inlined: unique public name, touches only its object",
     {"h": "class Info(object):\n    def __init__(self):\n        self.i = 0\n    def bump(self, n):\n        self.i = self.i + n\n", "m": "from .h import Info\nclass A(object):\n    def f(self, info, n):\n        info.bump(n)\n        return info.i\n"},
     "m", "f", has=["info.i = info.i + n"])
case("foreign method kept: the name is defined in two classes",
     {"h": "class Info(object):\n    def bump(self, n):\n        self.i = self.i + n\nclass Other(object):\n    def bump(self, n):\n        self.j = n\n", "m": "class A(object):\n    def f(self, info, n):\n        info.bump(n)\n        return info.i\n"},
     "m", "f", has=["info.bump(n)"])
case("public method that nobody calls is not dropped",
     {"h": "class Info(object):\n    def __init__(self):\n        self.i = 0\n    def peek(self):\n        return self.i\n", "m": "class A(object):\n    def f(self, info):\n        return 1\n"},
     "h", "peek", has=["def peek"])
# -- EQIN / IFAND / UNSWITCH --------------------------------------------------------------------------------------------------
case("eqin fires on a plain name", {"m": "def f(a, x, y):\n    return a == x or a == y\n"}, "m", "f", has=["a in (x, y)"])
case("eqin kept: different left operands", {"m": "def f(a, b, x, y):\n    return a == x or b == y\n"}, "m", "f", has=["a == x or b == y"])
case("ifand fires", {"m": "def f(a, b, g):\n    if a:\n        if b:\n            g()\n    return 1\n"}, "m", "f", has=["if a and b:"])
case("ifand kept: the inner if has an else", {"m": "def f(a, b, g, h):\n    if a:\n        if b:\n            g()\n        else:\n            h()\n    return 1\n"}, "m", "f", lacks=["if a and b:"])
case("unswitch fires: the condition does not depend on the element", {"m": "def f(d, c):\n    return sum((ord(x) if c else x for x in d))\n"}, "m", "f", has=["sum((ord(x) for x in d))"])
case("unswitch kept: the condition reads the element", {"m": "def f(d):\n    return sum((ord(x) if x else 0 for x in d))\n"}, "m", "f", has=["if x else 0"])

# -- FWD (copies, mutable displays, effects) ------------------------------------------------------------------------------------
case("copy forwarded: the source is not assigned before the last use", {"m": "def f(r):\n    a, v = r()\n    w = v\n    if w == 1:\n        return w\n    a, v = r()\n    return v\n"}, "m", "f", lacks=["w = v"])
case("copy across a re-assignment of its source: the first value is what the copy keeps", {"m": "def f(r):\n    a, v = r()\n    w = v\n    a, v = r()\n    return (w, v)\n"}, "m", "f", has=["a, w = r()", "return (w, v__w2)"])
case("mutable display is not duplicated", {"m": "def f(g):\n    xs = []\n    g(xs)\n    g(xs)\n    return xs\n"}, "m", "f", has=["xs = []"])
case("call is not moved across another effect", {"m": "def f(g, h):\n    a = g()\n    h()\n    return a\n"}, "m", "f", has=["a = g()"])
case("dead store of a call is kept", {"m": "def f(g):\n    a = g()\n    a = 1\n    return a\n"}, "m", "f", has=["g()"])
# -- ROT / LOCKWITH / UNROLL ----------------------------------------------------------------------------------------------------
case("rot fires on a repeated read", {"m": "def f(r, ok):\n    x = r()\n    while not ok(x):\n        x = r()\n    return x\n"}, "m", "f", has=["while True"])
case("rot kept: the statement before the loop differs from the one at its end", {"m": "def f(r, r2, ok):\n    x = r()\n    while not ok(x):\n        x = r2()\n    return x\n"}, "m", "f", has=["while not ok(x)"])
case("lockwith fires", {"m": "class A(object):\n    def f(self):\n        self._l.acquire()\n        try:\n            return self.g()\n        finally:\n            self._l.release()\n"}, "m", "f", has=["with self._l:"])
case("lockwith kept: another lock is released", {"m": "class A(object):\n    def f(self):\n        self._l.acquire()\n        try:\n            return self.g()\n        finally:\n            self._m.release()\n"}, "m", "f", has=["acquire()"])
case("unroll kept: the body can break", {"m": "def f(g):\n    for x in (1, 2):\n        if g(x):\n            break\n    return 0\n"}, "m", "f", has=["for x in (1, 2)"])
case("suppress(BaseException) is a swallow-all handler", {"m": "from contextlib import suppress\ndef f(cb, x):\n    with suppress(BaseException):\n        cb(x)\n    return x\n"}, "m", "f", has=["try:", "except:"], lacks=["suppress"])
case("suppress kept: a specific class (contextlib.suppress also swallows exception groups of that class, `except KeyError` does not)", {"m": "from contextlib import suppress\ndef f(cb, x):\n    with suppress(KeyError):\n        cb(x)\n    return x\n"}, "m", "f", has=["with suppress(KeyError)"])
case("suppress kept: the name is rebound locally", {"m": "def f(cb, x, mk):\n    suppress = mk()\n    with suppress(BaseException):\n        cb(x)\n    return x\n"}, "m", "f", has=["with suppress(BaseException)"])
case("EAFP attribute look-up is hasattr", {"m": "def f(n, k, g):\n    try:\n        tb = n.to_bytes\n    except AttributeError:\n        return g(n)\n    return tb(k)\n"}, "m", "f", has=["hasattr(n, 'to_bytes')"], lacks=["try:"])
case("EAFP kept: the try body does more than the look-up (a call that may raise AttributeError itself)", {"m": "def f(n, k, g):\n    try:\n        tb = n.to_bytes(k)\n    except AttributeError:\n        return g(n)\n    return tb\n"}, "m", "f", has=["try:"])
case("EAFP kept: the handler is for another class", {"m": "def f(n, k, g):\n    try:\n        tb = n.to_bytes\n    except TypeError:\n        return g(n)\n    return tb(k)\n"}, "m", "f", has=["try:"])
case("EAFP on a constant table is .get", {"k": "T = {1: b'a', 2: b'b'}\n", "m": "from . import k\ndef f(w):\n    try:\n        c = k.T[w]\n    except KeyError:\n        c = None\n    return c\n"}, "m", "f", has=["k.T.get(w)"], lacks=["try:"])
case("EAFP on a constant table with a raising handler is a membership test", {"k": "T = {1: b'a', 2: b'b'}\n", "m": "from . import k\ndef f(w):\n    try:\n        c = k.T[w]\n    except KeyError:\n        raise ValueError(w)\n    return c\n"}, "m", "f", has=["if w in k.T"], lacks=["try:"])
case("EAFP kept: the table is not a module-level dict display (an object with __getitem__ may raise KeyError for other reasons, or have __missing__)", {"k": "T = make()\n", "m": "from . import k\ndef f(w):\n    try:\n        c = k.T[w]\n    except KeyError:\n        c = None\n    return c\n"}, "m", "f", has=["try:"])
case("EAFP kept: the key is computed by a call (which may itself raise KeyError)", {"k": "T = {1: b'a'}\n", "m": "from . import k\ndef f(w, g):\n    try:\n        c = k.T[g(w)]\n    except KeyError:\n        c = None\n    return c\n"}, "m", "f", has=["try:"])
case("continue guard in a loop body is a conditional rest", {"m": "def f(xs, g, h):\n    for x in xs:\n        g(x)\n        if x is None:\n            continue\n        h(x)\n"}, "m", "f", has=["if x is not None"], lacks=["continue"])
case("continue guard kept: it sits in a nested block (the statements after that block are skipped too)", {"m": "def f(xs, g, h, l):\n    for x in xs:\n        with l:\n            if x is None:\n                continue\n            g(x)\n        h(x)\n"}, "m", "f", has=["continue"])
case("copy-back with reads before the copy: the helper's local is the caller's variable", {"m": "class A(object):\n    def _h(self, x):\n        a = self.o(x)\n        self.p(a)\n        return a\n    def f(self, x, l):\n        with l:\n            a = self._h(x)\n        self.c(a)\n"}, "m", "f", has=["a = self.o(x)", "self.p(a)"], lacks=["_i1_"])
case("copy-back kept: a handler of an enclosing try reads the caller's variable (it must still hold the old value when the helper fails half-way)", {"m": "class A(object):\n    def _h(self, x):\n        a = self.o(x)\n        self.p(a)\n        return a\n    def f(self, x):\n        a = None\n        try:\n            a = self._h(x)\n        except ValueError:\n            self.c(a)\n        return a\n"}, "m", "f", has=["self.p(_i"])
case("constant index into a call-free display, as the whole right-hand side", {"m": "def f(o, t):\n    o.x = (t,)[0]\n    return o\n"}, "m", "f", has=["o.x = t"])
case("constant index kept: an element is a call (it would no longer be evaluated)", {"m": "def f(o, t, g):\n    o.x = (t, g())[0]\n    return o\n"}, "m", "f", has=["g()"])
case("a helper with a tuple-of-literals default is inlined (the flag is a 1-tuple or empty)", {"m": "class A(object):\n    def _h(self, x, extra=()):\n        if extra:\n            self.t = extra[0]\n        return self.r(x)\n    def f(self, a, b):\n        return self._h(a, (b,))\n    def g(self, a):\n        return self._h(a)\n"}, "m", "f", has=["self.t = b"], lacks=["_h("])
# -- MODTABLE / class flattening / STAR -------------------------------------------------------------------------------------------
case("modtable kept: the loop variable is read afterwards", {"m": "T = {}\nfor k in (1, 2):\n    T[k] = k + 1\nLAST = k\ndef f():\n    return T\n"}, "m", "f", has=["return T"])
case("star expanded through the attribute's class", {"h": "class S(object):\n    def get(self, a, b):\n        return (a, b)\n", "m": "from .h import S\nclass A(object):\n    def __init__(self):\n        self._s = S()\n    def f(self, k):\n        return self._s.get(*k)\n"},
     "m", "f", has=["k[0], k[1]"])
case("star kept: the method has a default (the tuple could be shorter)", {"h": "class S(object):\n    def get(self, a, b=None):\n        return (a, b)\n", "m": "from .h import S\nclass A(object):\n    def __init__(self):\n        self._s = S()\n    def f(self, k):\n        return self._s.get(*k)\n"},
     "m", "f", has=["*k"])
# -- RETSPLIT / YIELDSPLIT ------------------------------------------------------------------------------------------------------
case("return context distributed over a conditional with a literal operand", {"m": "def f(c, a, b):\n    return (a if c else b) & 255\n"}, "m", "f", has=["return a & 255", "return b & 255"])
case("return context kept: the other operand is not a literal", {"m": "def f(c, a, b, g):\n    return (a if c else b) & g()\n"}, "m", "f", has=["& g()"], lacks=["return a & g()"])

# -- SROA (local record objects) --------------------------------------------------------------------------------------------------
_P = "class P(object):\n    def __init__(self, n):\n        self.data = bytearray()\n        self.left = n\n    def add(self, c):\n        self.data += c\n        self.left -= len(c)\n"
case("sroa fires: local record object, methods inlined", {"h": _P, "m": "from .h import P\ndef f(r, n):\n    p = P(n)\n    while p.left > 0:\n        p.add(r(p.left))\n    return bytes(p.data)\n"}, "m", "f",
     has=["_r_p_left"], lacks=["P(n)", "p.add"])
case("sroa kept: the object escapes", {"h": _P, "m": "from .h import P\ndef f(r, n, g):\n    p = P(n)\n    g(p)\n    while p.left > 0:\n        p.data += r(p.left)\n    return bytes(p.data)\n"}, "m", "f",
     has=["P(n)", "p.left"], lacks=["_r_p_left"])
case("sroa kept: the class hooks attribute assignment", {"h": _P + "    def __setattr__(self, k, v):\n        object.__setattr__(self, k, v)\n", "m": "from .h import P\ndef f(r, n):\n    p = P(n)\n    while p.left > 0:\n        p.data += r(p.left)\n    return bytes(p.data)\n"}, "m", "f",
     has=["P(n)", "p.left"], lacks=["_r_p_left"])
case("sroa fires: the class also has a pure read-only property", {"h": _P + "    @property\n    def size(self):\n        return len(self.data)\n", "m": "from .h import P\ndef f(r, n):\n    p = P(n)\n    while p.size < n:\n        p.data += r(n - p.size)\n    return bytes(p.data)\n"}, "m", "f",
     has=["_r_p_data", "len(_r_p_data)"], lacks=["P(n)"])
case("sroa kept: a property with a setter", {"h": _P + "    @property\n    def size(self):\n        return len(self.data)\n    @size.setter\n    def size(self, v):\n        self.left = v\n", "m": "from .h import P\ndef f(r, n):\n    p = P(n)\n    while p.left > 0:\n        p.data += r(p.left)\n    return bytes(p.data)\n"}, "m", "f",
     has=["P(n)", "p.left"], lacks=["_r_p_left"])
case("sroa kept: the local is bound twice", {"h": _P, "m": "from .h import P\ndef f(r, n, q):\n    p = P(n)\n    if q:\n        p = q\n    while p.left > 0:\n        p.data += r(p.left)\n    return bytes(p.data)\n"}, "m", "f",
     has=["P(n)", "p.left"], lacks=["_r_p_left"])
case("sroa kept: the name P is not the record class here", {"h": _P, "m": "from .other import P\ndef f(r, n):\n    p = P(n)\n    while p.left > 0:\n        p.data += r(p.left)\n    return bytes(p.data)\n"}, "m", "f",
     has=["P(n)", "p.left"], lacks=["_r_p_left"])
case("sroa kept: the constructor does more than bind fields", {"h": "class P(object):\n    def __init__(self, n, log):\n        self.data = bytearray()\n        self.left = n\n        log(self)\n", "m": "from .h import P\ndef f(r, n, g):\n    p = P(n, g)\n    while p.left > 0:\n        p.data += r(p.left)\n    return bytes(p.data)\n"}, "m", "f",
     has=["P(n, g)", "p.left"], lacks=["_r_p_left"])

# -- PROP (pure properties) --------------------------------------------------------------------------------------------------------
_I = "class I(object):\n    def __init__(self, a, b):\n        self.a = a\n        self.b = b\n    @property\n    def pair(self):\n        return self.a, self.b\n"
case("prop fires: a pure property read through a parameter, starred into a call", {"h": _I, "m": "def f(i, g):\n    return g(1, *i.pair)\n"}, "m", "f", has=["g(1, i.a, i.b)"], lacks=["pair"])
case("prop kept: the name is also assigned as a plain attribute somewhere", {"h": _I, "m": "def f(i, g):\n    return g(1, *i.pair)\ndef h(o):\n    o.pair = (1, 2)\n"}, "m", "f", has=["i.pair"])
case("prop kept: a second definition of the name exists", {"h": _I + "class J(object):\n    def pair(self):\n        return (0, 0)\n", "m": "def f(i, g):\n    return g(1, *i.pair)\n"}, "m", "f", has=["i.pair"])
case("prop kept: the property calls a method", {"h": _I.replace("return self.a, self.b", "return self.a, self.get()"), "m": "def f(i, g):\n    return g(1, *i.pair)\n"}, "m", "f", has=["i.pair"])
case("prop kept: the receiver is a call (would be evaluated twice)", {"h": _I, "m": "def f(mk, g):\n    return g(1, *mk().pair)\n"}, "m", "f", has=["mk().pair"])

# -- IFFLAG -----------------------------------------------------------------------------------------------------------------------
case("ifflag fires: a literal flag set at the end of both arms, tested straight away", {"m": "def f(c, a, b, x, s):\n    if c:\n        a()\n        v = True\n    else:\n        b()\n        v = False\n    if v and x:\n        return s()\n    return 0\n"}, "m", "f",
     has=["a()\n        if x:"], lacks=["v ="])
case("ifflag kept: the flag is read again later", {"m": "def f(c, a, b, x, s):\n    if c:\n        a()\n        v = True\n    else:\n        b()\n        v = False\n    if v and x:\n        return s()\n    return v\n"}, "m", "f", has=["v = True", "v = False"])
case("ifflag kept: one arm computes the flag", {"m": "def f(c, a, b, x, s):\n    if c:\n        v = a()\n    else:\n        b()\n        v = False\n    if v and x:\n        return s()\n    return 0\n"}, "m", "f", has=["v = a()", "if v and x"])
case("ifflag kept: a statement sits between the arms and the test", {"m": "def f(c, a, b, x, s):\n    if c:\n        a()\n        v = True\n    else:\n        b()\n        v = False\n    x = s()\n    if v and x:\n        return 1\n    return 0\n"}, "m", "f", has=["v = True"])

# -- inlining a helper whose returns sit in a try statement ----------------------------------------------------------------------------
case("try-tail fires: handler returns, statements after the try become its else-block",
     {"m": "class A(object):\n    def _h(self, cb, x):\n        if not cb:\n            return False\n        try:\n            cb(x)\n        except Exception:\n            return False\n        return True\n    def f(self, cb, x):\n        self._h(cb, x)\n        return x\n"},
     "m", "f", has=["try:\n            cb(x)", "except Exception:"], lacks=["_h("])
case("try-tail kept: a handler falls through to the statements after the try",
     {"m": "class A(object):\n    def _h(self, cb, x, g):\n        try:\n            cb(x)\n        except Exception:\n            g()\n        return g()\n    def f(self, cb, x, g):\n        v = self._h(cb, x, g)\n        return v\n"},
     "m", "f", has=["g()"])
case("try-tail kept: finally between the return and the rest",
     {"m": "class A(object):\n    def _h(self, cb, x, g):\n        try:\n            cb(x)\n        except Exception:\n            return 0\n        finally:\n            g()\n        return x\n    def f(self, cb, x, g):\n        self._h(cb, x, g)\n        return g\n"},
     "m", "f", has=["_h("])

case("raise of a conditional expression is split", {"m": "def f(c, A, B):\n    raise A(1) if c else B(2)\n"}, "m", "f", has=["raise A(1)", "raise B(2)"], lacks=[" else "])

case("a non-None package constant compared with None folds", {"constants": "LIST = b'LIST'\n", "m": "from . import constants\ndef f(g):\n    if constants.LIST is not None:\n        g()\n    return 0\n"}, "m", "f", has=["g()"], lacks=["is not None"])
case("a package constant bound to None does not fold", {"constants": "LIST = None\n", "m": "from . import constants\ndef f(g):\n    if constants.LIST is not None:\n        g()\n    return 0\n"}, "m", "f", has=["is not None"])

case("a statement helper called in a while-test is inlined through `while True: if not ..: break`",
     {"m": "class A(object):\n    def _h(self, r, b):\n        c, d = r()\n        if c == 1:\n            return True\n        b.append(d)\n        return False\n    def f(self, r, b, t):\n        while not self._h(r, b):\n            t()\n        return b\n"},
     "m", "f", has=["while True", "b.append("], lacks=["_h("])

# -- static methods called through the class; module-level literals of the helper's module ------------------------------------------------
_S = "WRAP = 2**32\nclass K(object):\n    @staticmethod\n    def nxt(i):\n        j = i + 1\n        if j == WRAP:\n            return 1\n        return j\n"
case("static method through the class name is inlined, carrying its module's literal", {"h": _S, "m": "from .h import K\nclass A(object):\n    def f(self):\n        self.n = K.nxt(self.n)\n        return self.n\n"}, "m", "f",
     has=["4294967296"], lacks=["K.nxt"])
case("static method kept: the module constant is bound twice", {"h": _S + "WRAP = 5\n", "m": "from .h import K\nclass A(object):\n    def f(self):\n        self.n = K.nxt(self.n)\n        return self.n\n"}, "m", "f",
     has=["K.nxt"])
case("static method kept: K is another binding in the calling module", {"h": _S, "m": "from .other import K\nclass A(object):\n    def f(self):\n        self.n = K.nxt(self.n)\n        return self.n\n"}, "m", "f",
     has=["K.nxt"])

# -- module-level helper calls --------------------------------------------------------------------------------------------------------------
_M = "import reg\nclass Acc(object):\n    pass\ndef _register(name, base, h=Acc):\n    reg.M[name] = h\n    reg.A[name] = reg.A[base]\n    return name\n"
case("module-level helper call is inlined, copies forwarded", {"m": _M + "_N = _register('x', 'y')\ndef f():\n    return _N\n"}, "m", "<module>", has=["reg.M['x'] = Acc", "reg.A['x'] = reg.A['y']", "_N = 'x'"], lacks=["_register("])
case("module-level helper call kept: the helper is called from a function too, where its default may differ... (still inlined there, def kept)", {"m": _M + "_N = _register('x', 'y')\ndef f():\n    return _register\n"}, "m", "<module>", has=["def _register(", "reg.M['x'] = Acc"])
case("static-default kept: the default name is rebound in the module", {"m": _M + "Acc = None\n_N = _register('x', 'y')\nclass A(object):\n    def f(self):\n        return _register('p', 'q')\n"}, "m", "f", has=["_register('p', 'q')"])

# -- LISTBUILD ---------------------------------------------------------------------------------------------------------------------------------
case("listbuild fires: display plus appends, then starred into a call", {"m": "def f(g, a, b, c):\n    v = [a]\n    v.append(g(b))\n    v.append(c)\n    return g(*v)\n"}, "m", "f", has=["g(a, "], lacks=["append"])
case("listbuild kept: the list is read between two appends", {"m": "def f(g, a, b, c):\n    v = [a]\n    v.append(g(v))\n    v.append(c)\n    return g(*v)\n"}, "m", "f", has=["append"])
case("listbuild kept: an append under a condition", {"m": "def f(g, a, b, c):\n    v = [a]\n    if b:\n        v.append(b)\n    v.append(c)\n    return g(*v)\n"}, "m", "f", has=["append"])
case("listbuild kept: the list escapes before the last append", {"m": "def f(g, a, b, c):\n    v = [a]\n    g(v)\n    v.append(c)\n    return g(*v)\n"}, "m", "f", has=["append"])

case("lencomp fires: counting a filtered list", {"m": "def f(d):\n    return len([q for r in d.values() for q in r.values() if not q.empty()])\n"}, "m", "f", has=["sum((1 for r in"], lacks=["len("])
case("lencomp kept: the element is a call", {"m": "def f(d, g):\n    return len([g(q) for q in d])\n"}, "m", "f", has=["len("])

# -- IFFLAG on a value-or-None result (sa/nullness.py) --------------------------------------------------------------------------------------------
_VN = "class A(object):\n    def _src(self, r):\n        c, d = r()\n        return c, bytes(d)\n    def _h(self, r, s):\n        c, d = self._src(r)\n        if c == 1:\n            s(c)\n            return None\n        return d\n"
case("value-or-None helper: `is None` decided in each arm (the value is never None)", {"m": _VN + "    def f(self, r, s):\n        while True:\n            x = self._h(r, s)\n            if x is None:\n                return\n            yield x\n"},
     "m", "f", has=["s(_i", "yield _i"], lacks=["is None"])
case("value-or-None helper kept: the value may itself be None", {"m": _VN.replace("return c, bytes(d)", "return c, d") + "    def f(self, r, s):\n        while True:\n            x = self._h(r, s)\n            if x is None:\n                return\n            yield x\n"},
     "m", "f", has=["is None"])
case("value-or-None helper kept: the caller tests truthiness (an empty value is not None)", {"m": _VN + "    def f(self, r, s):\n        while True:\n            x = self._h(r, s)\n            if not x:\n                return\n            yield x\n"},
     "m", "f", has=["if not "])

case("a literal store right before `return` is dropped", {"m": "def f(g, x):\n    v = g()\n    if x:\n        v = None\n        return 0\n    return v\n"}, "m", "f", lacks=["v = None"])
case("literal store before return kept: a finally block reads it", {"m": "def f(g, x, h):\n    v = g()\n    try:\n        if x:\n            v = None\n            return 0\n        return 1\n    finally:\n        h(v)\n"}, "m", "f", has=["v = None"])
case("priming call with a literal where the loop passes the variable", {"m": "class A(object):\n    def f(self, d):\n        i = self.w(d, 0)\n        while i is not None:\n            self.t()\n            i = self.w(d, i)\n"}, "m", "f", has=["i = 0", "while True"])
case("priming call kept: two arguments differ", {"m": "class A(object):\n    def f(self, d):\n        i = self.w(1, 0)\n        while i is not None:\n            self.t()\n            i = self.w(d, i)\n"}, "m", "f", has=["self.w(1, 0)"])

# -- COPYINOUT ----------------------------------------------------------------------------------------------------------------------------------
_CIO = "class A(object):\n    def _w(self, d, i):\n        i += self.t(d[i:])\n        return i if i < len(d) else None\n"
case("copy-in / copy-out of an updated helper parameter works on the variable itself", {"m": _CIO + "    def f(self, d):\n        i = 0\n        while True:\n            i = self._w(d, i)\n            if i is None:\n                return\n            self.c(i)\n"},
     "m", "f", has=["i += self.t(d[i:])"], lacks=["_i1_i", "is None"])
case("copy-in / copy-out kept: the function has a try statement", {"m": _CIO + "    def f(self, d):\n        i = 0\n        while True:\n            try:\n                i = self._w(d, i)\n            except ValueError:\n                self.c(i)\n            if i is None:\n                return\n"},
     "m", "f", has=["_i1_i"])

case("a literal store overwritten before any read is dropped", {"m": "def f(g):\n    v = None\n    g()\n    a, v = g()\n    return v\n"}, "m", "f", lacks=["v = None"])
case("overwritten store kept: a statement in between reads it", {"m": "def f(g):\n    v = None\n    g(v)\n    a, v = g()\n    return v\n"}, "m", "f", has=["g(None)"])
case("overwritten store kept: the overwrite is conditional", {"m": "def f(g, c):\n    v = None\n    if c:\n        v = g()\n    return v\n"}, "m", "f", has=["None"])
case("for-else value-or-None: the test after the loop moves into the else-block", {"m": "class A(object):\n    def _s(self, ks, r):\n        for k in ks:\n            c, m = r(k)\n            if c == 1:\n                return bytes(m)\n        return None\n    def f(self, ks, r, o):\n        m = self._s(ks, r)\n        if m is None:\n            m = o()\n        return (True, m)\n"},
     "m", "f", has=["for ", "o()"], lacks=["is None"])

case("tail web: an assignment whose readers are the leaving statements right after it gets its own name", {"m": "def f(g, c):\n    a, v = g()\n    if c:\n        v = a\n        return (True, v)\n    return (False, v)\n"}, "m", "f", has=["return (True, a)"])
case("tail web kept: the value is captured by a closure", {"m": "def f(g, c):\n    a, v = g()\n    if c:\n        v = a\n        return (lambda: v)\n    return (False, v)\n"}, "m", "f", has=["v = a"])

# -- COPYIN --------------------------------------------------------------------------------------------------------------------------------------
_CI = "class A(object):\n    def _h(self, ks, a, r):\n        for k in ks:\n            if a != 1:\n                raise ValueError(a)\n            c, a = r(k)\n            if c == 2:\n                return a\n        return None\n"
case("copy-in: the helper's updated parameter works on the caller's variable, which is dead after the call", {"m": _CI + "    def f(self, ks, r):\n        c, a = r(0)\n        m = self._h(ks, a, r)\n        return (True, m)\n"},
     "m", "f", has=["if a != 1"], lacks=["_i1_a"])
case("copy-in kept: the caller reads its variable after the call", {"m": _CI + "    def f(self, ks, r):\n        c, a = r(0)\n        m = self._h(ks, a, r)\n        return (a, m)\n"},
     "m", "f", has=["_i1_a"])
case("copy-in kept: the call sits in a loop that reads the variable", {"m": _CI + "    def f(self, ks, r, g):\n        c, a = r(0)\n        while g(a):\n            m = self._h(ks, a, r)\n        return (True, m)\n"},
     "m", "f", has=["_i1_a"])

# -- FLAGEQ / COPYPROP ------------------------------------------------------------------------------------------------------------------------------
case("flageq: `v is None` is the condition under which v was set to None", {"m": "def f(h, r, k):\n    c = h[0]\n    if c == 7:\n        i = h[1:]\n        d = None\n    else:\n        i = h[1:-1]\n        d = bytes(r())\n    if k(c):\n        if d is None:\n            return (c, i, None)\n        return (c, i, d)\n    raise ValueError(d)\n"},
     "m", "f", has=["if c == 7:\n            return"], lacks=["is None"])
case("flageq kept: the other value may be None", {"m": "def f(h, r, k):\n    c = h[0]\n    if c == 7:\n        d = None\n    else:\n        d = r()\n    if k(c):\n        if d is None:\n            return (c, None)\n        return (c, d)\n    raise ValueError(d)\n"},
     "m", "f", has=["is None"])
case("flageq kept: the condition's variable is re-bound later", {"m": "def f(h, r, k):\n    c = h[0]\n    if c == 7:\n        d = None\n    else:\n        d = bytes(r())\n    c = k(c)\n    if d is None:\n        return (c, None)\n    return (c, d)\n"},
     "m", "f", has=["is None"])

# -- records held in a constructor-bound attribute ------------------------------------------------------------------------------------------------
_CT = "class Ctr(object):\n    def __init__(self):\n        self.value = 0\n    def advance(self):\n        self.value += 1\n        if self.value == 8:\n            self.value = 1\n"
_DV = "from .h import Ctr\nclass D(object):\n    def __init__(self):\n        self._ids = Ctr()\n    @property\n    def _id(self):\n        return self._ids.value\n    @_id.setter\n    def _id(self, v):\n        self._ids.value = v\n    def f(self, g):\n        self._ids.advance()\n        return g(self._id)\n"
case("attribute record flattened; the alias property becomes the attribute", {"h": _CT, "m": _DV}, "m", "f", has=["self._id += 1", "g(self._id)"], lacks=["_ids"])
case("attribute record kept: the record object is handed to somebody", {"h": _CT, "m": _DV + "    def k(self, g):\n        return g(self._ids)\n"}, "m", "f", has=["self._ids.value"])
case("attribute record kept: another class reaches into it", {"h": _CT, "m": _DV + "class E(object):\n    def k(self, d):\n        return d._ids.value\n"}, "m", "f", has=["self._ids.value"])
case("attribute record kept: re-bound outside the constructor", {"h": _CT, "m": _DV + "    def k(self):\n        self._ids = Ctr()\n"}, "m", "f", has=["self._ids"])

case("constructor: independent attribute initialisations are put in one order", {"m": "from threading import Lock\nclass A(object):\n    def __init__(self, t):\n        self._z = Lock()\n        self._a = 0\n        self._t = t\n"}, "m", "__init__", has=["self._a = 0\n    self._t = t\n    self._z = Lock()"])
case("constructor order kept: a value reads another attribute", {"m": "class A(object):\n    def __init__(self, t):\n        self._z = t\n        self._a = self._z\n"}, "m", "__init__", has=["self._z = t\n    self._a = self._z"])
case("constructor order kept: a value is computed by an arbitrary call", {"m": "class A(object):\n    def __init__(self, t, g):\n        self._z = g()\n        self._a = g()\n"}, "m", "__init__", has=["self._z = g()\n    self._a = g()"])

# -- module-level constant displays --------------------------------------------------------------------------------------------------------------------
_MC = "from . import constants\n_T = {constants.A: [constants.B], constants.C: [constants.B, constants.C]}\nclass D(object):\n    def _w(self, cmds, x):\n        while True:\n            c = x()\n            if c in cmds:\n                return c\n"
_KC = "A = b'A'\nB = b'B'\nC = b'C'\n"
case("module constant display written out where it is only read", {"constants": _KC, "m": _MC + "    def f(self, x):\n        return self._w(_T[constants.C], x)\n"}, "m", "f", has=["[constants.B, constants.C]"], lacks=["_T"])
case("module constant display kept: the callee changes its parameter in place", {"constants": _KC, "m": _MC.replace("            if c in cmds:", "            cmds.append(c)\n            if c in cmds:") + "    def f(self, x):\n        return self._w(_T[constants.C], x)\n"},
     "m", "f", has=["_T[constants.C]"])
case("module constant display kept: the table is updated somewhere", {"constants": _KC, "m": _MC + "    def f(self, x):\n        return self._w(_T[constants.C], x)\n    def g(self):\n        _T[constants.A] = []\n"}, "m", "f", has=["_T[constants.C]"])
case("module constant display kept: the value is returned (it escapes)", {"constants": _KC, "m": _MC + "    def f(self, x):\n        return _T[constants.C]\n"}, "m", "f", has=["_T[constants.C]"])

case("a reversed display of plain names is the display written the other way round", {"m": "def f(g, a, b):\n    return g(1, *(a, b)[::-1])\n"}, "m", "f", has=["g(1, b, a)"])
case("reversed display kept: an element is a call", {"m": "def f(g, a, b):\n    return g(1, *(a(), b)[::-1])\n"}, "m", "f", has=["[::-1]"])

case("module-level numbers computed from literals are the numbers; literal tests of conditional expressions pick their arm", {"m": "Z0 = 1\nZ1 = 2\nZS = (0, Z1, Z0, Z0 | Z1)\nclass S(object):\n    def f(self, a, b):\n        for z in ZS:\n            r = self.g(0 if z & Z0 else a, 0 if z & Z1 else b)\n            if r:\n                return r\n        return None\n"},
     "m", "f", has=["self.g(a, b)", "self.g(a, 0)", "self.g(0, b)", "self.g(0, 0)"], lacks=["ZS", " if "+"z"])
case("module-level number kept as a name: it is re-bound in a function", {"m": "Z0 = 1\ndef h():\n    global Z0\n    Z0 = 5\ndef f(a):\n    return a & Z0\n"}, "m", "f", has=["a & Z0"])

case("getattr / setattr with a literal name are attribute access", {"m": "def f(o, v):\n    setattr(o, 'a', getattr(o, 'b') + v)\n    return o\n"}, "m", "f", has=["o.a = o.b + v"])
case("getattr with a default is kept", {"m": "def f(o, v):\n    return getattr(o, 'b', v)\n"}, "m", "f", has=["getattr("])

case("copy back: temporaries bound by an unpacking and copied into variables are those variables",
     {"h": "class K(object):\n    def __init__(self, a, b):\n        self.a = a\n        self.b = b\n",
      "m": "from .h import K\nclass A(object):\n    def _h(self, r):\n        x = r()\n        for i in range(3):\n            x = r(x)\n        return (x, i)\n    def f(self, r, g):\n        p = K(*self._h(r))\n        g(p.a == 3)\n        return p.b\n"},
     "m", "f", lacks=["_st1", "K("])

case("derived flag: always recomputed after its operand is bound, so its reads are the expression", {"m": "def f(r, g):\n    c, a = r()\n    t = a == 7\n    while g(c):\n        if not t:\n            raise ValueError(a)\n        c, a = r()\n        t = a == 7\n    return c\n"},
     "m", "f", has=["a != 7"], lacks=["t ="])
case("derived flag kept: one binding of the operand is not followed by the recomputation", {"m": "def f(r, g):\n    c, a = r()\n    t = a == 7\n    while g(c):\n        if not t:\n            raise ValueError(a)\n        c, a = r()\n    return c\n"},
     "m", "f", has=["t = a == 7"])

case("a counter written `i = i + w(..)` is `i += w(..)`; a copy read only by the next right-hand side is the variable", {"m": "class A(object):\n    def _w(self, d, i):\n        return i + self.t(d[i:])\n    def f(self, d):\n        i = 0\n        while i < len(d):\n            i = self._w(d, i)\n        return i\n"},
     "m", "f", has=["i += self.t(d[i:])"], lacks=["_i1_i"])
case("augmented form kept: the variable may hold a list", {"m": "def f(d, g):\n    i = g()\n    i = i + d\n    return i\n"}, "m", "f", has=["i = i + d"])

case("return context of a builtin call is copied onto both arms of a conditional argument", {"m": "def f(d, c, g):\n    return sum(g if c else d) & 255\n"}, "m", "f", has=["return sum(g) & 255", "return sum(d) & 255"])
case("return context kept: the call is not a builtin", {"m": "def f(d, c, g, h):\n    return h(g if c else d) & 255\n"}, "m", "f", has=[" if c else "])

case("a None test on a value that was just bound to something never None is decided", {"m": "class A(object):\n    def _r(self, x):\n        c = x()\n        if not c:\n            raise ValueError(c)\n        return c, bytes(x())\n    def f(self, x, b):\n        c, d = self._r(x)\n        if c == None:\n            return b\n        b += d\n        return b\n"},
     "m", "f", lacks=["None"])
case("None test kept: the value may be None", {"m": "class A(object):\n    def _r(self, x):\n        c = x()\n        return c, bytes(x())\n    def f(self, x, b):\n        c, d = self._r(x)\n        if c == None:\n            return b\n        b += d\n        return b\n"},
     "m", "f", has=["None"])

case("`len(x) == 0` in a test is `not x`", {"m": "def f(d, k):\n    del d[k]\n    if len(d) == 0:\n        return 1\n    return 0\n"}, "m", "f", has=["if d:"], lacks=["len("])
case("len comparison kept outside a test / with another bound", {"m": "def f(d, k):\n    if len(d) == 2:\n        return 1\n    return len(d) == 0\n"}, "m", "f", has=["len(d) == 2", "return len(d) == 0"])

case("the last element of a list built by appends is the last value assigned", {"m": "def f(es, m):\n    ins = []\n    for e in es:\n        a = e.addr()\n        if a & m:\n            ins.append(a)\n    r = ins[-1] if ins else None\n    return r\n"},
     "m", "f", has=["r = None", "r = a"], lacks=["ins"])
case("last-of kept: the list is read elsewhere too", {"m": "def f(es, m, g):\n    ins = []\n    for e in es:\n        ins.append(e)\n    r = ins[-1] if ins else None\n    return g(r, ins)\n"},
     "m", "f", has=["ins"])

case("None test kept: a later iteration of the enclosing loop arrives with another binding", {"m": "class A(object):\n    def _r(self, x):\n        c = x()\n        if not c:\n            raise ValueError(c)\n        return c, bytes(x())\n    def f(self, x, g):\n        c, d = self._r(x)\n        while True:\n            if c is None:\n                return d\n            c = g(d)\n"},
     "m", "f", has=["is not None"])

case("copy-in kept: the helper is called in a loop and re-binds its parameter; the caller's variable must stay what it was (seed C05-p)",
     {"m": "class A(object):\n    def _h(self, k, a, r):\n        if a != 1:\n            raise ValueError(a)\n        c, a = r(k)\n        return c\n    def f(self, ks, r):\n        c, a = r(0)\n        for k in ks:\n            c = self._h(k, a, r)\n            if c == 2:\n                return True\n        return False\n"},
     "m", "f", has=["_i1_a"])


def main():
    bad = 0
    for name, mods, modname, func, has, lacks in CASES:
        try:
            txt = canonical(mods, modname, func)
        except Exception as e:   # noqa
            print("ERROR  %s: %s: %s" % (name, type(e).__name__, e))
            bad += 1
            continue
        miss = [h for h in has if h not in txt]
        extra = [l for l in lacks if l in txt]
        if miss or extra:
            bad += 1
            print("FAIL   %s\n       missing %s / unexpected %s\n%s" % (name, miss, extra, "\n".join("       | " + l for l in txt.splitlines())))
        else:
            print("ok     %s" % name)
    print("%d cases, %d failed" % (len(CASES), bad))
    return 1 if bad else 0


if __name__ == "__main__":
    sys.exit(main())
