"""Role-based anchors: locate the functions each rule talks about by what they do, then by name."""
import ast

from .loader import AnalysisError, walk_own
from .util import call_attr, own_calls

TRANSPORT_IO_ATTRS = ("bulk_read", "bulk_write")


class Roles(object):
    """Anchors of one device module (sync or async)."""

    def __init__(self, ctx, tag, mod):
        self.ctx = ctx
        self.tag = tag
        self.mod = mod
        pkg = ctx.pkg
        # I/O manager: the class whose __init__ creates the packet store
        self.io_cls = None
        self.dev_cls = None
        for c in mod.classes.values():
            init = c.methods.get("__init__")
            if init is None:
                continue
            for call in own_calls(init):
                if isinstance(call.func, ast.Name) and call.func.id == "_AdbPacketStore":
                    self.io_cls = c
        if self.io_cls is None:
            raise AnalysisError("ROLE", "%s: no class creates the packet store (I/O manager not found)" % mod.name)
        for c in mod.classes.values():
            init = c.methods.get("__init__")
            if init is None:
                continue
            for call in own_calls(init):
                if isinstance(call.func, ast.Name) and call.func.id == self.io_cls.name:
                    self.dev_cls = c
        if self.dev_cls is None:
            raise AnalysisError("ROLE", "%s: no class creates the I/O manager (device class not found)" % mod.name)
        io = self.io_cls
        self.read_exact = self._one([f for f in io.methods.values() if self._calls_attr(f, "bulk_read")], "function calling bulk_read", "_read_bytes_from_device")
        self.write_funcs = [f for f in mod.all_funcs if self._calls_attr(f, "bulk_write")]
        self.packet_reader = self._one([f for f in io.methods.values() if self._calls_name(f, "unpack")], "packet reader (calls unpack)", "_read_packet_from_device")
        pumps = [f for f in io.methods.values() if self._calls(f, self.packet_reader) and self._calls_attr(f, "put")]
        self.pump = self._one(pumps, "packet pump (reads packets and parks foreign ones)", "read")
        crs = [f for f in io.methods.values() if self._calls(f, self.packet_reader) and f is not self.pump]
        self.connect_reader = self._one(crs, "connect-time expected-packet reader", "_read_expected_packet_from_device")
        sp = [f for f in io.methods.values() if self._calls_attr(f, "pack")]
        self.send_primitive = self._one(sp, "send primitive (calls msg.pack)", "_send")
        sl = [f for f in io.methods.values() if self._calls(f, self.send_primitive) and f.name != "connect" and f is not self.send_primitive]
        self.send_locked = self._one(sl, "locked send wrapper", "send")
        self.io_connect = self._named(io, "connect")
        self.io_close = self._named(io, "close")
        dev = self.dev_cls
        self.dev = {}
        # the acknowledgement helper is optional: without it _read_until builds the OKAY itself (checked by the ACK rules of C04)
        self.dev["_okay"] = dev.methods.get("_okay")
        for name in ("connect", "close", "_open", "_clse", "_read_until", "_read_until_close", "_streaming_command",
                     "_service", "_streaming_service", "_filesync_flush", "_filesync_read", "_filesync_read_buffered",
                     "_filesync_read_until", "_filesync_send", "_push", "_pull", "push", "pull", "list", "stat",
                     "shell", "exec_out", "root", "reboot", "streaming_shell", "_get_transport_timeout_s", "__init__"):
            self.dev[name] = self._named(dev, name)

    def _named(self, cls, name):
        f = cls.methods.get(name)
        if f is None:
            raise AnalysisError("ROLE", "anchor %s.%s not found" % (cls.qualname, name))
        return f

    def _one(self, cands, what, prefer=None):
        if len(cands) > 1 and prefer is not None:
            named = [c for c in cands if c.name == prefer]
            if len(named) == 1:
                return named[0]      # extra candidates are reported by the who-may-call rules, not here
        if len(cands) != 1:
            raise AnalysisError("ROLE", "%s: expected exactly one %s, found %d (%s)" % (self.mod.name, what, len(cands), ", ".join(c.qualname for c in cands)))
        return cands[0]

    @staticmethod
    def _calls_attr(f, attr):
        return any(isinstance(c.func, ast.Attribute) and c.func.attr == attr for c in own_calls(f))

    @staticmethod
    def _calls_name(f, name):
        return any(isinstance(c.func, ast.Name) and c.func.id == name for c in own_calls(f))

    def _calls(self, f, g):
        return any(g in cs.callees for cs in self.ctx.cg.sites.get(f, []))

    def public_ops(self):
        """Public methods of the device class other than connect/close and properties."""
        out = []
        for name, f in sorted(self.dev_cls.methods.items()):
            if name.startswith("_") or name in ("connect", "close") or f.is_property:
                continue
            out.append(f)
        return out


def all_roles(ctx):
    cache = getattr(ctx, "_roles", None)
    if cache is None:
        cache = [Roles(ctx, tag, mod) for tag, mod in ctx.pkg.device_files()]
        ctx._roles = cache
    return cache


def reaches_io(ctx):
    """Set of package functions from which a transport call is reachable (bulk_read/bulk_write/connect/close on a transport)."""
    cache = getattr(ctx, "_reaches_io", None)
    if cache is not None:
        return cache
    cg = ctx.cg
    direct = set()
    transport_classes = set(q for q, c in ctx.pkg.classes.items() if q.startswith("transport."))
    for f, sites in cg.sites.items():
        if f.mod.name.startswith("transport."):
            continue
        for cs in sites:
            if cs.attr in TRANSPORT_IO_ATTRS or (cs.recv_types & transport_classes):
                direct.add(f)
    out = set(direct)
    changed = True
    while changed:
        changed = False
        for f, sites in cg.sites.items():
            if f in out:
                continue
            for cs in sites:
                if any(c in out for c in cs.callees):
                    out.add(f)
                    changed = True
                    break
    ctx._reaches_io = out
    return out
