"""First-order syntactic mutants (comparison/boolean operators, small constants, adjacent-argument swaps, statement deletions,
break/continue, command-constant swaps).  Used by tools/mutation_sweep.py (development aid) and by the thorough tier, which samples
mutants of the files a property is anchored in and records how many its check reports.  Survivors are *not* verdicts: many first-order
mutants are equivalent or touch nothing the property speaks about (messages, logging, API defaults)."""
import ast
import copy
import json
import multiprocessing
import os
import random
import shutil
import tempfile

CMP = {ast.Eq: [ast.NotEq], ast.NotEq: [ast.Eq], ast.Lt: [ast.LtE, ast.Gt], ast.LtE: [ast.Lt], ast.Gt: [ast.GtE, ast.Lt], ast.GtE: [ast.Gt],
       ast.In: [ast.NotIn], ast.NotIn: [ast.In], ast.Is: [ast.IsNot], ast.IsNot: [ast.Is]}
CMDS = ["AUTH", "CLSE", "CNXN", "OKAY", "OPEN", "WRTE", "DATA", "DENT", "DONE", "FAIL", "LIST", "RECV", "SEND", "STAT"]


def mutants_of(tree):
    """Yield (description, lineno, mutated_tree)."""
    nodes = list(ast.walk(tree))
    # parent map for statement deletion
    for idx, n in enumerate(nodes):
        if isinstance(n, ast.Compare) and len(n.ops) == 1:
            for new in CMP.get(type(n.ops[0]), []):
                yield ("cmp %s->%s" % (type(n.ops[0]).__name__, new.__name__), n.lineno, ("cmp", idx, new))
        if isinstance(n, ast.BoolOp):
            yield ("boolop swap", n.lineno, ("boolop", idx))
        if isinstance(n, ast.UnaryOp) and isinstance(n.op, ast.Not):
            yield ("drop not", n.lineno, ("dropnot", idx))
        if isinstance(n, ast.Constant) and isinstance(n.value, int) and not isinstance(n.value, bool) and hasattr(n, "lineno"):
            for d in (1, -1):
                yield ("const %d->%d" % (n.value, n.value + d), n.lineno, ("const", idx, n.value + d))
        if isinstance(n, ast.Constant) and isinstance(n.value, bool) and hasattr(n, "lineno"):
            yield ("bool flip", n.lineno, ("const", idx, not n.value))
        if isinstance(n, ast.Call) and len(n.args) >= 2 and not any(isinstance(a, ast.Starred) for a in n.args):
            for i in range(len(n.args) - 1):
                yield ("swap args %d,%d of %s" % (i, i + 1, ast.unparse(n.func)[:30]), n.lineno, ("swap", idx, i))
        if isinstance(n, ast.Attribute) and isinstance(n.value, ast.Name) and n.value.id == "constants" and n.attr in CMDS:
            for other in CMDS:
                if other != n.attr and abs(CMDS.index(other) - CMDS.index(n.attr)) <= 2:
                    yield ("constants.%s->%s" % (n.attr, other), n.lineno, ("attr", idx, other))
        if isinstance(n, ast.Break):
            yield ("break->continue", n.lineno, ("replace_stmt", idx, "continue"))
        if isinstance(n, ast.Continue):
            yield ("continue->break", n.lineno, ("replace_stmt", idx, "break"))
        if isinstance(n, (ast.BinOp,)) and isinstance(n.op, (ast.Add, ast.Sub)):
            yield ("binop +/-", n.lineno, ("binop", idx))
        if isinstance(n, (ast.FunctionDef, ast.AsyncFunctionDef, ast.If, ast.While, ast.For, ast.AsyncFor, ast.With, ast.AsyncWith, ast.Try)):
            for field in ("body", "orelse", "finalbody"):
                body = getattr(n, field, None)
                if not isinstance(body, list):
                    continue
                for j, st in enumerate(body):
                    if isinstance(st, (ast.Expr, ast.Assign, ast.AugAssign)) and not (isinstance(st, ast.Expr) and isinstance(st.value, ast.Constant)):
                        if len(body) > 1 or True:
                            yield ("delete `%s`" % ast.unparse(st)[:50].replace("\n", " "), st.lineno, ("delete", idx, field, j))


def apply(tree, op):
    t = copy.deepcopy(tree)
    nodes = list(ast.walk(t))
    kind = op[0]
    n = nodes[op[1]]
    if kind == "cmp":
        n.ops = [op[2]()]
    elif kind == "boolop":
        n.op = ast.Or() if isinstance(n.op, ast.And) else ast.And()
    elif kind == "dropnot":
        # replace `not x` by `x`: mutate in place into a no-op unary via double negation removal
        n.op = ast.UAdd() if False else n.op
        parent_replace(t, n, n.operand)
    elif kind == "const":
        n.value = op[2]
    elif kind == "swap":
        i = op[2]
        n.args[i], n.args[i + 1] = n.args[i + 1], n.args[i]
    elif kind == "attr":
        n.attr = op[2]
    elif kind == "replace_stmt":
        parent_replace(t, n, ast.Continue() if op[2] == "continue" else ast.Break())
    elif kind == "binop":
        n.op = ast.Sub() if isinstance(n.op, ast.Add) else ast.Add()
    elif kind == "delete":
        body = getattr(n, op[2])
        body[op[3]] = ast.Pass()
    ast.fix_missing_locations(t)
    return t


def parent_replace(tree, old, new):
    for p in ast.walk(tree):
        for field, val in ast.iter_fields(p):
            if val is old:
                setattr(p, field, new)
                return
            if isinstance(val, list):
                for i, x in enumerate(val):
                    if x is old:
                        val[i] = new
                        return




def file_mutants(root, rel):
    """[(description, lineno, mutated source text)] for one file of <root>/adb_shell."""
    src_ = open(os.path.join(root, "adb_shell", rel)).read()
    tree = ast.parse(src_)
    out = []
    for desc, lineno, op in mutants_of(tree):
        try:
            txt = ast.unparse(apply(tree, op))
            ast.parse(txt)
        except Exception:   # noqa
            continue
        out.append((desc, lineno, txt))
    return out


def _one(args):
    pid, root, rel, desc, lineno, op = args
    d = tempfile.mkdtemp(prefix="sa-sample-")
    try:
        shutil.copytree(os.path.join(root, "adb_shell"), os.path.join(d, "adb_shell"), ignore=shutil.ignore_patterns("__pycache__"))
        p = os.path.join(d, "adb_shell", rel)
        tree = ast.parse(open(p).read())
        try:
            txt = ast.unparse(apply(tree, op))
            ast.parse(txt)
        except Exception:   # noqa
            return rel, desc, lineno, -1
        with open(p, "w") as f:
            f.write(txt)
        os.environ["SA_EVIDENCE_DIR"] = os.path.join(d, "ev")
        from . import report
        report.EVIDENCE_DIR = os.environ["SA_EVIDENCE_DIR"]
        from .cli import run_property
        import io
        import contextlib
        buf = io.StringIO()
        with contextlib.redirect_stdout(buf):
            code, R, new, known = run_property(pid, "quick", 0, d, quiet=True)
        return rel, desc, lineno, code
    finally:
        shutil.rmtree(d, ignore_errors=True)


def sample_for_property(pid, seed=0, n=96, root=None, jobs=16):
    """Sample n first-order mutants of the files the property is anchored in; run the property's own check on each."""
    from .engine import repo_root
    root = root or repo_root()
    here = os.path.dirname(os.path.dirname(os.path.abspath(__file__)))
    files = []
    for line in open(os.path.join(here, "properties.jsonl")):
        p = json.loads(line)
        if p["id"] == pid:
            files = [f.replace("adb_shell/", "", 1) for f in p["anchors"]["files"] if f.startswith("adb_shell/")]
    # the async twins mirror the sync files; sample the sync side and the shared helpers
    files = [f for f in files if os.path.exists(os.path.join(root, "adb_shell", f)) and not f.endswith("adb_device_async.py")]
    # restrict to the functions this property's rules actually examine (taken from the obligations of a run on the unchanged tree)
    from .cli import run_property
    from .engine import Ctx
    import io
    import contextlib
    ctx = Ctx(root)
    with contextlib.redirect_stdout(io.StringIO()):
        from . import report
        saved = report.EVIDENCE_DIR
        report.EVIDENCE_DIR = tempfile.mkdtemp(prefix="sa-sample-ev-")
        try:
            code, R, new, known = run_property(pid, "quick", 0, root, quiet=True, ctx=ctx)
        finally:
            shutil.rmtree(report.EVIDENCE_DIR, ignore_errors=True)
            report.EVIDENCE_DIR = saved
    ranges = {}
    if R is not None:
        for o in R.obligations:
            for q, f in ctx.pkg.funcs.items():
                if q in o.subject:
                    ranges.setdefault(f.mod.relpath.replace("adb_shell/", "", 1), set()).add((f.node.lineno, f.node.end_lineno))
    work = []
    for rel in files:
        rs = ranges.get(rel)
        tree = ast.parse(open(os.path.join(root, "adb_shell", rel)).read())
        for desc, lineno, op in mutants_of(tree):
            if rs is None or any(a <= lineno <= b for a, b in rs) or rel == "constants.py":
                work.append((pid, root, rel, desc, lineno, op))
    total = len(work)
    random.Random(seed).shuffle(work)
    work = work[:n]
    res = []
    if work:
        with multiprocessing.Pool(min(jobs, len(work))) as pool:
            res = list(pool.imap_unordered(_one, work))
    res = [r for r in res if r[3] != -1]
    reported = [r for r in res if r[3] == 1]
    errors = [r for r in res if r[3] == 2]
    silent = [r for r in res if r[3] == 0]
    return {"files": files, "mutants_available": total, "sampled": len(res), "reported": len(reported), "analysis_error": len(errors), "not_reported": len(silent),
            "not_reported_examples": ["%s:%d %s" % (r[0], r[2], r[1]) for r in sorted(silent)[:25]],
            "note": "first-order syntactic mutants of the anchored files; a mutant that is not reported is often equivalent or outside what the property speaks about - this is a coverage indicator, not a verdict"}
