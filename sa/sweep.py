"""First-order syntactic mutants (comparison/boolean operators, small constants, adjacent-argument swaps, statement deletions,
break/continue, command-constant swaps).  Used by tools/mutation_sweep.py (development aid) and by the thorough tier, which samples
mutants of the files a property is anchored in and records how many its check reports.  Survivors are *not* verdicts: many first-order
mutants are equivalent or touch nothing the property speaks about (messages, logging, API defaults)."""
import ast
import copy
import json
import multiprocessing
import os
import random
import shutil
import tempfile

CMP = {ast.Eq: [ast.NotEq], ast.NotEq: [ast.Eq], ast.Lt: [ast.LtE, ast.Gt], ast.LtE: [ast.Lt], ast.Gt: [ast.GtE, ast.Lt], ast.GtE: [ast.Gt],
       ast.In: [ast.NotIn], ast.NotIn: [ast.In], ast.Is: [ast.IsNot], ast.IsNot: [ast.Is]}
CMDS = ["AUTH", "CLSE", "CNXN", "OKAY", "OPEN", "WRTE", "DATA", "DENT", "DONE", "FAIL", "LIST", "RECV", "SEND", "STAT"]


def mutants_of(tree):
    """Yield (description, lineno, mutated_tree)."""
    nodes = list(ast.walk(tree))
    # parent map for statement deletion
    for idx, n in enumerate(nodes):
        if isinstance(n, ast.Compare) and len(n.ops) == 1:
            for new in CMP.get(type(n.ops[0]), []):
                yield ("cmp %s->%s" % (type(n.ops[0]).__name__, new.__name__), n.lineno, ("cmp", idx, new))
        if isinstance(n, ast.BoolOp):
            yield ("boolop swap", n.lineno, ("boolop", idx))
        if isinstance(n, ast.UnaryOp) and isinstance(n.op, ast.Not):
            yield ("drop not", n.lineno, ("dropnot", idx))
        if isinstance(n, ast.Constant) and isinstance(n.value, int) and not isinstance(n.value, bool) and hasattr(n, "lineno"):
            for d in (1, -1):
                yield ("const %d->%d" % (n.value, n.value + d), n.lineno, ("const", idx, n.value + d))
        if isinstance(n, ast.Constant) and isinstance(n.value, bool) and hasattr(n, "lineno"):
            yield ("bool flip", n.lineno, ("const", idx, not n.value))
        if isinstance(n, ast.Call) and len(n.args) >= 2 and not any(isinstance(a, ast.Starred) for a in n.args):
            for i in range(len(n.args) - 1):
                yield ("swap args %d,%d of %s" % (i, i + 1, ast.unparse(n.func)[:30]), n.lineno, ("swap", idx, i))
        if isinstance(n, ast.Attribute) and isinstance(n.value, ast.Name) and n.value.id == "constants" and n.attr in CMDS:
            for other in CMDS:
                if other != n.attr and abs(CMDS.index(other) - CMDS.index(n.attr)) <= 2:
                    yield ("constants.%s->%s" % (n.attr, other), n.lineno, ("attr", idx, other))
        if isinstance(n, ast.Break):
            yield ("break->continue", n.lineno, ("replace_stmt", idx, "continue"))
        if isinstance(n, ast.Continue):
            yield ("continue->break", n.lineno, ("replace_stmt", idx, "break"))
        if isinstance(n, (ast.BinOp,)) and isinstance(n.op, (ast.Add, ast.Sub)):
            yield ("binop +/-", n.lineno, ("binop", idx))
        if isinstance(n, (ast.FunctionDef, ast.AsyncFunctionDef, ast.If, ast.While, ast.For, ast.AsyncFor, ast.With, ast.AsyncWith, ast.Try)):
            for field in ("body", "orelse", "finalbody"):
                body = getattr(n, field, None)
                if not isinstance(body, list):
                    continue
                for j, st in enumerate(body):
                    if isinstance(st, (ast.Expr, ast.Assign, ast.AugAssign)) and not (isinstance(st, ast.Expr) and isinstance(st.value, ast.Constant)):
                        if len(body) > 1 or True:
                            yield ("delete `%s`" % ast.unparse(st)[:50].replace("\n", " "), st.lineno, ("delete", idx, field, j))


SIBLINGS = [("local_id", "remote_id"), ("transport_timeout_s", "read_timeout_s"), ("_reader", "_writer"), ("send_buffer", "recv_buffer"), ("_read_endpoint", "_write_endpoint"),
            ("arg0", "arg1"), ("data_length", "data_checksum"), ("_transport_lock", "_store_lock"), ("send_idx", "recv_message_size"), ("_default_transport_timeout_s", "_maxdata")]
_SIB = {}
for _a, _b in SIBLINGS:
    _SIB[_a] = _b
    _SIB[_b] = _a


def mutants2_of(tree):
    """Second operator set (structure-level): sibling-name swaps, unwrapped `with`, dropped `finally`, swapped neighbouring statements, deleted
    return / raise / guard statements, off-by-one slice bounds, a call argument replaced by None."""
    nodes = list(ast.walk(tree))
    for idx, n in enumerate(nodes):
        if isinstance(n, ast.Attribute) and n.attr in _SIB and isinstance(n.ctx, ast.Load):
            yield ("attr .%s->.%s" % (n.attr, _SIB[n.attr]), n.lineno, ("attr", idx, _SIB[n.attr]))
        if isinstance(n, ast.Name) and n.id in _SIB and isinstance(n.ctx, ast.Load):
            yield ("name %s->%s" % (n.id, _SIB[n.id]), n.lineno, ("name", idx, _SIB[n.id]))
        if isinstance(n, (ast.With, ast.AsyncWith)):
            yield ("unwrap `with %s`" % ast.unparse(n.items[0].context_expr)[:40], n.lineno, ("unwrap", idx))
        if isinstance(n, ast.Try) and n.finalbody:
            yield ("drop finally", n.lineno, ("nofinally", idx))
        if isinstance(n, ast.Try) and n.handlers:
            yield ("drop handlers", n.lineno, ("nohandlers", idx))
        if isinstance(n, ast.Slice):
            for fld in ("lower", "upper"):
                if getattr(n, fld) is not None:
                    yield ("slice %s+1" % fld, getattr(n, fld).lineno, ("slice", idx, fld))
        if isinstance(n, ast.Call) and n.args and not any(isinstance(a, ast.Starred) for a in n.args) and hasattr(n, "lineno"):
            for i, a in enumerate(n.args):
                if not isinstance(a, ast.Constant):
                    yield ("arg %d of %s -> None" % (i, ast.unparse(n.func)[:30]), n.lineno, ("argnone", idx, i))
        if isinstance(n, (ast.FunctionDef, ast.AsyncFunctionDef, ast.If, ast.While, ast.For, ast.AsyncFor, ast.With, ast.AsyncWith, ast.Try, ast.ExceptHandler)):
            for field in ("body", "orelse", "finalbody"):
                body = getattr(n, field, None)
                if not isinstance(body, list):
                    continue
                for j, st in enumerate(body):
                    if isinstance(st, (ast.Return, ast.Raise)) or (isinstance(st, ast.If) and not st.orelse):
                        yield ("delete `%s`" % ast.unparse(st)[:50].replace("\n", " "), st.lineno, ("delete", idx, field, j))
                    if j + 1 < len(body) and isinstance(st, (ast.Expr, ast.Assign, ast.AugAssign)) and isinstance(body[j + 1], (ast.Expr, ast.Assign, ast.AugAssign)) \
                            and not (isinstance(st, ast.Expr) and isinstance(st.value, ast.Constant)):
                        yield ("swap stmts `%s` <-> next" % ast.unparse(st)[:40].replace("\n", " "), st.lineno, ("swapstmt", idx, field, j))


EXC = ["AdbCommandFailureException", "AdbConnectionError", "AdbTimeoutError", "DeviceAuthError", "DevicePathInvalidError", "InvalidChecksumError", "InvalidCommandError",
       "InvalidResponseError", "InvalidTransportError", "PushFailedError", "TcpTimeoutException", "UsbDeviceNotFoundError", "UsbReadFailedError", "UsbWriteFailedError"]
METHOD_SIBS = [("find", "find_allow_zeros"), ("_okay", "_clse"), ("bulk_read", "bulk_write"), ("put", "get"), ("clear", "clear_all"), ("_read_until", "_read_until_close"),
               ("_filesync_read", "_filesync_read_buffered"), ("acquire", "release"), ("append", "extend"), ("sendall", "send"), ("read", "readexactly")]
_MS = {}
for _a, _b in METHOD_SIBS:
    _MS[_a] = _b
    _MS[_b] = _a


def mutants3_of(tree):
    """Third operator set: a test forced to True / False, an exception class replaced by another of the package, a call redirected to a sibling method,
    a loop cut to one iteration, `except T` widened to a bare handler or narrowed to one that never matches."""
    nodes = list(ast.walk(tree))
    for idx, n in enumerate(nodes):
        if isinstance(n, (ast.If, ast.While, ast.IfExp)) and not isinstance(n.test, ast.Constant):
            for v in (True, False):
                yield ("test `%s` -> %s" % (ast.unparse(n.test)[:40], v), n.lineno, ("forcetest", idx, v))
        if isinstance(n, ast.Attribute) and n.attr in EXC and isinstance(n.ctx, ast.Load):
            i = EXC.index(n.attr)
            for other in (EXC[(i + 1) % len(EXC)], EXC[(i + 5) % len(EXC)]):
                yield ("exception %s->%s" % (n.attr, other), n.lineno, ("attr", idx, other))
        if isinstance(n, ast.Name) and n.id in EXC and isinstance(n.ctx, ast.Load):
            i = EXC.index(n.id)
            yield ("exception %s->%s" % (n.id, EXC[(i + 1) % len(EXC)]), n.lineno, ("name", idx, EXC[(i + 1) % len(EXC)]))
        if isinstance(n, ast.Call) and isinstance(n.func, ast.Attribute) and n.func.attr in _MS:
            yield ("call .%s -> .%s" % (n.func.attr, _MS[n.func.attr]), n.lineno, ("callattr", idx, _MS[n.func.attr]))
        if isinstance(n, (ast.While, ast.For, ast.AsyncFor)):
            yield ("loop runs once", n.lineno, ("onceloop", idx))
        if isinstance(n, ast.ExceptHandler) and n.type is not None:
            yield ("except %s -> bare" % ast.unparse(n.type)[:30], n.lineno, ("barehandler", idx))
            yield ("except %s -> never" % ast.unparse(n.type)[:30], n.lineno, ("neverhandler", idx))


def mutants4_of(tree):
    """Fourth operator set (maintenance-commit shapes): an early return for a special input after the guards, a statement wrapped in a handler
    that swallows its failure, the first / last statement of a lock's `with` body moved out of it, a `finally` clean-up that only runs on success."""
    nodes = list(ast.walk(tree))
    for idx, n in enumerate(nodes):
        if isinstance(n, (ast.FunctionDef, ast.AsyncFunctionDef)) and n.name != "__init__" and not any(isinstance(d, ast.Name) and d.id == "property" for d in n.decorator_list):
            ps = [a.arg for a in n.args.args if a.arg not in ("self", "cls")]
            k = 0
            for i, st in enumerate(n.body):
                if isinstance(st, ast.Expr) and isinstance(st.value, ast.Constant):
                    k = i + 1
                    continue
                if isinstance(st, ast.If) and all(isinstance(x, ast.Raise) for x in st.body) and not st.orelse:
                    k = i + 1
                    continue
                break
            if ps and k < len(n.body):
                yield ("early return in %s when %s is special" % (n.name, ps[0]), n.body[k].lineno, ("earlyret", idx, k, ps[0]))
        if isinstance(n, (ast.FunctionDef, ast.AsyncFunctionDef, ast.For, ast.AsyncFor, ast.While, ast.If, ast.With, ast.AsyncWith)):
            for field in ("body", "orelse"):
                body = getattr(n, field, None)
                if not isinstance(body, list):
                    continue
                for j, st in enumerate(body):
                    if isinstance(st, (ast.Expr, ast.Assign, ast.AugAssign)) and any(isinstance(x, ast.Call) for x in ast.walk(st)) \
                            and not (isinstance(st, ast.Expr) and isinstance(st.value, ast.Constant)) and not any(isinstance(x, (ast.Yield, ast.YieldFrom)) for x in ast.walk(st)):
                        if isinstance(st, ast.Expr):     # an assignment would leave its target unbound
                            yield ("swallow failures of `%s`" % ast.unparse(st)[:40].replace("\n", " "), st.lineno, ("swallow", idx, field, j))
        if isinstance(n, (ast.With, ast.AsyncWith)) and any("lock" in ast.unparse(it.context_expr) for it in n.items) and len(n.body) > 1:
            yield ("first statement of `with %s` moved out" % ast.unparse(n.items[0].context_expr)[:30], n.lineno, ("withfirst", idx))
            yield ("last statement of `with %s` moved out" % ast.unparse(n.items[0].context_expr)[:30], n.lineno, ("withlast", idx))
        if isinstance(n, ast.Try) and n.finalbody:
            yield ("finally clean-up only on success", n.lineno, ("finallysuccess", idx))


def apply(tree, op):
    t = copy.deepcopy(tree)
    nodes = list(ast.walk(t))
    kind = op[0]
    n = nodes[op[1]]
    if kind == "cmp":
        n.ops = [op[2]()]
    elif kind == "boolop":
        n.op = ast.Or() if isinstance(n.op, ast.And) else ast.And()
    elif kind == "dropnot":
        # replace `not x` by `x`: mutate in place into a no-op unary via double negation removal
        n.op = ast.UAdd() if False else n.op
        parent_replace(t, n, n.operand)
    elif kind == "const":
        n.value = op[2]
    elif kind == "swap":
        i = op[2]
        n.args[i], n.args[i + 1] = n.args[i + 1], n.args[i]
    elif kind == "attr":
        n.attr = op[2]
    elif kind == "replace_stmt":
        parent_replace(t, n, ast.Continue() if op[2] == "continue" else ast.Break())
    elif kind == "binop":
        n.op = ast.Sub() if isinstance(n.op, ast.Add) else ast.Add()
    elif kind == "delete":
        body = getattr(n, op[2])
        body[op[3]] = ast.Pass()
    elif kind == "name":
        n.id = op[2]
    elif kind == "forcetest":
        n.test = ast.Constant(value=op[2])
    elif kind == "callattr":
        n.func.attr = op[2]
    elif kind == "onceloop":
        n.body.append(ast.Break())
    elif kind == "barehandler":
        n.type = None
        n.name = None if not any(isinstance(x, ast.Name) and x.id == n.name for st in n.body for x in ast.walk(st)) else n.name
        if n.name is not None:
            n.type = ast.Name(id="BaseException", ctx=ast.Load())
    elif kind == "neverhandler":
        n.type = ast.Name(id="StopAsyncIteration", ctx=ast.Load())
    elif kind == "earlyret":
        test = ast.Compare(left=ast.Name(id=op[3], ctx=ast.Load()), ops=[ast.Eq()], comparators=[ast.Constant(value="\x00special")])
        n.body.insert(op[2], ast.If(test=test, body=[ast.Return(value=None)], orelse=[]))
    elif kind == "swallow":
        body = getattr(n, op[2])
        st = body[op[3]]
        body[op[3]] = ast.Try(body=[st], handlers=[ast.ExceptHandler(type=ast.Name(id="Exception", ctx=ast.Load()), name=None, body=[ast.Pass()])], orelse=[], finalbody=[])
    elif kind == "withfirst":
        first = n.body.pop(0)
        parent_splice(t, n, [first, n])
    elif kind == "withlast":
        last = n.body.pop()
        parent_splice(t, n, [n, last])
    elif kind == "finallysuccess":
        fb = n.finalbody
        n.finalbody = []
        if n.handlers:
            parent_splice(t, n, [n] + fb)
        else:
            parent_splice(t, n, n.body + fb)
    elif kind == "unwrap":
        parent_splice(t, n, n.body)
    elif kind == "nofinally":
        if n.handlers:
            n.finalbody = []
        else:
            parent_splice(t, n, n.body)
    elif kind == "nohandlers":
        if n.finalbody:
            n.handlers = []
            n.orelse = []
        else:
            parent_splice(t, n, n.body + n.orelse)
    elif kind == "slice":
        old = getattr(n, op[2])
        setattr(n, op[2], ast.BinOp(left=old, op=ast.Add(), right=ast.Constant(value=1)))
    elif kind == "argnone":
        n.args[op[2]] = ast.Constant(value=None)
    elif kind == "swapstmt":
        body = getattr(n, op[2])
        j = op[3]
        body[j], body[j + 1] = body[j + 1], body[j]
    ast.fix_missing_locations(t)
    return t


def parent_splice(tree, old, new_stmts):
    for p in ast.walk(tree):
        for field, val in ast.iter_fields(p):
            if isinstance(val, list):
                for i, x in enumerate(val):
                    if x is old:
                        val[i:i + 1] = new_stmts
                        return


def parent_replace(tree, old, new):
    for p in ast.walk(tree):
        for field, val in ast.iter_fields(p):
            if val is old:
                setattr(p, field, new)
                return
            if isinstance(val, list):
                for i, x in enumerate(val):
                    if x is old:
                        val[i] = new
                        return




def file_mutants(root, rel):
    """[(description, lineno, mutated source text)] for one file of <root>/adb_shell."""
    src_ = open(os.path.join(root, "adb_shell", rel)).read()
    tree = ast.parse(src_)
    out = []
    for desc, lineno, op in mutants_of(tree):
        try:
            txt = ast.unparse(apply(tree, op))
            ast.parse(txt)
        except Exception:   # noqa
            continue
        out.append((desc, lineno, txt))
    return out


def _one(args):
    pid, root, rel, desc, lineno, op = args
    d = tempfile.mkdtemp(prefix="sa-sample-")
    try:
        shutil.copytree(os.path.join(root, "adb_shell"), os.path.join(d, "adb_shell"), ignore=shutil.ignore_patterns("__pycache__"))
        p = os.path.join(d, "adb_shell", rel)
        tree = ast.parse(open(p).read())
        try:
            txt = ast.unparse(apply(tree, op))
            ast.parse(txt)
        except Exception:   # noqa
            return rel, desc, lineno, -1
        with open(p, "w") as f:
            f.write(txt)
        os.environ["SA_EVIDENCE_DIR"] = os.path.join(d, "ev")
        from . import report
        report.EVIDENCE_DIR = os.environ["SA_EVIDENCE_DIR"]
        from .cli import run_property
        import io
        import contextlib
        buf = io.StringIO()
        with contextlib.redirect_stdout(buf):
            code, R, new, known = run_property(pid, "quick", 0, d, quiet=True)
        return rel, desc, lineno, code
    finally:
        shutil.rmtree(d, ignore_errors=True)


def sample_for_property(pid, seed=0, n=96, root=None, jobs=16):
    """Sample n first-order mutants of the files the property is anchored in; run the property's own check on each."""
    from .engine import repo_root
    root = root or repo_root()
    here = os.path.dirname(os.path.dirname(os.path.abspath(__file__)))
    files = []
    for line in open(os.path.join(here, "properties.jsonl")):
        p = json.loads(line)
        if p["id"] == pid:
            files = [f.replace("adb_shell/", "", 1) for f in p["anchors"]["files"] if f.startswith("adb_shell/")]
    # the async twins mirror the sync files; sample the sync side and the shared helpers
    files = [f for f in files if os.path.exists(os.path.join(root, "adb_shell", f)) and not f.endswith("adb_device_async.py")]
    # restrict to the functions this property's rules actually examine (taken from the obligations of a run on the unchanged tree)
    from .cli import run_property
    from .engine import Ctx
    import io
    import contextlib
    ctx = Ctx(root)
    with contextlib.redirect_stdout(io.StringIO()):
        from . import report
        saved = report.EVIDENCE_DIR
        report.EVIDENCE_DIR = tempfile.mkdtemp(prefix="sa-sample-ev-")
        try:
            code, R, new, known = run_property(pid, "quick", 0, root, quiet=True, ctx=ctx)
        finally:
            shutil.rmtree(report.EVIDENCE_DIR, ignore_errors=True)
            report.EVIDENCE_DIR = saved
    ranges = {}
    if R is not None:
        for o in R.obligations:
            for q, f in ctx.pkg.funcs.items():
                if q in o.subject:
                    ranges.setdefault(f.mod.relpath.replace("adb_shell/", "", 1), set()).add((f.node.lineno, f.node.end_lineno))
    work = []
    for rel in files:
        rs = ranges.get(rel)
        tree = ast.parse(open(os.path.join(root, "adb_shell", rel)).read())
        for desc, lineno, op in mutants_of(tree):
            if rs is None or any(a <= lineno <= b for a, b in rs) or rel == "constants.py":
                work.append((pid, root, rel, desc, lineno, op))
    total = len(work)
    random.Random(seed).shuffle(work)
    work = work[:n]
    res = []
    if work:
        with multiprocessing.Pool(min(jobs, len(work))) as pool:
            res = list(pool.imap_unordered(_one, work))
    res = [r for r in res if r[3] != -1]
    reported = [r for r in res if r[3] == 1]
    errors = [r for r in res if r[3] == 2]
    silent = [r for r in res if r[3] == 0]
    return {"files": files, "mutants_available": total, "sampled": len(res), "reported": len(reported), "analysis_error": len(errors), "not_reported": len(silent),
            "not_reported_examples": ["%s:%d %s" % (r[0], r[2], r[1]) for r in sorted(silent)[:25]],
            "note": "first-order syntactic mutants of the anchored files; a mutant that is not reported is often equivalent or outside what the property speaks about - this is a coverage indicator, not a verdict"}
