"""Self-validation of the rules on the tree under analysis (thorough tier).

Each mutant is a small textual edit of the *current* /repo/adb_shell applied to a scratch copy (mkdtemp, removed on
exit).  A seed breaks the property and must be reported by the property's own rules; a control preserves behaviour
and must leave the check silent.  Nothing is executed: the scratch copy is only parsed and analysed.
"""
import importlib
import multiprocessing
import os
import random
import shutil
import tempfile
import time


def load_mutants(pid):
    try:
        m = importlib.import_module(".mutants.%s" % pid.lower(), __package__)
        out = list(m.MUTANTS)
    except ImportError:
        out = []
    # behaviour-preserving refactorings: every property's check must stay silent on each of them
    try:
        g = importlib.import_module(".mutants.controls_global", __package__)
        out += [dict(x) for x in g.MUTANTS]
    except ImportError:
        pass
    # independently written defects kept under /verif/seeded/<id>/ (patch.diff + meta.json naming the property they break)
    import json
    sd = os.path.join(os.path.dirname(os.path.dirname(os.path.abspath(__file__))), "seeded")
    if os.path.isdir(sd):
        for name in sorted(os.listdir(sd)):
            meta = os.path.join(sd, name, "meta.json")
            patch = os.path.join(sd, name, "patch.diff")
            if os.path.exists(meta) and os.path.exists(patch):
                try:
                    mj = json.load(open(meta))
                except ValueError:
                    continue
                if mj.get("property") == pid and mj.get("declined"):
                    # a change the check deliberately does not decide (reason in meta.json and DESIGN.md): replayed and listed, never counted as fired
                    out.append({"id": "seeded-" + name, "kind": "declined", "desc": "declined: " + mj["declined"], "edits": [], "patch": patch})
                elif mj.get("property") == pid and mj.get("owner") and mj.get("owner") != pid:
                    # planted for this property, decided by the check of another one (meta.json: owner / owner_why): replayed and listed here, counted there
                    out.append({"id": "seeded-" + name, "kind": "declined", "desc": "decided by %s: %s" % (mj["owner"], mj.get("owner_why", "")), "edits": [], "patch": patch})
                elif mj.get("property") == pid or mj.get("owner") == pid:
                    out.append({"id": "seeded-" + name, "kind": "seed", "desc": "independent seeded change " + name, "edits": [], "patch": patch})
    # compound seeds (/verif/seeded/compound.json): a behaviour-preserving variant with one defect planted INSIDE the refactored code (the
    # helper, property, record class or module-level function the canonicaliser has to see through): the property's rules must still fire
    cf = os.path.join(sd, "compound.json")
    if os.path.exists(cf):
        for c in json.load(open(cf)).get("compound", []):
            if c.get("property") == pid:
                out.append({"id": "compound-" + c["id"], "kind": "seed", "desc": "defect inside refactored code: %s on %s" % (c.get("what", ""), c["refactoring"]), "edits": [],
                            "patch": os.path.join(os.path.dirname(sd), "refactorings", c["refactoring"], "patch.diff"), "post_edits": [tuple(e) for e in c["edits"]]})
    # independently written behaviour-preserving variants (/verif/refactorings/<name>/patch.diff): those recorded as silent for
    # all checks in STATUS.json must stay silent for this property too
    rd = os.path.join(os.path.dirname(os.path.dirname(os.path.abspath(__file__))), "refactorings")
    stf = os.path.join(rd, "STATUS.json")
    if os.path.exists(stf):
        try:
            status = json.load(open(stf)).get("status", {})
        except ValueError:
            status = {}
        for name in sorted(status):
            patch = os.path.join(rd, name, "patch.diff")
            if status[name] == "silent" and os.path.exists(patch):
                out.append({"id": "ref-" + name, "kind": "control", "desc": "independent behaviour-preserving variant " + name, "edits": [], "patch": patch})
    return out


def apply_edits(root, edits):
    """edits: list of (relpath under adb_shell, old, new).  Returns None on success or a reason when an anchor is absent."""
    for rel, old, new in edits:
        p = os.path.join(root, "adb_shell", rel)
        if not os.path.exists(p):
            return "file %s missing" % rel
        with open(p) as f:
            s = f.read()
        if s.count(old) != 1:
            return "anchor occurs %d times in %s" % (s.count(old), rel)
        with open(p, "w") as f:
            f.write(s.replace(old, new))
    return None


def _work(args):
    pid, mutant, src_root, scratch_parent = args
    d = tempfile.mkdtemp(prefix="sa-mut-", dir=scratch_parent)
    try:
        shutil.copytree(os.path.join(src_root, "adb_shell"), os.path.join(d, "adb_shell"),
                        ignore=shutil.ignore_patterns("__pycache__", "*.pyc"))
        why = apply_edits(d, mutant["edits"])
        if not why and mutant.get("patch"):
            import subprocess
            r = subprocess.run(["patch", "-p1", "-s", "--no-backup-if-mismatch", "-d", d, "-i", mutant["patch"]], stdout=subprocess.PIPE, stderr=subprocess.STDOUT)
            if r.returncode != 0:
                why = "patch does not apply to the current tree"
        if not why and mutant.get("post_edits"):
            why = apply_edits(d, mutant["post_edits"])
        if why:
            return mutant["id"], "skipped", why, []
        import ast
        for rel, _o, _n in list(mutant["edits"]) + list(mutant.get("post_edits", ())):
            try:
                ast.parse(open(os.path.join(d, "adb_shell", rel)).read())
            except SyntaxError as e:
                return mutant["id"], "skipped", "mutant does not parse: %s" % e, []
        os.environ["SA_EVIDENCE_DIR"] = os.path.join(d, "evidence")
        import io
        import contextlib
        from . import report
        report.EVIDENCE_DIR = os.environ["SA_EVIDENCE_DIR"]
        from .cli import run_property
        buf = io.StringIO()
        with contextlib.redirect_stdout(buf):
            code, R, new, known = run_property(pid, "quick", 0, d, quiet=True)
        viol = ["%s|%s" % (v.rule, v.subject) for v in new]
        if code == 2:
            return mutant["id"], "analysis-error", buf.getvalue().strip()[:300], viol
        return mutant["id"], "fired" if code == 1 else "silent", "", viol
    finally:
        shutil.rmtree(d, ignore_errors=True)


def run_selftest(pid, seed=0, root=None, jobs=None, verbose=False):
    from .engine import repo_root
    t0 = time.time()
    root = root or repo_root()
    muts = load_mutants(pid)
    rnd = random.Random(seed)
    rnd.shuffle(muts)
    parent = tempfile.mkdtemp(prefix="sa-selftest-")
    res = {}
    try:
        jobs = jobs or min(16, max(1, len(muts)))
        if muts:
            with multiprocessing.Pool(jobs) as pool:
                for mid, status, why, viol in pool.imap_unordered(_work, [(pid, m, root, parent) for m in muts]):
                    res[mid] = (status, why, viol)
    finally:
        shutil.rmtree(parent, ignore_errors=True)
    out = {"seeds_applied": 0, "seeds_fired": 0, "controls_applied": 0, "controls_silent": 0, "skipped": [], "blind": [], "noisy": [],
           "analysis_error": [], "declined": [], "detail": []}
    for m in sorted(muts, key=lambda m: m["id"]):
        status, why, viol = res.get(m["id"], ("skipped", "not run", []))
        if verbose:
            print("%-8s %-44s %-14s %s %s" % (m["kind"], m["id"], status, why, viol[:2]))
        if status == "skipped":
            out["skipped"].append({"id": m["id"], "why": why})
            continue
        if m["kind"] == "declined":
            out["declined"].append({"id": m["id"], "why": m["desc"], "status": status})
        elif m["kind"] == "seed":
            out["seeds_applied"] += 1
            if status == "fired":
                out["seeds_fired"] += 1
            elif status == "analysis-error":
                out["analysis_error"].append(m["id"])
            else:
                out["blind"].append(m["id"])
        else:
            out["controls_applied"] += 1
            if status == "silent":
                out["controls_silent"] += 1
            else:
                out["noisy"].append(m["id"])
        out["detail"].append({"id": m["id"], "kind": m["kind"], "desc": m["desc"], "status": status, "violations": viol[:3]})
    out["wall_s"] = round(time.time() - t0, 2)
    return out


if __name__ == "__main__":
    import sys
    ids = sys.argv[1:] or ["C%02d" % i for i in range(1, 21)]
    bad = 0
    for pid in ids:
        st = run_selftest(pid.upper(), verbose=True)
        print("== %s: seeds %d/%d fired, controls %d/%d silent, skipped %d, blind %s, noisy %s, analysis-error %s (%.1fs)" % (
            pid, st["seeds_fired"], st["seeds_applied"], st["controls_silent"], st["controls_applied"], len(st["skipped"]), st["blind"], st["noisy"], st["analysis_error"], st["wall_s"]))
        bad += len(st["blind"]) + len(st["noisy"])
    sys.exit(1 if bad else 0)
