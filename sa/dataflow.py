"""E3 - reaching definitions (with interprocedural mod-sets for attributes of passed objects) and must-facts."""
import ast
import copy

from .cfg import cfg_of
from .loader import walk_expr, walk_own


# ---------------------------------------------------------------------------------------------
# expression keys

class _StripAwait(ast.NodeTransformer):
    def visit_Await(self, node):
        return self.visit(node.value)


def strip_await(e):
    return _StripAwait().visit(copy.deepcopy(e))


def key(e):
    """Canonical structural key of an expression (positions ignored, ``await`` erased)."""
    if e is None:
        return "None"
    return ast.dump(strip_await(e))


def varkey(e):
    """'x' for a Name, 'x.a.b' for an attribute chain rooted at a Name, else None."""
    parts = []
    while isinstance(e, ast.Attribute):
        parts.append(e.attr)
        e = e.value
    if isinstance(e, ast.Name):
        parts.append(e.id)
        return ".".join(reversed(parts))
    return None


def vars_in(e):
    """All variable keys read by expression e (maximal attribute chains only)."""
    out = set()
    stack = [e]
    while stack:
        n = stack.pop()
        if isinstance(n, ast.Lambda):
            continue
        if isinstance(n, (ast.Name, ast.Attribute)):
            k = varkey(n)
            if k:
                out.add(k)      # maximal chain only: do not descend into its prefixes
                continue
        stack.extend(ast.iter_child_nodes(n))
    return out


def reads_var(e, var):
    """Does expression e read variable `var` (or an attribute chain below it)?"""
    for v in vars_in(e):
        if v == var or v.startswith(var + "."):
            return True
    return False


def unawait(e):
    while isinstance(e, ast.Await):
        e = e.value
    return e


# ---------------------------------------------------------------------------------------------
# mod-sets

MUTATING_METHODS = {"append", "extend", "insert", "pop", "remove", "clear", "update", "add", "discard", "setdefault",
                    "put", "put_nowait", "get", "get_nowait", "popitem", "sort", "reverse", "write", "truncate", "seek"}


def compute_modsets(pkg, cg):
    """Func -> set of (param name, attr path) the function may write on objects passed in (transitively)."""
    mods = {f: set() for f in pkg.funcs.values()}

    def direct(f):
        out = set()
        params = set(f.params)
        for n in walk_own(f.node):
            targets = []
            if isinstance(n, ast.Assign):
                targets = list(n.targets)
            elif isinstance(n, (ast.AugAssign, ast.AnnAssign)):
                targets = [n.target]
            elif isinstance(n, ast.Delete):
                targets = list(n.targets)
            elif isinstance(n, (ast.For, ast.AsyncFor)):
                targets = [n.target]
            flat = []
            while targets:
                t = targets.pop()
                if isinstance(t, (ast.Tuple, ast.List)):
                    targets.extend(t.elts)
                elif isinstance(t, ast.Starred):
                    targets.append(t.value)
                else:
                    flat.append(t)
            for t in flat:
                base = t
                while isinstance(base, ast.Subscript):
                    base = base.value
                k = varkey(base)
                if k and "." in k:
                    root, rest = k.split(".", 1)
                    if root in params:
                        out.add((root, rest))
            if isinstance(n, ast.Call) and isinstance(n.func, ast.Attribute) and n.func.attr in MUTATING_METHODS:
                base = n.func.value
                while isinstance(base, ast.Subscript):
                    base = base.value
                k = varkey(base)
                if k and "." in k:
                    root, rest = k.split(".", 1)
                    if root in params:
                        out.add((root, rest))
        return out

    for f in mods:
        mods[f] = direct(f)
    changed = True
    while changed:
        changed = False
        for f in mods:
            params = set(f.params)
            for cs in cg.sites.get(f, []):
                for g in cs.callees:
                    if not mods[g]:
                        continue
                    binding = dict(cs.bind(g))
                    if g.is_method and g.params and isinstance(cs.node.func, ast.Attribute) and g.name != "__init__":
                        binding[g.params[0]] = cs.node.func.value
                    for q, attr in mods[g]:
                        arg = binding.get(q)
                        if arg is None:
                            continue
                        k = varkey(unawait(arg))
                        if not k:
                            continue
                        root = k.split(".", 1)[0]
                        if root in params:
                            rest = (k.split(".", 1)[1] + "." if "." in k else "") + attr
                            if (root, rest) not in mods[f]:
                                mods[f].add((root, rest))
                                changed = True
    return mods


# ---------------------------------------------------------------------------------------------
# reaching definitions

class Def(object):
    __slots__ = ("var", "kind", "node", "value", "path", "strong", "extra")

    def __init__(self, var, kind, node, value=None, path=(), strong=True, extra=None):
        self.var = var
        self.kind = kind        # param entry global assign aug for with except import del callmut mutate base def
        self.node = node        # cfg node
        self.value = value      # ast expr (rhs, iter expr, context expr) or None
        self.path = path        # tuple-unpack position path
        self.strong = strong
        self.extra = extra

    def __repr__(self):
        return "<Def %s %s@%s %s>" % (self.var, self.kind, self.node.lineno if self.node is not None else "-", self.path)


class DataFlow(object):
    def __init__(self, func, cg=None, modsets=None):
        self.func = func
        self.g = cfg_of(func)
        self.cg = cg
        self.modsets = modsets or {}
        self.keys = set()
        self.node_defs = {}
        self._collect_keys()
        self._collect_defs()
        self._solve_rd()
        self._facts_in = None

    # -- variable universe ------------------------------------------------------
    def _collect_keys(self):
        for n in walk_own(self.func.node):
            if isinstance(n, (ast.Name, ast.Attribute)):
                k = varkey(n)
                if k:
                    self.keys.add(k)
                    # prefixes too
                    parts = k.split(".")
                    for i in range(1, len(parts)):
                        self.keys.add(".".join(parts[:i]))
        for p in self.func.params + self.func.kwonly:
            self.keys.add(p)
        for p in (self.func.vararg, self.func.kwarg):
            if p:
                self.keys.add(p)

    def _subkeys(self, var):
        pre = var + "."
        return [k for k in self.keys if k.startswith(pre)]

    # -- definitions per node ---------------------------------------------------------
    def _bind(self, out, node, target, kind, value, path=()):
        if isinstance(target, (ast.Tuple, ast.List)):
            for i, t in enumerate(target.elts):
                self._bind(out, node, t, kind, value, path + (i,))
            return
        if isinstance(target, ast.Starred):
            self._bind(out, node, target.value, kind, value, path + ("*",))
            return
        if isinstance(target, ast.Subscript):
            base = target
            while isinstance(base, ast.Subscript):
                base = base.value
            k = varkey(base)
            if k:
                out.append(Def(k, "mutate", node, value, path, strong=False, extra=target))
            return
        k = varkey(target)
        if k:
            out.append(Def(k, kind, node, value, path, strong=True))
            for sk in self._subkeys(k):
                out.append(Def(sk, "base", node, None, (), strong=True))

    def _collect_defs(self):
        g = self.g
        f = self.func
        entry_defs = []
        for p in f.params + f.kwonly + [x for x in (f.vararg, f.kwarg) if x]:
            entry_defs.append(Def(p, "param", g.entry))
        locals_ = set()
        for n in g.nodes:
            self.node_defs[n] = []
        for n in g.nodes:
            out = self.node_defs[n]
            a = n.ast
            if n.kind == "stmt":
                if isinstance(a, ast.Assign):
                    for t in a.targets:
                        self._bind(out, n, t, "assign", a.value)
                elif isinstance(a, ast.AugAssign):
                    if isinstance(a.target, ast.Subscript):
                        self._bind(out, n, a.target, "aug", a.value)
                    else:
                        k = varkey(a.target)
                        if k:
                            out.append(Def(k, "aug", n, a.value, (), strong=True, extra=a.op))
                            for sk in self._subkeys(k):
                                out.append(Def(sk, "base", n))
                elif isinstance(a, ast.AnnAssign) and a.value is not None:
                    self._bind(out, n, a.target, "assign", a.value)
                elif isinstance(a, ast.Delete):
                    for t in a.targets:
                        self._bind(out, n, t, "del", None)
                elif isinstance(a, (ast.Import, ast.ImportFrom)):
                    for al in a.names:
                        nm = (al.asname or al.name).split(".")[0]
                        out.append(Def(nm, "import", n))
                elif isinstance(a, (ast.FunctionDef, ast.AsyncFunctionDef, ast.ClassDef)):
                    out.append(Def(a.name, "def", n))
            elif n.kind == "iter":
                self._bind(out, n, a.target, "for", a.iter)
            elif n.kind == "with":
                if n.item.optional_vars is not None:
                    self._bind(out, n, n.item.optional_vars, "with", n.item.context_expr)
            elif n.kind == "except":
                if a.name:
                    out.append(Def(a.name, "except", n))
            # walrus / comprehension targets are ignored (not used by the package); calls:
            for e in n.exprs():
                for sub in walk_expr(e):
                    if isinstance(sub, ast.NamedExpr) and isinstance(sub.target, ast.Name):
                        out.append(Def(sub.target.id, "assign", n, sub.value))
                    if isinstance(sub, ast.Call):
                        self._call_defs(out, n, sub)
            for d in out:
                if d.strong and "." not in d.var:
                    locals_.add(d.var)
        # entry: attribute keys and globals
        seen = set(d.var for d in entry_defs)
        for k in sorted(self.keys):
            if k in seen:
                continue
            root = k.split(".")[0]
            if "." in k:
                entry_defs.append(Def(k, "entry", g.entry))
            elif root not in locals_:
                entry_defs.append(Def(k, "global", g.entry))
        self.node_defs[g.entry] = entry_defs
        self.locals = locals_

    def _call_defs(self, out, node, call):
        # (1) resolved package callees: apply mod-sets
        cs = self.cg.site(call) if self.cg is not None else None
        touched = set()
        if cs is not None:
            for callee in cs.callees:
                ms = self.modsets.get(callee)
                if not ms:
                    continue
                binding = dict(cs.bind(callee))
                if callee.is_method and callee.params and isinstance(call.func, ast.Attribute) and callee.name != "__init__":
                    binding[callee.params[0]] = call.func.value
                for q, attr in ms:
                    arg = binding.get(q)
                    if arg is None:
                        continue
                    k = varkey(unawait(arg))
                    if k:
                        touched.add(k + "." + attr)
        # (2) mutating method on an attribute chain / name: x.a.append(...)
        if isinstance(call.func, ast.Attribute) and call.func.attr in MUTATING_METHODS:
            base = call.func.value
            while isinstance(base, ast.Subscript):
                base = base.value
            k = varkey(base)
            if k and (cs is None or not cs.callees):
                touched.add(k)
        for k in touched:
            self.keys.add(k)
            out.append(Def(k, "callmut", node, call, (), strong=False))
            for sk in self._subkeys(k):
                out.append(Def(sk, "callmut", node, call, (), strong=False))

    # -- solver ----------------------------------------------------------------------------
    def _solve_rd(self):
        g = self.g
        IN = {n: None for n in g.nodes}
        OUT = {n: None for n in g.nodes}
        order = g.nodes
        IN[g.entry] = {}
        work = [g.entry]
        inwork = {g.entry}
        while work:
            n = work.pop(0)
            inwork.discard(n)
            if n is not g.entry:
                acc = None
                for p, _l in g.pred[n]:
                    if OUT[p] is None:
                        continue
                    if acc is None:
                        acc = {k: set(v) for k, v in OUT[p].items()}
                    else:
                        for k, v in OUT[p].items():
                            acc.setdefault(k, set()).update(v)
                if acc is None:
                    continue
                IN[n] = acc
            cur = {k: set(v) for k, v in IN[n].items()}
            for d in self.node_defs[n]:
                if d.strong:
                    cur[d.var] = {d}
                else:
                    cur.setdefault(d.var, set()).add(d)
            if OUT[n] is None or cur != OUT[n]:
                OUT[n] = cur
                for s, _l in g.succ[n]:
                    if s not in inwork:
                        work.append(s)
                        inwork.add(s)
        self.IN, self.OUT = IN, OUT

    def reaching(self, node, var):
        """Definitions of var that reach the *entry* of node."""
        d = self.IN.get(node)
        if d is None:
            return set()
        return set(d.get(var, ()))

    def reaching_out(self, node, var):
        d = self.OUT.get(node)
        if d is None:
            return set()
        return set(d.get(var, ()))

    def unique_def(self, node, var):
        ds = self.reaching(node, var)
        if len(ds) == 1:
            return next(iter(ds))
        return None

    def uses(self, d):
        """CFG nodes that read d.var while d reaches them."""
        out = []
        for n in self.g.nodes:
            if d in self.reaching(n, d.var):
                for e in n.exprs():
                    if reads_var(_reads_only(n, e), d.var):
                        out.append(n)
                        break
        return out

    # -- must-facts ---------------------------------------------------------------------------
    def facts(self, node):
        if self._facts_in is None:
            self._solve_facts()
        r = self._facts_in.get(node)
        r = r if r is not None else frozenset()
        return self._close(r)

    def _close(self, facts):
        """Unit propagation over the conjunctions known to be false: not (A and B) together with A gives not B
        (and not (A or B) was already split into not A, not B by test_facts)."""
        if not any(f[0][0] == "expr" and f[1] is False for f in facts):
            return facts
        out = set(facts)
        changed = True
        while changed:
            changed = False
            for f in list(out):
                if f[0][0] == "expr" and f[1] is False and f[0][1] in _CONJ:
                    parts = _CONJ[f[0][1]]
                    unknown = [p for p in parts if not p <= out]
                    if len(unknown) == 1 and len(unknown[0]) == 1:
                        atom = next(iter(unknown[0]))
                        neg = (atom[0], not atom[1], atom[2])
                        if neg not in out:
                            out.add(neg)
                            changed = True
        return frozenset(out)

    def edge_facts(self, node, label):
        """Facts established by taking edge `label` out of test node."""
        if node.kind != "test":
            return set()
        if label in ("true", "false"):
            out = set(test_facts(node.ast.test, label == "true"))
            for alt in self._alias_tests(node):
                out |= test_facts(alt, label == "true")
            return out
        return set()

    def _alias_tests(self, node):
        """A test of a local that is an unmodified snapshot of another variable (`h = self._transport` ; `if h is None`) is
        also a test of that variable, as long as the variable has not been assigned since the snapshot was taken."""
        cache = self.__dict__.setdefault("_alias_cache", {})
        if node in cache:
            return cache[node]
        import copy
        out = []
        test = node.ast.test
        names = sorted(set(n.id for n in ast.walk(test) if isinstance(n, ast.Name) and isinstance(n.ctx, ast.Load)))
        for h in names:
            if h in self.func.params:
                continue
            d = self.unique_def(node, h)
            if d is None or d.kind != "assign" or d.path or d.value is None:
                continue
            src_e = unawait(d.value)
            sk = varkey(src_e)
            if sk is None or not isinstance(src_e, (ast.Attribute, ast.Name)) or sk == h:
                continue
            if self.reaching(node, sk) != self.reaching_out(d.node, sk):
                continue          # the source may have been assigned in between

            class Sub(ast.NodeTransformer):
                def visit_Name(self_, n):
                    if n.id == h and isinstance(n.ctx, ast.Load):
                        return copy.deepcopy(src_e)
                    return n
            out.append(Sub().visit(copy.deepcopy(test)))
        cache[node] = out
        return out

    def _solve_facts(self):
        g = self.g
        TOP = None
        IN = {n: TOP for n in g.nodes}
        IN[g.entry] = frozenset()
        OUTE = {}
        work = [g.entry]
        reached = {g.entry}
        while work:
            n = work.pop(0)
            cur = IN[n]
            killed_vars = set()
            for d in self.node_defs.get(n, []):
                if n is g.entry:
                    break
                killed_vars.add(d.var)
            if killed_vars:
                cur = frozenset(f for f in cur if not _mentions(f, killed_vars))
            for s, l in g.succ[n]:
                out = cur
                if n.kind == "test" and l in ("true", "false"):
                    ef = set(test_facts(n.ast.test, l == "true"))
                    for alt in self._alias_tests(n):
                        ef |= test_facts(alt, l == "true")
                    # a test such as `x := ...` does not occur; facts about variables defined at n itself are fine
                    out = frozenset(set(cur) | ef)
                new = out if IN[s] is TOP else (IN[s] & out)
                if IN[s] is TOP or new != IN[s] or s not in reached:
                    IN[s] = new
                    reached.add(s)
                    if s not in work:
                        work.append(s)
        self._facts_in = IN

    def holds(self, node, expr, polarity=True):
        """Does the truth value `polarity` of expr follow from the must-facts at node (syntactically)?"""
        need = test_facts(expr, polarity)
        have = self.facts(node)
        return bool(need) and need <= have


def _reads_only(node, e):
    """For an assignment statement return only the value side (targets are not reads) - approximate."""
    if isinstance(e, ast.Assign):
        return e.value
    if isinstance(e, ast.AnnAssign):
        return e.value if e.value is not None else ast.Constant(None)
    return e


def _mentions(fact, varset):
    _key, _pol, fvars = fact
    for v in fvars:
        if v in varset:
            return True
        for k in varset:
            if v.startswith(k + ".") or k.startswith(v + "."):
                return True
    return False


def _fact(kind, operands, pol, exprs):
    vs = set()
    for e in exprs:
        vs |= vars_in(e)
    return ((kind,) + tuple(operands), pol, frozenset(vs))


_CONJ = {}      # key of a conjunction -> the fact sets of its conjuncts (for unit propagation when the conjunction is false)


def test_facts(e, pol):
    """Set of atomic facts implied by `e` having truth value `pol`."""
    e = unawait(e)
    if isinstance(e, ast.UnaryOp) and isinstance(e.op, ast.Not):
        return test_facts(e.operand, not pol)
    if isinstance(e, ast.BoolOp):
        if (isinstance(e.op, ast.And) and pol) or (isinstance(e.op, ast.Or) and not pol):
            out = set()
            for v in e.values:
                out |= test_facts(v, pol)
            return out
        if len(e.values) == 1:
            return test_facts(e.values[0], pol)
        if isinstance(e.op, ast.And) and not pol:
            _CONJ[key(e)] = [frozenset(test_facts(v, True)) for v in e.values]
        return {_fact("expr", [key(e)], pol, [e])}
    if isinstance(e, ast.Compare) and len(e.ops) == 1:
        a, b, op = e.left, e.comparators[0], e.ops[0]
        ka, kb = key(a), key(b)
        if isinstance(op, (ast.Eq, ast.NotEq)):
            p = pol if isinstance(op, ast.Eq) else not pol
            x, y = sorted([ka, kb])
            return {_fact("eq", [x, y], p, [a, b])}
        if isinstance(op, (ast.Is, ast.IsNot)):
            p = pol if isinstance(op, ast.Is) else not pol
            x, y = sorted([ka, kb])
            return {_fact("is", [x, y], p, [a, b])}
        if isinstance(op, (ast.In, ast.NotIn)):
            p = pol if isinstance(op, ast.In) else not pol
            return {_fact("in", [ka, kb], p, [a, b])}
        if isinstance(op, ast.Lt):
            return {_fact("lt", [ka, kb], pol, [a, b])}
        if isinstance(op, ast.Gt):
            return {_fact("lt", [kb, ka], pol, [a, b])}
        if isinstance(op, ast.GtE):
            return {_fact("lt", [ka, kb], not pol, [a, b])}
        if isinstance(op, ast.LtE):
            return {_fact("lt", [kb, ka], not pol, [a, b])}
    return {_fact("truthy", [key(e)], pol, [e])}


def fact_eq(a, b, pol=True):
    """Fact 'a == b' (expressions) with polarity."""
    return next(iter(test_facts(ast.Compare(left=a, ops=[ast.Eq()], comparators=[b]), pol)))
