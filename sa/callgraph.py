"""E4 - receiver type inference (0-CFA style, flow-insensitive per function) and the resolved call graph.

Types are strings: a package class qualname ("adb_device.AdbDevice"), "func:<qualname>" for a package function
used as a value, or "ext:<dotted>" for the handful of library objects the rules care about.
"""
import ast
import builtins as _builtins

from .loader import walk_own, walk_expr, AnalysisError

EXT_CTORS = {
    "threading.Lock": "ext:Lock", "asyncio.Lock": "ext:Lock", "threading.RLock": "ext:RLock",
    "asyncio.Queue": "ext:Queue", "queue.Queue": "ext:Queue", "Queue.Queue": "ext:Queue",
    "queue.LifoQueue": "ext:LifoQueue", "asyncio.LifoQueue": "ext:LifoQueue",
    "queue.PriorityQueue": "ext:PriorityQueue", "asyncio.PriorityQueue": "ext:PriorityQueue",
    "queue.SimpleQueue": "ext:Queue",
    "io.BytesIO": "ext:BytesIO",
    "builtins.open": "ext:file", "aiofiles.open": "ext:aiofile",
    "builtins.bytearray": "ext:bytearray", "builtins.bytes": "ext:bytes",
}


class CallSite(object):
    __slots__ = ("func", "node", "callees", "ext", "recv_types", "attr", "unresolved")

    def __init__(self, func, node):
        self.func = func          # enclosing Func
        self.node = node          # ast.Call
        self.callees = []         # package Funcs that may be invoked
        self.ext = None           # dotted external name if known
        self.recv_types = set()
        self.attr = node.func.attr if isinstance(node.func, ast.Attribute) else None
        self.unresolved = False

    def bind(self, callee):
        """Map callee parameter name -> argument expression (positional and keyword; defaults not included)."""
        out = {}
        params = callee.call_params
        if callee.name == "__init__" and callee.is_method:
            params = callee.params[1:]
        for i, a in enumerate(self.node.args):
            if isinstance(a, ast.Starred):
                break
            if i < len(params):
                out[params[i]] = a
        for k in self.node.keywords:
            if k.arg is not None:
                out[k.arg] = k.value
        return out


class CallGraph(object):
    def __init__(self, pkg):
        self.pkg = pkg
        self.var_types = {}      # Func -> {var: set(types)}
        self.attr_types = {}     # class qualname -> {attr: set(types)}
        self.ret_types = {}      # Func -> set(types)
        self.yield_types = {}    # Func -> set(types)
        self.param_types = {}    # Func -> {param: set(types)}
        self.sites = {}          # Func -> [CallSite]
        self.callers = {}        # Func -> [CallSite]
        self._site_by_node = {}
        self._subclasses = {}
        for c in pkg.classes.values():
            for b in pkg.mro(c)[1:]:
                self._subclasses.setdefault(b.qualname, []).append(c)
        self._build()

    # ------------------------------------------------------------------
    def ext_name(self, mod, expr, func=None):
        """Dotted external name of a Name/Attribute expression through the module's imports, or None."""
        parts = []
        e = expr
        while isinstance(e, ast.Attribute):
            parts.append(e.attr)
            e = e.value
        if not isinstance(e, ast.Name):
            return None
        parts.reverse()
        if func is not None and (e.id in func.params or e.id in func.kwonly or e.id in self.var_types.get(func, {})
                                 or e.id in (func.vararg, func.kwarg)):
            return None
        r = self.pkg.resolve_import(mod, e.id)
        if r is None:
            if e.id in mod.assigns or e.id in mod.classes or e.id in mod.funcs:
                return None
            if not hasattr(_builtins, e.id):
                return None
            return ".".join(["builtins", e.id] + parts)
        if r[0] == "ext":
            return ".".join([r[1]] + parts)
        return None

    def _class_of_name(self, mod, name):
        if name in mod.classes:
            return mod.classes[name]
        r = self.pkg.resolve_import(mod, name)
        if r and r[0] == "pkgattr":
            return r[1].classes.get(r[2])
        return None

    def _func_of_name(self, mod, name):
        if name in mod.funcs:
            return mod.funcs[name]
        r = self.pkg.resolve_import(mod, name)
        if r and r[0] == "pkgattr":
            return r[1].funcs.get(r[2])
        return None

    def methods_for(self, cls, name):
        """Methods that `obj.name` may denote when obj's static type is cls (incl. overrides in subclasses)."""
        out = []
        m = self.pkg.find_method(cls, name)
        if m is not None:
            out.append(m)
        for sc in self._subclasses.get(cls.qualname, []):
            if name in sc.methods and sc.methods[name] not in out:
                out.append(sc.methods[name])
        return out

    # ------------------------------------------------------------------
    def expr_types(self, func, e):
        mod = func.mod
        vt = self.var_types.setdefault(func, {})
        if isinstance(e, ast.Await):
            return self.expr_types(func, e.value)
        if isinstance(e, ast.Name):
            t = set(vt.get(e.id, ()))
            if not t:
                c = self._class_of_name(mod, e.id)
                f = self._func_of_name(mod, e.id)
                if f is not None and c is None:
                    t.add("func:" + f.qualname)
                if c is None and f is None and e.id not in func.params:
                    x = self.ext_name(mod, e, func)
                    if x in EXT_CTORS:
                        t.add("extfunc:" + x)
            return t
        if isinstance(e, ast.Attribute):
            out = set()
            x = self.ext_name(mod, e, func)
            if x in EXT_CTORS:
                return {"extfunc:" + x}
            for bt in self.expr_types(func, e.value):
                cls = self.pkg.classes.get(bt)
                if cls is not None:
                    for c in self.pkg.mro(cls):
                        out |= self.attr_types.get(c.qualname, {}).get(e.attr, set())
            return out
        if isinstance(e, ast.IfExp):
            return self.expr_types(func, e.body) | self.expr_types(func, e.orelse)
        if isinstance(e, ast.BoolOp):
            out = set()
            for v in e.values:
                out |= self.expr_types(func, v)
            return out
        if isinstance(e, ast.NamedExpr):
            return self.expr_types(func, e.value)
        if isinstance(e, ast.Call):
            out = set()
            f = e.func
            if isinstance(f, ast.Name):
                c = self._class_of_name(mod, f.id)
                if c is not None:
                    return {c.qualname}
                if f.id == "cls" and func.cls is not None and "classmethod" in func.decorators:
                    return {func.cls.qualname}
                pf = self._func_of_name(mod, f.id)
                if pf is not None and f.id not in vt:
                    return self._call_result(pf)
                for t in vt.get(f.id, ()):
                    if t.startswith("func:"):
                        out |= self._call_result(self.pkg.funcs[t[5:]])
                    elif t.startswith("extfunc:"):
                        out.add(EXT_CTORS[t[8:]])
                if out:
                    return out
            x = self.ext_name(mod, f, func) if isinstance(f, (ast.Name, ast.Attribute)) else None
            if x in EXT_CTORS and not (isinstance(f, ast.Name) and f.id in vt):
                return {EXT_CTORS[x]}
            if isinstance(f, ast.Attribute):
                for bt in self.expr_types(func, f.value):
                    cls = self.pkg.classes.get(bt)
                    if cls is not None:
                        for m in self.methods_for(cls, f.attr):
                            out |= self._call_result(m)
            return out
        return set()

    def _call_result(self, pf):
        if "contextmanager" in pf.decorators or "asynccontextmanager" in pf.decorators:
            return {"ctx:" + pf.qualname}
        return set(self.ret_types.get(pf, ()))

    def with_target_types(self, func, ctx_expr):
        out = set()
        for t in self.expr_types(func, ctx_expr):
            if t.startswith("ctx:"):
                out |= self.yield_types.get(self.pkg.funcs[t[4:]], set())
            else:
                out.add(t)     # Lock, file, aiofile: the object itself (good enough for the rules)
        return out

    # ------------------------------------------------------------------
    def _build(self):
        pkg = self.pkg
        funcs = list(pkg.funcs.values())
        for f in funcs:
            vt = self.var_types.setdefault(f, {})
            if f.is_method and f.params and "staticmethod" not in f.decorators:
                if "classmethod" not in f.decorators:
                    vt[f.params[0]] = {f.cls.qualname}
            self.param_types[f] = {}
            self.ret_types[f] = set()
            self.yield_types[f] = set()
        changed = True
        rounds = 0
        while changed and rounds < 12:
            rounds += 1
            changed = False
            for f in funcs:
                vt = self.var_types[f]

                def add(var, types):
                    nonlocal changed
                    if not types:
                        return
                    s = vt.setdefault(var, set())
                    if not types <= s:
                        s |= types
                        changed = True

                for p, ts in self.param_types[f].items():
                    add(p, ts)
                for n in walk_own(f.node):
                    if isinstance(n, ast.Assign):
                        ts = self.expr_types(f, n.value)
                        for t in n.targets:
                            self._assign(f, t, ts, add)
                    elif isinstance(n, ast.AnnAssign) and n.value is not None:
                        self._assign(f, n.target, self.expr_types(f, n.value), add)
                    elif isinstance(n, (ast.With, ast.AsyncWith)):
                        for item in n.items:
                            if item.optional_vars is not None:
                                self._assign(f, item.optional_vars, self.with_target_types(f, item.context_expr), add)
                    elif isinstance(n, ast.Return) and n.value is not None:
                        ts = self.expr_types(f, n.value)
                        if not ts <= self.ret_types[f]:
                            self.ret_types[f] |= ts
                            changed = True
                    elif isinstance(n, ast.Yield) and n.value is not None:
                        ts = self.expr_types(f, n.value)
                        if not ts <= self.yield_types[f]:
                            self.yield_types[f] |= ts
                            changed = True
                    elif isinstance(n, ast.Call):
                        # isinstance(x, C) evidence
                        if isinstance(n.func, ast.Name) and n.func.id == "isinstance" and len(n.args) == 2 and isinstance(n.args[0], ast.Name):
                            cands = n.args[1].elts if isinstance(n.args[1], ast.Tuple) else [n.args[1]]
                            for c in cands:
                                if isinstance(c, ast.Name):
                                    k = self._class_of_name(f.mod, c.id)
                                    if k is not None:
                                        add(n.args[0].id, {k.qualname})
                                    else:
                                        x = self.ext_name(f.mod, c, f)
                                        if x in EXT_CTORS:
                                            add(n.args[0].id, {EXT_CTORS[x]})
                        # propagate argument types into callee parameters
                        for callee in self._resolve(f, n)[0]:
                            site = CallSite(f, n)
                            for pname, arg in site.bind(callee).items():
                                ts = self.expr_types(f, arg)
                                if ts:
                                    s = self.param_types[callee].setdefault(pname, set())
                                    if not ts <= s:
                                        s |= ts
                                        changed = True
        # final call sites
        for f in funcs:
            self.sites[f] = []
        for f in funcs:
            for n in walk_own(f.node):
                if isinstance(n, ast.Call):
                    callees, ext, recv, unresolved = self._resolve(f, n)
                    cs = CallSite(f, n)
                    cs.callees = callees
                    cs.ext = ext
                    cs.recv_types = recv
                    cs.unresolved = unresolved
                    self.sites[f].append(cs)
                    self._site_by_node[id(n)] = cs
                    for c in callees:
                        self.callers.setdefault(c, []).append(cs)

    def _assign(self, f, target, types, add):
        if isinstance(target, ast.Name):
            add(target.id, types)
        elif isinstance(target, ast.Attribute):
            for bt in self.expr_types(f, target.value):
                if bt in self.pkg.classes and types:
                    s = self.attr_types.setdefault(bt, {}).setdefault(target.attr, set())
                    if not types <= s:
                        s |= types
                        # attr types changed: force another round via add() on a dummy
                        add("\0attr", {"%s.%s:%d" % (bt, target.attr, len(s))})

    def _resolve(self, func, call):
        """-> (callees, ext dotted name, receiver types, unresolved flag)"""
        mod = func.mod
        f = call.func
        vt = self.var_types.get(func, {})
        if isinstance(f, ast.Name):
            if f.id in vt and f.id not in mod.classes and f.id not in mod.funcs:
                out = []
                ext = None
                for t in vt[f.id]:
                    if t.startswith("func:"):
                        out.append(self.pkg.funcs[t[5:]])
                    elif t.startswith("extfunc:"):
                        ext = t[8:]
                return out, ext, set(), not out and ext is None
            c = self._class_of_name(mod, f.id)
            if c is not None:
                init = self.pkg.find_method(c, "__init__")
                return ([init] if init else []), None, set(), False
            if f.id == "cls" and func.cls is not None and "classmethod" in func.decorators:
                init = self.pkg.find_method(func.cls, "__init__")
                return ([init] if init else []), None, set(), False
            pf = self._func_of_name(mod, f.id)
            if pf is not None:
                return [pf], None, set(), False
            if f.id in func.params or f.id in vt:
                return [], None, set(), True
            x = self.ext_name(mod, f, func)
            return [], x, set(), x is None
        if isinstance(f, ast.Attribute):
            # super(...).m(...)
            if isinstance(f.value, ast.Call) and isinstance(f.value.func, ast.Name) and f.value.func.id == "super" and func.cls is not None:
                for c in self.pkg.mro(func.cls)[1:]:
                    if f.attr in c.methods:
                        return [c.methods[f.attr]], None, {c.qualname}, False
                return [], "super." + f.attr, set(), False
            # module function: constants.x(...) / os.path.join(...)
            if isinstance(f.value, ast.Name) and f.value.id not in vt and f.value.id not in func.params:
                r = self.pkg.resolve_import(mod, f.value.id)
                if r and r[0] == "pkgmod":
                    pf = r[1].funcs.get(f.attr)
                    c = r[1].classes.get(f.attr)
                    if pf is not None:
                        return [pf], None, set(), False
                    if c is not None:
                        init = self.pkg.find_method(c, "__init__")
                        return ([init] if init else []), None, set(), False
                c = self._class_of_name(mod, f.value.id)
                if c is not None:     # Class.method(...)
                    m = self.pkg.find_method(c, f.attr)
                    return ([m] if m else []), None, {c.qualname}, m is None
            x = self.ext_name(mod, f, func)
            if x is not None:
                return [], x, set(), False
            recv = self.expr_types(func, f.value)
            out = []
            for bt in recv:
                cls = self.pkg.classes.get(bt)
                if cls is not None:
                    for m in self.methods_for(cls, f.attr):
                        if m not in out:
                            out.append(m)
            return out, None, recv, not recv
        return [], None, set(), True

    # ------------------------------------------------------------------
    def site(self, call_node):
        return self._site_by_node.get(id(call_node))

    def callers_of(self, func):
        return self.callers.get(func, [])

    def reachable(self, roots, stop=()):
        """Transitive callees of roots (Funcs)."""
        seen = set()
        stack = list(roots)
        while stack:
            f = stack.pop()
            if f in seen or f in stop:
                continue
            seen.add(f)
            for cs in self.sites.get(f, []):
                stack.extend(cs.callees)
        return seen

    def stats(self):
        total = unresolved = 0
        for f, sites in self.sites.items():
            for cs in sites:
                total += 1
                if cs.unresolved:
                    unresolved += 1
        return total, unresolved
