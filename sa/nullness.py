"""Never-None inference over the parsed package (no execution): which results, parameters and queue elements cannot be None.

Used by the canonicaliser to see through the "value or None" plumbing of extracted helpers (`data = self._read_payload(..)` / `if data is None:`):
the test `v is None` after `v = E` is decided when E provably is not None.  The facts are the greatest fixpoint of a flow-insensitive system:

  ret[(class|None, function)]      indices of the returned tuple display (or "*" for the whole value) that are never None on any return
  param[(class|None, function, p)] parameter p of a PRIVATE function/method receives a never-None argument at every call site of the package
                                   (closed world for names starting with an underscore; one unresolved call that could reach it voids the fact)
  queue[(class, attribute)]        indices of the tuples put into the queues reachable from self.<attribute> that are never None

An expression is never None when it is a literal other than None, a display, arithmetic / comparison / formatting, a slice, a call of a
value-producing builtin or of a function whose result is never None, an element taken from a never-None position, or a local all of whose
assignments are never None.  Anything else (attributes, unknown calls, parameters of public functions, loop variables) may be None.
The greatest fixpoint is sound: a first None at a position claimed never-None would have to come out of an expression that is never None
as long as all earlier results were - a contradiction."""
import ast

NN_BUILTINS = {"bytes", "bytearray", "len", "int", "str", "list", "tuple", "dict", "set", "frozenset", "sum", "min", "max", "sorted", "bool", "float", "repr", "hex", "abs",
               "isinstance", "range", "enumerate", "zip", "reversed", "divmod", "round", "ord", "chr", "memoryview", "object", "hasattr", "callable", "id", "hash", "format"}
NN_METHODS = {"decode", "encode", "join", "format", "strip", "lstrip", "rstrip", "lower", "upper", "split", "rsplit", "replace", "zfill", "hex", "to_bytes", "startswith", "endswith",
              "copy", "keys", "values", "items", "count", "index", "find", "read", "recv", "fileno", "getbuffer", "tobytes", "digest", "hexdigest", "time", "calcsize", "pack", "unpack", "unpack_from"}
# (`find` of str/bytes returns an int; package classes defining a method of one of these names are looked up first)


def _unawait(e):
    return e.value if isinstance(e, ast.Await) else e


class Nullness(object):
    def __init__(self, trees):
        self.trees = trees
        self.classes = {}       # class name -> (ClassDef, modname)   (unique names)
        self.funcs = {}         # module-level function name -> [FunctionDef, ...]  (all definitions: sync and async twins may share names)
        self.methods = {}       # (class, method) -> FunctionDef
        self.attrtypes = {}     # (class, attr) -> class name, when every assignment of self.attr in the class is K(...)
        cseen = {}
        for modname, t in trees.items():
            for st in t.body:
                if isinstance(st, ast.ClassDef):
                    cseen[st.name] = cseen.get(st.name, 0) + 1
        for modname, t in trees.items():
            for st in t.body:
                if isinstance(st, ast.ClassDef) and cseen[st.name] == 1:
                    self.classes[st.name] = (st, modname)
                    for m in st.body:
                        if isinstance(m, (ast.FunctionDef, ast.AsyncFunctionDef)) and (st.name, m.name) not in self.methods:
                            self.methods[(st.name, m.name)] = m
                elif isinstance(st, (ast.FunctionDef, ast.AsyncFunctionDef)):
                    self.funcs.setdefault(st.name, []).append(st)
        for cname, (cdef, _m) in self.classes.items():
            seen = {}
            for m in cdef.body:
                if isinstance(m, (ast.FunctionDef, ast.AsyncFunctionDef)) and m.args.args:
                    selfn = m.args.args[0].arg
                    for n in ast.walk(m):
                        if isinstance(n, ast.Attribute) and isinstance(n.ctx, (ast.Store, ast.Del)) and isinstance(n.value, ast.Name) and n.value.id == selfn:
                            seen.setdefault(n.attr, set())
                        if isinstance(n, ast.Assign):
                            for tg in n.targets:
                                if isinstance(tg, ast.Attribute) and isinstance(tg.value, ast.Name) and tg.value.id == selfn:
                                    v = n.value
                                    k = v.func.id if isinstance(v, ast.Call) and isinstance(v.func, ast.Name) and v.func.id in cseen and cseen[v.func.id] == 1 else None
                                    seen.setdefault(tg.attr, set()).add(k if len(n.targets) == 1 else None)
                                elif any(isinstance(x, ast.Attribute) and isinstance(x.value, ast.Name) and x.value.id == selfn and isinstance(x.ctx, ast.Store) for x in ast.walk(tg)):
                                    for x in ast.walk(tg):
                                        if isinstance(x, ast.Attribute) and isinstance(x.value, ast.Name) and x.value.id == selfn and isinstance(x.ctx, ast.Store):
                                            seen.setdefault(x.attr, set()).add(None)
                        elif isinstance(n, (ast.AugAssign, ast.AnnAssign, ast.For, ast.AsyncFor, ast.With, ast.AsyncWith, ast.Delete)):
                            for x in ast.walk(n.target if isinstance(n, (ast.AugAssign, ast.AnnAssign, ast.For, ast.AsyncFor)) else n):
                                if isinstance(x, ast.Attribute) and isinstance(x.ctx, (ast.Store, ast.Del)) and isinstance(x.value, ast.Name) and x.value.id == selfn:
                                    seen.setdefault(x.attr, set()).add(None)
            for a, ks in seen.items():
                if len(ks) == 1 and None not in ks:
                    self.attrtypes[(cname, a)] = next(iter(ks))
        self.ret = {}
        self.param = {}
        self.queue = {}
        self._solve()

    # -- scopes ---------------------------------------------------------------------------------------------------------------
    def _all_functions(self):
        for cname, (cdef, _m) in self.classes.items():
            for m in cdef.body:
                if isinstance(m, (ast.FunctionDef, ast.AsyncFunctionDef)):
                    yield cname, m
        for name, defs in self.funcs.items():
            for d in defs:
                yield None, d

    @staticmethod
    def _own_nodes(fn):
        stack = list(reversed(fn.body))
        while stack:
            n = stack.pop()
            yield n
            if isinstance(n, (ast.FunctionDef, ast.AsyncFunctionDef, ast.ClassDef, ast.Lambda)):
                continue
            stack.extend(reversed(list(ast.iter_child_nodes(n))))

    def local_assigns(self, fn):
        """name -> list of (value expr, index | None | "aug" | "?")"""
        out = {}
        for n in self._own_nodes(fn):
            if isinstance(n, ast.Assign):
                for tg in n.targets:
                    if isinstance(tg, ast.Name):
                        out.setdefault(tg.id, []).append((n.value, None))
                    elif isinstance(tg, (ast.Tuple, ast.List)):
                        for k, e in enumerate(tg.elts):
                            if isinstance(e, ast.Name):
                                out.setdefault(e.id, []).append((n.value, k if not any(isinstance(x, ast.Starred) for x in tg.elts) else "?"))
                            else:
                                for x in ast.walk(e):
                                    if isinstance(x, ast.Name) and isinstance(x.ctx, ast.Store):
                                        out.setdefault(x.id, []).append((n.value, "?"))
            elif isinstance(n, ast.AugAssign) and isinstance(n.target, ast.Name):
                out.setdefault(n.target.id, []).append((n.value, "aug"))
            elif isinstance(n, ast.AnnAssign) and isinstance(n.target, ast.Name):
                out.setdefault(n.target.id, []).append((n.value, None if n.value is not None else "?"))
            elif isinstance(n, (ast.For, ast.AsyncFor, ast.comprehension)):
                for x in ast.walk(n.target):
                    if isinstance(x, ast.Name):
                        out.setdefault(x.id, []).append((None, "?"))
            elif isinstance(n, (ast.With, ast.AsyncWith)):
                for it in n.items:
                    if it.optional_vars is not None:
                        for x in ast.walk(it.optional_vars):
                            if isinstance(x, ast.Name):
                                out.setdefault(x.id, []).append((None, "?"))
            elif isinstance(n, ast.ExceptHandler) and n.name:
                out.setdefault(n.name, []).append((None, "exc"))
            elif isinstance(n, ast.NamedExpr) and isinstance(n.target, ast.Name):
                out.setdefault(n.target.id, []).append((n.value, None))
            elif isinstance(n, (ast.Import, ast.ImportFrom)):
                for a in n.names:
                    out.setdefault((a.asname or a.name).split(".")[0], []).append((None, "exc"))
            elif isinstance(n, (ast.Global, ast.Nonlocal)):
                for nm in n.names:
                    out.setdefault(nm, []).append((None, "?"))
            elif isinstance(n, ast.Delete):
                for tg in n.targets:
                    if isinstance(tg, ast.Name):
                        out.setdefault(tg.id, []).append((None, "?"))
        return out

    # -- resolution -------------------------------------------------------------------------------------------------------------
    def callee(self, call, cls, fn):
        """-> list of (class|None, function name) the call may invoke (all known), or None when unknown"""
        f = call.func
        selfn = fn.args.args[0].arg if (cls is not None and fn.args.args and not any(isinstance(d, ast.Name) and d.id == "staticmethod" for d in fn.decorator_list)) else None
        if isinstance(f, ast.Attribute):
            r = f.value
            if isinstance(r, ast.Name) and selfn is not None and r.id == selfn:
                return self._virtual(cls, f.attr)
            if isinstance(r, ast.Attribute) and isinstance(r.value, ast.Name) and selfn is not None and r.value.id == selfn and (cls, r.attr) in self.attrtypes:
                return self._virtual(self.attrtypes[(cls, r.attr)], f.attr)
            if isinstance(r, ast.Name) and r.id in self.classes and (r.id, f.attr) in self.methods:
                return [(r.id, f.attr)]
            return None
        if isinstance(f, ast.Name):
            if f.id in self.funcs:
                return [(None, f.id)]
        return None

    def _virtual(self, cls, m):
        """the definitions `obj.m()` may reach when obj is an instance of cls or of one of its subclasses in the package (None: not defined / unknown base)"""
        out = []
        # the class's own definition or the nearest inherited one
        c, hops = cls, 0
        while c is not None and hops < 8:
            if (c, m) in self.methods:
                out.append((c, m))
                break
            cdef = self.classes.get(c)
            bases = [b.id for b in cdef[0].bases if isinstance(b, ast.Name)] if cdef else []
            if cdef is None or len(cdef[0].bases) != len(bases) or len(bases) > 1:
                return None
            c = bases[0] if bases and bases[0] != "object" else None
            if c is not None and c not in self.classes:
                return None
            hops += 1
        if not out:
            return None
        # overrides in subclasses
        for k, (kdef, _mod) in self.classes.items():
            if k != out[0][0] and (k, m) in self.methods and self._derives(k, cls):
                out.append((k, m))
        return out

    def _derives(self, k, base, depth=0):
        if k == base:
            return True
        kdef = self.classes.get(k)
        if kdef is None or depth > 8:
            return False
        return any(isinstance(b, ast.Name) and self._derives(b.id, base, depth + 1) for b in kdef[0].bases)

    # -- the predicate -----------------------------------------------------------------------------------------------------------
    def nn(self, e, cls, fn, assigns=None, busy=None, nonnull_consts=()):
        """expression e, evaluated in function fn of class cls, is never None"""
        e = _unawait(e)
        if assigns is None:
            assigns = self.local_assigns(fn)
        busy = busy if busy is not None else set()
        rec = lambda x: self.nn(x, cls, fn, assigns, busy, nonnull_consts)
        if isinstance(e, ast.Constant):
            return e.value is not None
        if isinstance(e, (ast.Tuple, ast.List, ast.Dict, ast.Set, ast.ListComp, ast.SetComp, ast.DictComp, ast.GeneratorExp, ast.JoinedStr, ast.BinOp, ast.Compare, ast.Lambda)):
            return True
        if isinstance(e, ast.UnaryOp):
            return True
        if isinstance(e, ast.BoolOp):
            return all(rec(v) for v in e.values)
        if isinstance(e, ast.IfExp):
            return rec(e.body) and rec(e.orelse)
        if isinstance(e, ast.Subscript):
            if isinstance(e.slice, ast.Slice):
                return True
            if isinstance(e.slice, ast.Constant) and isinstance(e.slice.value, int) and e.slice.value >= 0:
                return self._elem_nn(e.value, e.slice.value, cls, fn, assigns, busy, nonnull_consts)
            return False
        if isinstance(e, ast.Call):
            return self._call_nn(e, None, cls, fn, assigns, busy, nonnull_consts)
        if isinstance(e, ast.Name):
            if e.id in ("True", "False"):
                return True
            params = [a.arg for a in fn.args.posonlyargs + fn.args.args + fn.args.kwonlyargs]
            vals = assigns.get(e.id, [])
            if e.id in params:
                if not self.param.get((cls, fn.name, e.id), False):
                    return False
            elif not vals:
                return False
            key = ("n", e.id)
            if key in busy:
                return True
            busy.add(key)
            try:
                for v, idx in vals:
                    if idx in ("aug", "exc"):
                        continue
                    if idx == "?" or v is None:
                        return False
                    if idx is None:
                        if not rec(v):
                            return False
                    elif not self._elem_nn(v, idx, cls, fn, assigns, busy, nonnull_consts):
                        return False
                return True
            finally:
                busy.discard(key)
        if isinstance(e, ast.Attribute):
            return ast.dump(e) in nonnull_consts
        return False

    def _call_nn(self, c, idx, cls, fn, assigns, busy, nonnull_consts):
        """the call's result (idx None) / element idx of its result is never None"""
        c = _unawait(c)
        if not isinstance(c, ast.Call):
            return False
        cal = self.callee(c, cls, fn)
        if cal is not None:
            for key in cal:
                r = self.ret.get(key, set())
                if not (("*" in r and idx is None) or (idx is not None and idx in r) or (idx is None and r and "*" not in r and all(isinstance(i, int) for i in r) and ("tuple" in self._shape.get(key, ())))):
                    if idx is None and "tuple" in self._shape.get(key, ()):
                        continue        # returns a tuple display: the value itself is not None
                    return False
            return True
        f = c.func
        if isinstance(f, ast.Name):
            if f.id in self.classes:
                return idx is None
            if f.id in NN_BUILTINS and f.id not in assigns and idx is None:
                return True
            return False
        if isinstance(f, ast.Attribute):
            if f.attr in ("get_nowait", "get") and not c.args and not c.keywords:
                root = self._queue_root(f.value, cls, fn, assigns)
                if root is not None:
                    q = self.queue.get((cls, root), set())
                    return (idx in q) if idx is not None else ("*" in q or "tuple" in q)
                return False
            if f.attr in NN_METHODS and idx is None and not any((k, f.attr) in self.methods for k in self.classes):
                return True
        return False

    def _elem_nn(self, base, idx, cls, fn, assigns, busy, nonnull_consts):
        base = _unawait(base)
        if isinstance(base, (ast.Tuple, ast.List)) and not any(isinstance(x, ast.Starred) for x in base.elts):
            return idx < len(base.elts) and self.nn(base.elts[idx], cls, fn, assigns, busy, nonnull_consts)
        if isinstance(base, ast.Call):
            f = base.func
            if isinstance(f, ast.Attribute) and f.attr in ("unpack", "unpack_from") and isinstance(f.value, ast.Name) and f.value.id == "struct":
                return True
            return self._call_nn(base, idx, cls, fn, assigns, busy, nonnull_consts)
        if isinstance(base, ast.Name):
            # a local bound once to a call / display: its elements
            vals = assigns.get(base.id, [])
            params = [a.arg for a in fn.args.posonlyargs + fn.args.args + fn.args.kwonlyargs]
            if base.id in params or not vals:
                return False
            key = ("e", base.id, idx)
            if key in busy:
                return True
            busy.add(key)
            try:
                return all(i is None and v is not None and self._elem_nn(v, idx, cls, fn, assigns, busy, nonnull_consts) for v, i in vals)
            finally:
                busy.discard(key)
        return False

    def _queue_root(self, e, cls, fn, assigns, depth=0):
        """the attribute of self an expression is reached from through subscripts / dict look-ups (`self._dict[a][b]` -> "_dict"); None if unknown"""
        if cls is None or depth > 6 or not fn.args.args:
            return None
        selfn = fn.args.args[0].arg
        e = _unawait(e)
        if isinstance(e, ast.Attribute) and isinstance(e.value, ast.Name) and e.value.id == selfn:
            return e.attr
        if isinstance(e, ast.Subscript):
            return self._queue_root(e.value, cls, fn, assigns, depth + 1)
        if isinstance(e, ast.Call) and isinstance(e.func, ast.Attribute) and e.func.attr in ("get", "setdefault", "pop"):
            return self._queue_root(e.func.value, cls, fn, assigns, depth + 1)
        if isinstance(e, ast.Name):
            vals = assigns.get(e.id, [])
            roots = set()
            for v, i in vals:
                if i is None and v is not None:
                    roots.add(self._queue_root(v, cls, fn, assigns, depth + 1))
                elif i == "?" and v is None:
                    # a loop variable over self.<attr>.values() / .items(): find the loop
                    roots.add(self._loop_root(e.id, cls, fn, assigns, depth + 1))
                else:
                    roots.add(None)
            if len(roots) == 1:
                return next(iter(roots))
        return None

    def _loop_root(self, name, cls, fn, assigns, depth):
        for n in self._own_nodes(fn):
            if isinstance(n, (ast.For, ast.AsyncFor, ast.comprehension)) and any(isinstance(x, ast.Name) and x.id == name for x in ast.walk(n.target)):
                it = n.iter
                if isinstance(it, ast.Call) and isinstance(it.func, ast.Attribute) and it.func.attr in ("values", "items") and not it.args:
                    return self._queue_root(it.func.value, cls, fn, assigns, depth + 1)
                return self._queue_root(it, cls, fn, assigns, depth + 1)
        return None

    # -- fixpoint ------------------------------------------------------------------------------------------------------------------
    def _solve(self):
        fns = list(self._all_functions())
        self._shape = {}
        rets = {}
        for cls, fn in fns:
            key = (cls, fn.name)
            if any(isinstance(n, (ast.Yield, ast.YieldFrom)) for n in self._own_nodes(fn)):
                continue
            rs = [n for n in self._own_nodes(fn) if isinstance(n, ast.Return)]
            vals = [_unawait(r.value) if r.value is not None else None for r in rs]
            falls = not self._never_falls_off(fn.body)
            rets.setdefault(key, []).append((fn, vals, falls))
        # optimistic start
        for key, lst in rets.items():
            shapes = set()
            idxs = None
            for fn, vals, falls in lst:
                if falls or not vals or any(v is None for v in vals):
                    shapes.add("none")
                    continue
                ar = set(len(v.elts) if isinstance(v, ast.Tuple) and not any(isinstance(x, ast.Starred) for x in v.elts) else None for v in vals)
                if len(ar) == 1 and None not in ar:
                    shapes.add("tuple")
                    n = next(iter(ar))
                    idxs = set(range(n)) if idxs is None else (idxs & set(range(n)))
                else:
                    shapes.add("value")
            if shapes == {"tuple"}:
                self.ret[key] = set(idxs or ())
                self._shape[key] = ("tuple",)
            elif "none" not in shapes:
                self.ret[key] = {"*"}
                self._shape[key] = ("value",)
            else:
                self.ret[key] = set()
                self._shape[key] = ("none",)
        # parameters of private functions / methods of private classes: optimistic
        sites = self._call_sites(fns)
        for cls, fn in fns:
            private = fn.name.startswith("_") and not (fn.name.startswith("__") and fn.name.endswith("__")) or (cls is not None and cls.startswith("_") and not (fn.name.startswith("__") and fn.name.endswith("__")))
            if not private or fn.args.vararg or fn.args.kwarg:
                continue
            for a in fn.args.posonlyargs + fn.args.args + fn.args.kwonlyargs:
                self.param[(cls, fn.name, a.arg)] = True
        for name in self._unresolved_names:
            for (c, f, p) in list(self.param):
                if f == name:
                    self.param[(c, f, p)] = False
        # queue elements: optimistic for every (class, attr) that has at least one put
        puts = {}
        for cls, fn in fns:
            if cls is None:
                continue
            asg = self.local_assigns(fn)
            for n in self._own_nodes(fn):
                if isinstance(n, ast.Call) and isinstance(n.func, ast.Attribute) and n.func.attr in ("put_nowait", "put") and len(n.args) == 1 and not n.keywords \
                        and self.callee(n, cls, fn) is None:
                    root = self._queue_root(n.func.value, cls, fn, asg)
                    puts.setdefault((cls, root), []).append((fn, n.args[0], asg))
        for (cls, root), lst in puts.items():
            if root is None:
                # a put whose container is unknown: no queue fact for this class
                for k in [k for k in puts if k[0] == cls]:
                    self.queue[k] = set()
                continue
        for (cls, root), lst in puts.items():
            if root is None or (cls, root) in self.queue:
                continue
            ar = set(len(a.elts) if isinstance(a, ast.Tuple) and not any(isinstance(x, ast.Starred) for x in a.elts) else None for _f, a, _g in lst)
            self.queue[(cls, root)] = (set(range(next(iter(ar)))) | {"tuple"}) if (len(ar) == 1 and None not in ar) else set()
        self._puts = puts
        # iterate downwards
        for _round in range(12):
            changed = False
            for key, lst in rets.items():
                cur = self.ret[key]
                if not cur:
                    continue
                new = set(cur)
                for fn, vals, falls in lst:
                    asg = self.local_assigns(fn)
                    for v in vals:
                        if "*" in new:
                            if not (self.nn(v, key[0], fn, asg) or self._guarded(fn, v, v)):
                                new.discard("*")
                        for i in [i for i in new if isinstance(i, int)]:
                            if not (isinstance(v, ast.Tuple) and i < len(v.elts) and (self.nn(v.elts[i], key[0], fn, asg) or self._guarded(fn, v, v.elts[i]))):
                                new.discard(i)
                if new != cur:
                    self.ret[key] = new
                    changed = True
            for (cls, fname, p), ok in list(self.param.items()):
                if not ok:
                    continue
                good = True
                for (ccls, cfn, call, asg) in sites.get((cls, fname), []):
                    arg = self._bound_arg(call, self.methods.get((cls, fname)) if cls is not None else None, cls, fname, p)
                    if arg == "default":
                        d = self._default_of(cls, fname, p)
                        if d is None or not (isinstance(d, ast.Constant) and d.value is not None):
                            good = False
                    elif arg is None or not self.nn(arg, ccls, cfn, asg):
                        good = False
                    if not good:
                        break
                if not sites.get((cls, fname)):
                    good = False           # never called inside the package: nothing is known about its arguments
                if not good:
                    self.param[(cls, fname, p)] = False
                    changed = True
            for (cls, root), lst in puts.items():
                cur = self.queue.get((cls, root), set())
                if not cur:
                    continue
                new = set(cur)
                for fn, a, asg in lst:
                    for i in [i for i in new if isinstance(i, int)]:
                        if not (isinstance(a, ast.Tuple) and i < len(a.elts) and self.nn(a.elts[i], cls, fn, asg)):
                            new.discard(i)
                if new != cur:
                    self.queue[(cls, root)] = new
                    changed = True
            if not changed:
                break

    def _guarded(self, fn, ret_value, e):
        """e is a plain name and, on the straight-line way down to the `return` whose value is ret_value, a test `if not e: raise ..` /
        `if e is None: raise ..` (no else) comes after the last binding of e: the return is reached with e not None"""
        if not isinstance(e, ast.Name):
            return False

        def find(block, prefix):
            for k, st in enumerate(block):
                if isinstance(st, ast.Return) and st.value is not None and (_unawait(st.value) is ret_value):
                    return prefix + list(block[:k])
                if isinstance(st, (ast.FunctionDef, ast.AsyncFunctionDef, ast.ClassDef)):
                    continue
                for fld in ("body", "orelse", "finalbody"):
                    b = getattr(st, fld, None)
                    if isinstance(b, list) and b and isinstance(b[0], ast.stmt):
                        r = find(b, prefix + list(block[:k]))
                        if r is not None:
                            return r
                for h in getattr(st, "handlers", []) or []:
                    r = find(h.body, prefix + list(block[:k]))
                    if r is not None:
                        return r
            return None
        pre = find(fn.body, [])
        if pre is None:
            return False
        for st in reversed(pre):
            if isinstance(st, ast.If) and not st.orelse and st.body and isinstance(st.body[-1], (ast.Raise, ast.Return)):
                t = st.test
                if isinstance(t, ast.UnaryOp) and isinstance(t.op, ast.Not) and isinstance(t.operand, ast.Name) and t.operand.id == e.id:
                    return True
                if isinstance(t, ast.Compare) and len(t.ops) == 1 and isinstance(t.ops[0], (ast.Is, ast.Eq)) and isinstance(t.left, ast.Name) and t.left.id == e.id \
                        and isinstance(t.comparators[0], ast.Constant) and t.comparators[0].value is None:
                    return True
            if any(isinstance(n, ast.Name) and n.id == e.id and isinstance(n.ctx, (ast.Store, ast.Del)) for n in ast.walk(st)):
                return False
        return False

    @staticmethod
    def _never_falls_off(body):
        def exits(stmts):
            for st in stmts:
                if isinstance(st, (ast.Return, ast.Raise)):
                    return True
                if isinstance(st, ast.If) and st.orelse and exits(st.body) and exits(st.orelse):
                    return True
                if isinstance(st, (ast.With, ast.AsyncWith)) and exits(st.body):
                    return True
                if isinstance(st, ast.While) and isinstance(st.test, ast.Constant) and st.test.value is True and not st.orelse \
                        and not any(isinstance(n, ast.Break) for n in Nullness._loop_own(st)):
                    return True
                if isinstance(st, ast.Try) and not st.finalbody and exits(st.body + st.orelse) and all(exits(h.body) for h in st.handlers):
                    return True
                if isinstance(st, ast.Try) and st.finalbody and exits(st.finalbody):
                    return True
            return False
        return exits(body)

    @staticmethod
    def _loop_own(lp):
        stack = list(lp.body)
        while stack:
            n = stack.pop()
            yield n
            if isinstance(n, (ast.While, ast.For, ast.AsyncFor, ast.FunctionDef, ast.AsyncFunctionDef, ast.ClassDef, ast.Lambda)):
                continue
            stack.extend(ast.iter_child_nodes(n))

    def _call_sites(self, fns):
        sites = {}
        self._unresolved_names = set()
        for cls, fn in fns:
            asg = self.local_assigns(fn)
            for n in ast.walk(fn):
                if isinstance(n, ast.Call):
                    cal = self.callee(n, cls, fn)
                    if cal is None:
                        nm = n.func.attr if isinstance(n.func, ast.Attribute) else n.func.id if isinstance(n.func, ast.Name) else None
                        if nm is not None:
                            self._unresolved_names.add(nm)
                        continue
                    for key in cal:
                        sites.setdefault(key, []).append((cls, fn, n, asg))
        # module-level statements calling private functions
        for modname, t in self.trees.items():
            for st in t.body:
                if not isinstance(st, (ast.FunctionDef, ast.AsyncFunctionDef, ast.ClassDef)):
                    for n in ast.walk(st):
                        if isinstance(n, ast.Call):
                            nm = n.func.attr if isinstance(n.func, ast.Attribute) else n.func.id if isinstance(n.func, ast.Name) else None
                            if nm is not None:
                                self._unresolved_names.add(nm)
        # a name used as a value (passed around, stored) can be called from anywhere
        for cls, fn in fns:
            for n in ast.walk(fn):
                if isinstance(n, ast.Attribute) and isinstance(n.ctx, ast.Load):
                    pass
        return sites

    def _fn_def(self, cls, fname):
        if cls is not None:
            return [self.methods[(cls, fname)]] if (cls, fname) in self.methods else []
        return self.funcs.get(fname, [])

    def _bound_arg(self, call, _m, cls, fname, p):
        defs = self._fn_def(cls, fname)
        if not defs:
            return None
        d = defs[0]
        params = [a.arg for a in d.args.posonlyargs + d.args.args]
        if cls is not None and not any(isinstance(x, ast.Name) and x.id == "staticmethod" for x in d.decorator_list):
            params = params[1:]
        if any(isinstance(a, ast.Starred) for a in call.args) or any(k.arg is None for k in call.keywords):
            return None
        if p in params:
            i = params.index(p)
            if i < len(call.args):
                return call.args[i]
        for k in call.keywords:
            if k.arg == p:
                return k.value
        return "default"

    def _default_of(self, cls, fname, p):
        for d in self._fn_def(cls, fname):
            a = d.args
            pos = a.posonlyargs + a.args
            names = [x.arg for x in pos]
            if p in names:
                i = names.index(p) - (len(names) - len(a.defaults))
                return a.defaults[i] if i >= 0 else None
            for x, dv in zip(a.kwonlyargs, a.kw_defaults):
                if x.arg == p:
                    return dv
        return None

    def describe(self):
        return {"ret": {"%s.%s" % (k[0] or "", k[1]): sorted(str(i) for i in v) for k, v in sorted(self.ret.items(), key=str) if v},
                "param": sorted("%s.%s(%s)" % (k[0] or "", k[1], k[2]) for k, v in self.param.items() if v),
                "queue": {"%s.%s" % k: sorted(str(i) for i in v) for k, v in self.queue.items() if v}}


if __name__ == "__main__":
    import os
    import sys
    import json
    pk = sys.argv[1] if len(sys.argv) > 1 else "/repo/adb_shell"
    trees = {}
    for dp, dn, fns_ in os.walk(pk):
        for f_ in fns_:
            if f_.endswith(".py"):
                full = os.path.join(dp, f_)
                mn = os.path.relpath(full, pk)[:-3].replace(os.sep, ".")
                trees[mn] = ast.parse(open(full).read())
    N = Nullness(trees)
    d = N.describe()
    want = sys.argv[2:]
    if want:
        for w in want:
            print(w, {k: v for k, v in d["ret"].items() if w in k}, [p for p in d["param"] if w in p])
    else:
        print(json.dumps(d, indent=1))
